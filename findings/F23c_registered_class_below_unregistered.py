"""C03 (known finding F23c; the recognition side of F23): "the loaded object is of the single most-derived registered concrete
class ... that matches the node", for hierarchies "with abstract and unregistered intermediates".  The descent from the expected class
follows direct bases only, so a registered class that derives from it through an unregistered class is never a candidate."""
import yatiml


class A:
    def __init__(self, a: int) -> None:
        self.a = a


class B(A):         # not registered
    pass


class C(B):
    def __init__(self, a: int, c: int = 0) -> None:
        super().__init__(a)
        self.c = c


doc = 'a: 1\nc: 2\n'
print('A, B, C registered:', type(yatiml.load_function(A, B, C)(doc)).__name__)
try:
    v = yatiml.load_function(A, C)(doc)
    print('A, C registered   :', type(v).__name__)
    raise SystemExit('unexpected')
except yatiml.RecognitionError as e:
    print('A, C registered   : RecognitionError -', str(e).splitlines()[-1][:90])
