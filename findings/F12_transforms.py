"""F12 (C15): the seasoning transforms raise where they are documented to silently do nothing / to produce the documented shape."""
import yaml, yatiml
def node(text): return yatiml.Node(yaml.compose(text, Loader=yaml.SafeLoader))
def t(name, f):
    try: f(); print(name, '-> ok')
    except Exception as e: print(name, '->', type(e).__name__, str(e)[:70])
n = node('items: [a, b]')
t("seq_attribute_to_map('items','id') on items: [a, b] (not a sequence of mappings; documented: do nothing)", lambda: n.seq_attribute_to_map('items', 'id'))
n = node('items:\n- {id: a, x: 1}\n- {x: 2}')
t("seq_attribute_to_map on an item without the key attribute", lambda: n.seq_attribute_to_map('items', 'id'))
n = node('items:\n- {id: a, x: 1}')
t("seq_attribute_to_map('items','id','v') where the item has no 'v' (documented: long form a: {x: 1})", lambda: n.seq_attribute_to_map('items', 'id', 'v'))
n = node('items: {a: 1, b: {x: 2}}')
t("index_attribute_to_map('items','name') on a mapping with a scalar value (documented: do nothing)", lambda: n.index_attribute_to_map('items', 'name'))
n = node('items: {a: {name: a, x: 1}, b: 2}')
before = yaml.serialize(n.yaml_node)
t("index_attribute_to_map with a later scalar value", lambda: n.index_attribute_to_map('items', 'name'))
print('   node changed although the call failed:', yaml.serialize(n.yaml_node) != before)
