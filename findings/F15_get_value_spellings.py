"""C14, C08 (fixed by 0b2c66a): get_value() on YAML number spellings that int()/float() do not read.
A savorize that reads an attribute with get_value() makes load raise ValueError; matches() in
remove_attributes_with_default_values fails on a float attribute holding inf (represented as .inf)."""
import yaml, yatiml
for text in ['0x1F', '1_000', '0b101', '1:30', '.inf', '-.inf', '.nan', '1_0.5']:
    node = yaml.compose('a: ' + text, Loader=yaml.SafeLoader).value[0][1]
    want = yaml.safe_load(text)
    try:
        got = yatiml.Node(node).get_value()
        print('%-6s tag %-5s load constructs %-8r get_value -> %r' % (text, node.tag[18:], want, got))
    except Exception as e:
        print('%-6s tag %-5s load constructs %-8r get_value -> %s: %s' % (text, node.tag[18:], want, type(e).__name__, e))

class A:
    def __init__(self, a: int) -> None: self.a = a
    @classmethod
    def _yatiml_savorize(cls, node):
        if node.has_attribute('a') and node.get_attribute('a').is_scalar(int):
            node.get_attribute('a').get_value()
try:
    yatiml.load_function(A)('a: 0x1F')
except Exception as e:
    print('load with a savorize that calls get_value on `a: 0x1F` ->', type(e).__name__, e)

class F:
    def __init__(self, a: int, x: float = 0.0) -> None: self.a = a; self.x = x
    @classmethod
    def _yatiml_sweeten(cls, node): node.remove_attributes_with_default_values(cls)
try:
    print(yatiml.dumps_function(F)(F(1, float('inf'))))
except Exception as e:
    print('dumps(F(1, inf)) with default-stripping sweeten ->', type(e).__name__, e)
