"""C02 (known finding F28): "no unknown attributes unless the class takes _yatiml_extra ... extra attributes arriving as an ordered
mapping of plain data".  `self` is in getfullargspec().args, so a document key called self counts as a constructor parameter: it is
never an extra attribute, stays in the argument mapping, and __init__(**mapping) fails with "got multiple values for argument 'self'"
(reported as RecognitionError) - a document the pipeline admits is rejected."""
from collections import OrderedDict
import yatiml


class Ext:
    def __init__(self, a: int, _yatiml_extra: OrderedDict) -> None:
        self.a = a
        self._yatiml_extra = _yatiml_extra


load = yatiml.load_function(Ext)
print('other key :', dict(load('a: 1\nother: 2\n')._yatiml_extra))
try:
    v = load('a: 1\nself: 2\n')
    raise SystemExit('unexpected: loaded, extras %r' % dict(v._yatiml_extra))
except yatiml.RecognitionError as e:
    print('key self  : RecognitionError -', str(e).splitlines()[-1][:90])
