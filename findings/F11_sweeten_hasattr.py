"""F11 (C10): EnumRepresenter / UserStringRepresenter call _yatiml_sweeten through hasattr():
 (a) the sweeten of an UNREGISTERED mix-in runs for a string-like class that does not define one;
 (b) when a registered string-like base and its registered subclass both define sweeten, only the subclass's runs
     (the ancestor's hook is skipped), unlike for ordinary classes (Representer.__sweeten)."""
import collections, yatiml
calls = []
class Mixin:
    @classmethod
    def _yatiml_sweeten(cls, node): calls.append(('Mixin', cls.__name__))
class S(Mixin, collections.UserString): pass
yatiml.dumps_function(S)(S('x'))
print('(a) hooks run for S, which defines no sweeten and whose mix-in is not registered:', calls)
calls.clear()
class A(collections.UserString):
    @classmethod
    def _yatiml_sweeten(cls, node): calls.append('A')
class B(A):
    @classmethod
    def _yatiml_sweeten(cls, node): calls.append('B')
yatiml.dumps_function(A, B)(B('x'))
print('(b) hooks run for B(A), both registered, both defining sweeten:', calls, '(expected [A, B])')
