"""C14 (fixed by 35a342d): get_value() on `!!bool yes` answered False where a load constructs True."""
import yaml
import yatiml
from yatiml.helpers import Node

for text in ('x: !!bool yes', 'x: !!bool on', 'x: !!bool No', 'x: true'):
    node = Node(yaml.compose(text)).get_attribute('x')
    print(text, '-> get_value():', node.get_value(), ' load:', yatiml.load_function()(text)['x'])
