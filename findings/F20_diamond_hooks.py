"""C10 (known finding F20): with diamond inheritance the hook of the common ancestor runs twice (the walk over __bases__ keeps no
record of what it visited), on loading and on dumping."""
import yatiml

calls = []


class A:
    def __init__(self, x: int) -> None:
        self.x = x

    @classmethod
    def _yatiml_savorize(cls, node: yatiml.Node) -> None:
        calls.append('savorize A')

    @classmethod
    def _yatiml_sweeten(cls, node: yatiml.Node) -> None:
        calls.append('sweeten A')


class B(A):
    pass


class C(A):
    pass


class D(B, C):
    pass


yatiml.load_function(D, A, B, C)('x: 1')
print(calls)            # ['savorize A', 'savorize A']
del calls[:]
yatiml.dumps_function(D, A, B, C)(D(1))
print(calls)            # ['sweeten A', 'sweeten A']
