"""C08 (F33, known finding): unders_to_dashes_in_keys / dashes_to_unders_in_keys call str.replace on the value of every key node.
For a sequence or mapping key the value is a list: AttributeError, which leaves a load whose _yatiml_savorize uses the helper.
Exit 1 while the defect is there."""
import sys

import yaml
import yatiml


class A:
    def __init__(self, x_y: int) -> None:
        self.x_y = x_y

    @classmethod
    def _yatiml_savorize(cls, node: yatiml.Node) -> None:
        node.dashes_to_unders_in_keys()


class B:
    def __init__(self, x_y: int) -> None:
        self.x_y = x_y

    @classmethod
    def _yatiml_recognize(cls, node: yatiml.UnknownNode) -> None:
        pass

    @classmethod
    def _yatiml_savorize(cls, node: yatiml.Node) -> None:
        node.unders_to_dashes_in_keys()


bad = 0
for cls in (A, B):
    load = yatiml.load_function(cls)
    for doc in ('x-y: 1\n? {a: b}\n: c\n', 'x_y: 1\n? [a]\n: c\n'):
        try:
            load(doc)
        except (yatiml.RecognitionError, yaml.YAMLError):
            pass
        except Exception as e:
            bad += 1
            print('%s on %r: %s: %s' % (cls.__name__, doc, type(e).__name__, e))
sys.exit(1 if bad else 0)
