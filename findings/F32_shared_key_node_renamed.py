"""C14 (F32, known finding): a key node can be shared between two mappings through an anchor on the key.  rename_attribute,
unders_to_dashes_in_keys and dashes_to_unders_in_keys overwrite the text of the key node, so renaming a key of one mapping renames
the key of the other.  Exit 1 while the defect is there."""
import sys

import yaml
import yatiml

bad = []
for method, args, before, after in (('rename_attribute', ('name', 'title'), 'name', 'title'),
                                    ('unders_to_dashes_in_keys', (), 'a_b', 'a-b'),
                                    ('dashes_to_unders_in_keys', (), 'a-b', 'a_b')):
    tree = yaml.compose('outer: {&k %s: 1}\ninner: {*k : 2}\n' % before)
    doc = yatiml.Node(tree)
    getattr(doc.get_attribute('outer'), method)(*args)
    inner = doc.get_attribute('inner')
    if not inner.has_attribute(before) or inner.has_attribute(after):
        bad.append(method)
        print('%s on outer changed the keys of inner: has %r: %s, has %r: %s' % (
            method, before, inner.has_attribute(before), after, inner.has_attribute(after)))
sys.exit(1 if bad else 0)
