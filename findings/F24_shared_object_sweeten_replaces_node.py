"""C06 (known finding F24): "read by a plain YAML parser it equals the object's projection ... altered only by the classes' own
_yatiml_sweeten functions".  An object that occurs twice in the value is represented once by PyYAML, which files its node under
id(object) and hands the filed node out for the second reference.  A _yatiml_sweeten that *replaces* the node (Node.set_value,
make_mapping) leaves the filed node behind, so the second reference is written from the unsweetened mapping - neither sweetened nor
an alias of the first.  (A sweeten that edits the node in place is fine: both references are then one node, written with an anchor.)"""
import yatiml


class Postcode:
    def __init__(self, digits: int, letters: str) -> None:
        self.digits, self.letters = digits, letters

    @classmethod
    def _yatiml_sweeten(cls, node: yatiml.Node) -> None:
        node.set_value('{} {}'.format(node.get_attribute('digits').get_value(), node.get_attribute('letters').get_value()))


class Addr:
    def __init__(self, home: Postcode, work: Postcode) -> None:
        self.home, self.work = home, work


dumps = yatiml.dumps_function(Addr, Postcode)
p = Postcode(1234, 'AB')
two = dumps(Addr(p, Postcode(1234, 'AB')))
shared = dumps(Addr(p, p))
print('two equal objects :', repr(two))
print('one shared object :', repr(shared))
assert two == 'home: 1234 AB\nwork: 1234 AB\n'
assert 'digits' in shared          # the second reference is written unsweetened
