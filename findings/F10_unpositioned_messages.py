"""F10 (C17): RecognitionError messages without any source position."""
import abc, yatiml
class Base:
    def __init__(self, a: int) -> None: self.a = a
class Sub1(Base): pass
class Sub2(Base): pass
class Abstract(abc.ABC):
    @abc.abstractmethod
    def f(self): ...
class Holder:
    def __init__(self, x: Abstract) -> None: self.x = x
class Unreg:
    def __init__(self, a: int) -> None: self.a = a
class UsesUnreg:
    def __init__(self, u: Unreg) -> None: self.u = u
def t(name, f):
    try: f(); print(name, '-> loaded')
    except yatiml.RecognitionError as e:
        msg = str(e)
        print('%s -> RecognitionError, cites a position: %s | %s' % (name, 'line ' in msg, msg.replace('\n', ' | ')[:110]))
t('two sibling subclasses both match', lambda: yatiml.load_function(Base, Sub1, Sub2)('a: 1'))
t('abstract class without registered subclasses', lambda: yatiml.load_function(Holder, Abstract)('x: {}'))
t('attribute of an unregistered class', lambda: yatiml.load_function(UsesUnreg)('u: {a: 1}'))
class Top(abc.ABC):
    @abc.abstractmethod
    def f(self): ...
class Mid(Top):
    @abc.abstractmethod
    def g(self): ...
class HoldsTop:
    def __init__(self, x: Top) -> None: self.x = x
t('abstract subclass (non-top) without concrete registered subclasses', lambda: yatiml.load_function(HoldsTop, Top, Mid)('x: {}'))
