"""F8 (C16, C18, C03): the enum arm of the recogniser rewrites node.tag in place (bool -> str) while merely *recognising*.
(a) UnknownNode.require_attribute(name, SomeEnum) modifies the node; (b) the outcome of Union[Color, bool] depends on member order;
(c) an aliased scalar used as an enum and as a bool fails although the expanded document loads."""
import enum, yaml, yatiml
from typing import Union
class Color(enum.Enum):
    red = 1
    true = 2
class A:
    def __init__(self, a: Color, b: bool) -> None: self.a, self.b = a, b
def t(name, f):
    try: print(name, '->', repr(f()))
    except Exception as e: print(name, '->', type(e).__name__, str(e).replace('\n', ' | ')[:90])
# (a)
n = yaml.compose('a: true', Loader=yaml.SafeLoader)
from yatiml.recognizer import Recognizer
un = yatiml.UnknownNode(Recognizer({'!Color': Color}, {}), n)
before = n.value[0][1].tag
un.require_attribute('a', Color)
print('(a) tag of the value node before/after require_attribute:', before, '/', n.value[0][1].tag)
# (b)
t('(b) Union[Color, bool] on `true`', lambda: yatiml.load_function(Union[Color, bool], Color)('true'))
t('(b) Union[bool, Color] on `true`', lambda: yatiml.load_function(Union[bool, Color], Color)('true'))
# (c)
load = yatiml.load_function(A, Color)
t('(c) expanded  a: true / b: true', lambda: vars(load('a: true\nb: true')))
t('(c) aliased   a: &x true / b: *x', lambda: vars(load('a: &x true\nb: *x')))
