"""C08 (F29, fixed by 6ceb22e): a block scalar with a non-core tag below Any is re-resolved by strip_tags from its text, which ends
in a newline.  With resolver patterns ending in `$` the texts 'true\\n' / '.inf\\n' got the bool / float tag and PyYAML's constructors
raised KeyError / ValueError.  After the fix (`\\Z`) they stay strings; this script exits 0 on the repaired tree."""
import yatiml

load = yatiml.load_function()
assert load('!x |\n  true\n') == 'true\n'
assert load('a: !x |\n  false\n') == {'a': 'false\n'}
assert load('!x |\n  .inf\n') == '.inf\n'
print('ok')
