"""C07 (known finding F22): a date is written to JSON as a string (the only way JSON has), and the matching load function does not
accept a string where a date is declared - objects containing dates do not survive dumps_json + load."""
import datetime
import yatiml


class Event:
    def __init__(self, name: str, day: datetime.date) -> None:
        self.name = name
        self.day = day


text = yatiml.dumps_json_function(Event)(Event('launch', datetime.date(2021, 3, 4)))
print(text)                                             # {"name":"launch","day":"2021-03-04"}
try:
    print(vars(yatiml.load_function(Event)(text)))
except yatiml.RecognitionError as e:
    print('RecognitionError:', str(e).splitlines()[-1])
