"""C06 (F30, fixed by f824033): Node.set_value(None) wrote the text 'None' under the null tag.  PyYAML's serializer does not
resolve 'None' to null, so a dump whose _yatiml_sweeten stored such a value came out as `!!null 'None'` - an explicit tag in
the output.  After the fix the text is 'null' (the representer's spelling); this script exits 0 on the repaired tree."""
import yaml
import yatiml


class A:
    def __init__(self, x: int) -> None:
        self.x = x

    @classmethod
    def _yatiml_sweeten(cls, node: yatiml.Node) -> None:
        node.set_value(None)


out = yatiml.dumps_function(A)(A(1))
assert '!!' not in out, out
assert yaml.safe_load(out) is None
n = yatiml.Node(yaml.compose('a'))
n.set_value(None)
assert n.is_scalar(type(None)) and n.get_value() is None
print('ok')
