"""C01 (known finding F19, same root cause as findings/F19_alias_two_types.py): a mapping whose key and value are ONE node
(`&a foo: *a`), loaded as Dict[str, Path].  __process_node first processes the node as the key (str), then - the same object - as
the value (Path) and retags it `!Path` in place; the key is then constructed from the retagged node.  The load function returns a
dict whose key is a Path although the declared key type is str: a value that does not conform to the target type."""
import pathlib
from typing import Dict
import yatiml

load = yatiml.load_function(Dict[str, pathlib.Path])
print('expanded :', load('foo: foo\n'))
v = load('&a foo: *a\n')
print('aliased  :', v, '- key type', type(next(iter(v))).__name__, '(declared: str)')
assert not isinstance(next(iter(v)), str)
