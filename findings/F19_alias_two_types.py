"""C18 / C04 (known finding F19): one node reached through an alias at two positions of *different* expected types.
__process_node retags (or strips) the shared node in place, so the second visit undoes / overrides what the first one established."""
from typing import Any
import yatiml


class P:
    def __init__(self, x: int) -> None:
        self.x = x


class Doc:
    def __init__(self, p: P, q: Any) -> None:
        self.p, self.q = p, q


class Doc2:
    def __init__(self, q: Any, p: P) -> None:
        self.p, self.q = p, q


load = yatiml.load_function(Doc, P)
print('expanded :', vars(load('p: {x: 1}\nq: {x: 1}\n')))
try:
    print('aliased  :', vars(load('p: &a {x: 1}\nq: *a\n')))
except yatiml.RecognitionError as e:
    print('aliased  : RecognitionError', str(e).splitlines()[-1])      # Attribute "p" is a(n) dict, expected a(n) P

load2 = yatiml.load_function(Doc2, P)
d = load2('q: &a {x: 1}\np: *a\n')
print('aliased, Any first: q is', type(d.q).__name__, '(untyped position received a constructed object)')
