"""C10 (known finding F23): "the _yatiml_savorize functions defined in the bodies of C's registered ancestors and of C itself are each
called exactly once".  Loader.__savorize / Representer.__sweeten descend only into *registered* base classes, so the walk ends at the
first unregistered class: with C(B), B(A), where A and C are registered and B is not, A's hooks never run."""
import yatiml

calls = []


class A:
    def __init__(self, x: int) -> None:
        self.x = x

    @classmethod
    def _yatiml_savorize(cls, node: yatiml.Node) -> None:
        calls.append('savorize A')

    @classmethod
    def _yatiml_sweeten(cls, node: yatiml.Node) -> None:
        calls.append('sweeten A')


class B(A):         # not registered
    pass


class C(B):
    def __init__(self, x: int) -> None:
        super().__init__(x)

    @classmethod
    def _yatiml_savorize(cls, node: yatiml.Node) -> None:
        calls.append('savorize C')

    @classmethod
    def _yatiml_sweeten(cls, node: yatiml.Node) -> None:
        calls.append('sweeten C')


load = yatiml.load_function(C, A)
load('x: 1\n')
print('load :', calls, '(expected: savorize A, savorize C)')
assert calls == ['savorize C']
calls.clear()
yatiml.dumps_function(C, A)(C(1))
print('dump :', calls, '(expected: sweeten A, sweeten C)')
assert calls == ['sweeten C']
