"""C06 (fixed by 47a7417): a sweeten storing 1e20 / inf made the dump carry an explicit !!float tag."""
import yatiml
class A:
    def __init__(self, a: int) -> None: self.a = a
    @classmethod
    def _yatiml_sweeten(cls, node):
        node.set_attribute('f', 1e20)
        node.set_attribute('g', float('inf'))
print(yatiml.dumps_function(A)(A(1)))     # before the fix:  f: !!float '1e+20'   g: !!float 'inf'
