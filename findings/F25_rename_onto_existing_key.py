"""C14 (known finding F25): "any sequence of has_attribute, get_attribute, set_attribute, remove_attribute, rename_attribute ...
calls behaves like the same operations on an ordered dictionary".  rename_attribute('a', 'b') on a mapping that already has b only
overwrites the text of the key node: the mapping then has two keys b."""
import yaml
import yatiml

n = yatiml.Node(yaml.compose('a: 1\nb: 2\nc: 3\n'))
n.rename_attribute('a', 'b')
keys = [k.value for k, _ in n.yaml_node.value]
print('keys after rename_attribute(a, b):', keys, '- has_attribute(b):', n.has_attribute('b'))
try:
    n.get_attribute('b')
    raise SystemExit('unexpected: get_attribute(b) answered')
except yatiml.SeasoningError as e:
    print('get_attribute(b) raises SeasoningError:', e)
assert keys == ['b', 'b', 'c']
