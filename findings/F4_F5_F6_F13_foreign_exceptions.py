"""C08 findings: inputs for which a load function raises something other than RecognitionError / YAMLError."""
import yaml, yatiml
from typing import Any
class A:
    def __init__(self, a: int) -> None: self.a = a
class S:
    def __init__(self, a: int) -> None: self.a = a
    @classmethod
    def _yatiml_savorize(cls, node): node.set_value('x')      # replaces the mapping by a scalar
def t(name, f):
    try: print('%-62s -> %r' % (name, f()))
    except (yatiml.RecognitionError, yaml.YAMLError) as e: print('%-62s -> ok: %s' % (name, type(e).__name__))
    except Exception as e: print('%-62s -> %s: %s' % (name, type(e).__name__, str(e)[:50]))
load_a = yatiml.load_function(A)
t('F4  duplicate key           a: 1 / a: 2', lambda: load_a('a: 1\na: 2'))
t('F5  complex key + missing   ? [1, 2] : 3', lambda: load_a('? [1, 2]\n: 3'))
t('F6  explicit tag            !!int foo', lambda: yatiml.load_function(int)('!!int foo'))
t('F6  explicit tag            !!bool maybe', lambda: yatiml.load_function(bool)('!!bool maybe'))
t('F6  explicit tag            !!float x', lambda: yatiml.load_function(float)('!!float x'))
t('F6  explicit tag            !!timestamp foo', lambda: yatiml.load_function()('!!timestamp foo'))
t('F6b implicit int PyYAML rejects   0b_', lambda: yatiml.load_function()('0b_'))
t('F6b implicit timestamp            2001-13-45', lambda: yatiml.load_function()('2001-13-45'))
t('F13 savorize replaces the mapping by a scalar', lambda: yatiml.load_function(S)('a: 1'))
