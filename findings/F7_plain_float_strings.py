"""F7 (C05): the Dumper decides plain-vs-quoted with PyYAML's YAML 1.1 resolver table, the Loader types plain scalars with the
YAML 1.2 float pattern: a *string* that is a YAML 1.2 float but not a YAML 1.1 float is written unquoted and read back as a float."""
import yatiml
dumps = yatiml.dumps_function()
load = yatiml.load_function()
for s in ['1e5', '0e0', '+.5', '1.e3', '+.nan', '1E-2']:
    text = dumps(s)
    back = load(text)
    print('%-6r -> %-12r -> %r%s' % (s, text, back, '' if back == s and type(back) is str else '   <-- not the string that was dumped'))
