"""C05 (known finding F9-str / F9-path, same root cause as C18's F9): one Path or string-like object referenced twice is dumped
as anchor + alias; on loading, the first reference retags the shared scalar ('!Path' / '!Name') and the second is rejected."""
from collections import UserString
from pathlib import Path
from typing import List

import yatiml


class Name(UserString):
    pass


p = Path('x/y')
text = yatiml.dumps_function()([p, p])
print(repr(text))                                  # '- &id001 x/y\n- *id001\n'
try:
    print(yatiml.load_function(List[Path])(text))
except yatiml.RecognitionError as e:
    print('RecognitionError:', str(e).splitlines()[-1])

n = Name('abc')
text = yatiml.dumps_function(Name)([n, n])
print(repr(text))
try:
    print(yatiml.load_function(List[Name], Name)(text))
except yatiml.RecognitionError as e:
    print('RecognitionError:', str(e).splitlines()[-1])
