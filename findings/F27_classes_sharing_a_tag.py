"""C13 / C03 (known finding F27): the tag of a class is '!' + __name__, and nothing refuses a second class with the same name.
(1) C13 "when unrelated classes are additionally registered": a user class that happens to be called Path takes over the !Path tag of
pathlib.Path attributes.  (2) C03 "the outcome does not depend on the order ... of class registration": two classes called A."""
import pathlib
import yatiml


class HasPath:
    def __init__(self, p: pathlib.Path) -> None:
        self.p = p


def unrelated_path_class():
    class Path:
        def __init__(self, x: int) -> None:
            self.x = x
    return Path


print('without the unrelated class:', vars(yatiml.load_function(HasPath)('p: /tmp\n')))
try:
    yatiml.load_function(HasPath, unrelated_path_class())('p: /tmp\n')
    raise SystemExit('unexpected')
except yatiml.RecognitionError as e:
    print('with it                    : RecognitionError -', str(e).splitlines()[-1][:80])


def class_a(field):
    ns = {}
    exec('class A:\n    def __init__(self, %s: int) -> None:\n        self.%s = %s\n' % (field, field, field), ns)
    return ns['A']


A1, A2 = class_a('v'), class_a('w')
outcomes = []
for order in ((A1, A2), (A2, A1)):
    try:
        outcomes.append(type(yatiml.load_function(A1, *order)('v: 1\n')).__name__)
    except yatiml.RecognitionError as e:
        outcomes.append('RecognitionError')
print('two classes called A, both registration orders:', outcomes)
assert outcomes[0] != outcomes[1]
