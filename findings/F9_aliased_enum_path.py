"""F9 (C18): a node shared through an anchor is retagged ('!Color', '!Path', '!MyStr') when its first reference is processed;
the recognisers of enum / string-like / Path accept only str (|bool) tags, so the second reference is rejected although the
document with the alias expanded loads."""
import enum, collections, pathlib, yatiml
from typing import List
class Color(enum.Enum):
    red = 1
class MyStr(collections.UserString): pass
class P:
    def __init__(self, p: pathlib.Path) -> None: self.p = p
def t(name, f):
    try: print('%-44s -> %r' % (name, f()))
    except yatiml.RecognitionError as e: print('%-44s -> RecognitionError' % name)
t('List[Color]  [red, red]', lambda: yatiml.load_function(List[Color], Color)('[red, red]'))
t('List[Color]  [&c red, *c]', lambda: yatiml.load_function(List[Color], Color)('[&c red, *c]'))
t('List[MyStr]  [a, a]', lambda: yatiml.load_function(List[MyStr], MyStr)('[a, a]'))
t('List[MyStr]  [&s a, *s]', lambda: yatiml.load_function(List[MyStr], MyStr)('[&s a, *s]'))
t('List[P]      [{p: /x}, {p: /x}]', lambda: [v.p for v in yatiml.load_function(List[P], P)('[{p: /x}, {p: /x}]')])
t('List[P]      [&m {p: /x}, *m]', lambda: [v.p for v in yatiml.load_function(List[P], P)('[&m {p: /x}, *m]')])
