"""C06 / C05 (F31, known finding): PyYAML hands out one node object per Python object; the mapping node that Representer.__call__
wraps for _yatiml_sweeten holds those shared nodes as its values.  A parent hook that edits an attribute in place - the documented
index_attribute_to_map on a dict of objects - removes the key attribute from *the* node of each employee, so another reference to
the same object (boss) loses it too: read by a plain YAML parser boss has no name (yatiml's own loader papers over it through the alias).  This script shows the defect against the real code (exit 1 while it is there)."""
import sys
from typing import Dict

import yatiml


class Emp:
    def __init__(self, name: str, role: str) -> None:
        self.name = name
        self.role = role


class Company:
    def __init__(self, boss: Emp, employees: Dict[str, Emp]) -> None:
        self.boss = boss
        self.employees = employees

    @classmethod
    def _yatiml_recognize(cls, node: yatiml.UnknownNode) -> None:
        node.require_attribute('boss')
        node.require_attribute('employees')

    @classmethod
    def _yatiml_savorize(cls, node: yatiml.Node) -> None:
        node.map_attribute_to_index('employees', 'name')

    @classmethod
    def _yatiml_sweeten(cls, node: yatiml.Node) -> None:
        node.index_attribute_to_map('employees', 'name')


import yaml

m = Emp('Mary', 'Director')
dumps = yatiml.dumps_function(Company, Emp)
text = dumps(Company(m, {'Mary': m}))
print(text)
plain = yaml.safe_load(text)
# the hook edits `employees` only: read by a plain YAML parser, boss is still the projection of the Emp object
ok = plain['boss'] == {'name': 'Mary', 'role': 'Director'}
if not ok:
    print('boss reads', plain['boss'])
# control: two equal but distinct objects are written as expected
plain2 = yaml.safe_load(dumps(Company(Emp('Mary', 'Director'), {'Mary': Emp('Mary', 'Director')})))
assert plain2 == {'boss': {'name': 'Mary', 'role': 'Director'}, 'employees': {'Mary': {'role': 'Director'}}}, plain2
sys.exit(0 if ok else 1)
