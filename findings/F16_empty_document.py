"""C01 (fixed by d5dea71): an empty document was returned as None whatever the target type."""
import yatiml
class Config:
    def __init__(self, a: int) -> None: self.a = a
for t in (int, Config):
    try: print(t.__name__, '->', repr(yatiml.load_function(t, Config)('')))      # before the fix: None
    except yatiml.RecognitionError as e: print(t.__name__, '-> RecognitionError')
