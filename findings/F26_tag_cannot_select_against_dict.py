"""C03 (known finding F26): "If two or more candidates remain the load fails with RecognitionError unless an explicit !ClassName tag
names one of them".  For Union[Dict[str, str], C] a mapping tagged !C is still "a C or a dict": the dict recogniser ignores the tag."""
from typing import Dict, Union
import yatiml


class Base3:
    def __init__(self, attr: str) -> None:
        self.attr = attr


for T in (Union[Dict[str, str], Base3], Union[Base3, Dict[str, str]]):
    load = yatiml.load_function(T, Base3)
    try:
        v = load('!Base3\nattr: x\n')
        raise SystemExit('unexpected: loaded %r' % v)
    except yatiml.RecognitionError as e:
        print(T, '->', str(e).splitlines()[-1][:110])
