"""F6c (C16): require_attribute_value / require_attribute_value_not leave with ValueError for an explicitly tagged scalar whose
text is not a number.  Run with /venv/bin/python from any directory; prints what the real code does."""
import yaml
from yatiml.helpers import UnknownNode
from yatiml.recognizer import Recognizer

for doc, value in (('x: !!int abc', 1), ('x: !!float abc', 1.5)):
    for name in ('require_attribute_value', 'require_attribute_value_not'):
        u = UnknownNode(Recognizer({}, {}), yaml.compose(doc))
        try:
            getattr(u, name)('x', value)
            print('%-30s %-16s returned normally' % (name, doc))
        except Exception as e:      # noqa
            print('%-30s %-16s %s: %s' % (name, doc, type(e).__name__, e))
