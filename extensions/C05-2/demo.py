"""C05 round trip: load(dumps(value)) is structurally equal to value.

Exposes pair 2 (the dumper refuses structures that contain themselves):
a value that is merely referenced more than once - the same object, list,
dict, date or enum member in two places - must still be dumped, and must
load back equal.
"""
import datetime
import enum
import math
import sys
from collections import UserString
from pathlib import Path
from typing import Any, Dict, List, Optional

import yatiml


def same(a: Any, b: Any, where: str = 'value') -> Optional[str]:
    """Returns None if structurally equal, else a description."""
    if type(a) is not type(b):
        return '{}: class {} became {}'.format(
                where, type(a).__name__, type(b).__name__)
    if isinstance(a, float):
        if math.isnan(a) and math.isnan(b):
            return None
        return None if a == b else '{}: {!r} became {!r}'.format(where, a, b)
    if isinstance(a, dict):
        if list(a.keys()) != list(b.keys()):
            return '{}: keys {} became {}'.format(
                    where, list(a.keys()), list(b.keys()))
        for k in a:
            r = same(a[k], b[k], '{}[{!r}]'.format(where, k))
            if r:
                return r
        return None
    if isinstance(a, list):
        if len(a) != len(b):
            return '{}: length {} became {}'.format(where, len(a), len(b))
        for i, (x, y) in enumerate(zip(a, b)):
            r = same(x, y, '{}[{}]'.format(where, i))
            if r:
                return r
        return None
    if isinstance(a, (UserString, enum.Enum, Path, datetime.date, str, int,
                      bool, type(None))):
        return None if a == b else '{}: {!r} became {!r}'.format(where, a, b)
    return same(vars(a), vars(b), where + '.__dict__')


class Color(enum.Enum):
    RED = 1
    GREEN = 2


class Point:
    def __init__(self, x: float, y: float = 0.0) -> None:
        self.x = x
        self.y = y

    @classmethod
    def _yatiml_sweeten(cls, node: yatiml.Node) -> None:
        node.remove_attributes_with_default_values(cls)


class Line:
    def __init__(self, start: Point, end: Point, color: Color) -> None:
        self.start = start
        self.end = end
        self.color = color


class Drawing:
    def __init__(
            self, lines: List[Line], origin: Point,
            tags: List[str], palette: Dict[str, Color],
            made: datetime.date, changed: datetime.date,
            more_tags: Optional[List[str]] = None) -> None:
        self.lines = lines
        self.origin = origin
        self.tags = tags
        self.palette = palette
        self.made = made
        self.changed = changed
        self.more_tags = more_tags


failures = []   # type: List[str]


def check(label: str, dumps: Any, load: Any, value: Any) -> None:
    try:
        text = dumps(value)
        result = load(text)
    except Exception as e:
        failures.append('{}: {}: {}'.format(
            label, type(e).__name__, str(e).replace('\n', ' | ')))
        return
    diff = same(value, result)
    if diff:
        failures.append('{}: {}\n--- dumped as ---\n{}'.format(
            label, diff, text))


dumps_any = yatiml.dumps_function()
load_any = yatiml.load_function()
for i, v in enumerate([
        '1', '1.5', 'true', 'null', '~', '2020-01-01', 'yes', '- a', 'a: b',
        '', '#x', 'multi\nline', 1, 1.5, True, None, float('inf'),
        float('-inf'), float('nan'), [1, [2, '3']],
        {'b': 1, 'a': {'z': [1.0, None], 'y': 'no'}},
        datetime.date(2020, 1, 2), datetime.datetime(2020, 1, 2, 3, 4, 5),
        [[], [], {}], [[1], [1]], {'a': {}, 'b': {}}]):
    check('builtin #{} {!r}'.format(i, v), dumps_any, load_any, v)

# built-in containers referenced more than once
inner = [1, 2, 3]
check('list used twice', dumps_any, load_any, [inner, inner])
table = {'k': 'v'}
check('dict used three times', dumps_any, load_any,
      {'a': table, 'b': [table], 'c': table})
day = datetime.date(2022, 3, 4)
check('date used twice', dumps_any, load_any, [day, day])
deep = [[inner, {'x': inner}], inner]
check('nested sharing', dumps_any, load_any, deep)

classes = (Drawing, Line, Point, Color)
dumps = yatiml.dumps_function(*classes)
load = yatiml.load_function(*classes)
load_points = yatiml.load_function(List[Point], Point)
load_colors = yatiml.load_function(List[Color], Color)

# no sharing at all
plain = Drawing(
        [Line(Point(0.0), Point(1.0, 1.0), Color.RED)], Point(9.0),
        ['a'], {'fg': Color.GREEN}, datetime.date(2020, 1, 1),
        datetime.date(2020, 1, 2))
check('drawing without shared parts', dumps, load, plain)

# the usual kind of sharing: lines meeting in a point
corner = Point(2.0, 3.0)
stamp = datetime.date(2021, 5, 6)
labels = ['x', 'y']
shared = Drawing(
        [Line(Point(0.0), corner, Color.RED),
         Line(corner, Point(4.0), Color.RED),
         Line(Point(4.0), corner, Color.GREEN)],
        corner, labels, {'fg': Color.RED, 'bg': Color.RED},
        stamp, stamp, labels)
check('drawing with a shared point, date, list and colour',
      dumps, load, shared)

check('same point twice in a list', dumps, load_points, [corner, corner])
check('same enum member twice', dumps, load_colors,
      [Color.GREEN, Color.RED, Color.GREEN])

if failures:
    print('FAIL')
    for f in failures:
        print(' *', f)
    sys.exit(1)
print('PASS')
