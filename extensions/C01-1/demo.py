"""C01 demo, pair 1: a loaded value conforms to the declared type.

Loads a number of documents for a number of target types, and checks
that every load either raises or returns a value that conforms to the
declared type all the way down. The inputs concentrate on lists and
dicts of leaf types, which is what the commit under test touches.
"""
import datetime
import enum
import inspect
import sys
import typing
from collections import abc
from pathlib import Path
from typing import Any, Dict, List, Optional, Union

import yatiml


def conforms(value: Any, type_: Any) -> bool:
    """Strict structural check of value against the declared type."""
    if type_ is Any:
        return True
    origin = getattr(type_, '__origin__', None)
    if origin is Union:
        return any(conforms(value, t) for t in type_.__args__)
    if origin in (list, abc.Sequence, abc.MutableSequence):
        return (type(value) is list and
                all(conforms(v, type_.__args__[0]) for v in value))
    if origin in (dict, abc.Mapping, abc.MutableMapping):
        return (isinstance(value, dict) and
                all(conforms(k, type_.__args__[0]) and
                    conforms(v, type_.__args__[1])
                    for k, v in value.items()))
    if type_ in (None, type(None)):
        return value is None
    if type_ in (str, int, float, bool):
        return type(value) is type_
    if type_ is datetime.date:
        return isinstance(value, datetime.date)
    if type_ is Path:
        return isinstance(value, Path)
    if inspect.isclass(type_) and issubclass(type_, enum.Enum):
        return isinstance(value, type_)
    if inspect.isclass(type_):
        if not isinstance(value, type_):
            return False
        # constructor arguments are recorded by the test classes
        hints = typing.get_type_hints(type(value).__init__)
        return all(
                conforms(value.args[name], t)
                for name, t in hints.items()
                if name != 'return' and name in value.args)
    raise RuntimeError('demo cannot check type {}'.format(type_))


class Colour(enum.Enum):
    red = 1
    green = 2


class Job:
    def __init__(
            self, name: str, inputs: List[Path],
            outputs: Optional[Dict[str, Path]] = None,
            retries: int = 0) -> None:
        self.args = dict(
                name=name, inputs=inputs, outputs=outputs, retries=retries)


CASES = [
    (List[int], [], '[1, 2, 3]'),
    (List[int], [], '[1, true]'),
    (List[int], [], '[1, "2"]'),
    (List[float], [], '[1.0, 2.5e3, .inf]'),
    (List[float], [], '[1.0, 2]'),
    (List[str], [], '[a, b, "3"]'),
    (List[str], [], '[a, 3]'),
    (List[bool], [], '[true, False]'),
    (List[bool], [], '[true, yes]'),
    (List[bool], [], '[true, 1]'),
    (List[type(None)], [], '[null, ~]'),
    (List[datetime.date], [], '[2020-01-01, 2021-02-03]'),
    (List[Optional[int]], [], '[1, null, 3]'),
    (List[Union[int, str]], [], '[1, a, 3]'),
    (List[List[int]], [], '[[1, 2], [3]]'),
    (List[List[int]], [], '[[1, 2], [a]]'),
    (Dict[str, int], [], '{a: 1, b: 2}'),
    (Dict[str, int], [], '{a: 1, b: x}'),
    (Dict[str, int], [], '{a: 1, 2: 2}'),
    (Dict[str, str], [], '{a: b, c: d}'),
    (Dict[str, List[int]], [], '{a: [1, 2], b: []}'),
    (Dict[str, Dict[str, float]], [], '{a: {b: 1.5}}'),
    (Dict[str, Any], [], '{a: {b: 1.5}, c: [1, x]}'),
    (List[Colour], [Colour], '[red, green]'),
    (List[Colour], [Colour], '[red, blue]'),
    (Dict[str, Colour], [Colour], '{a: red}'),
    # the additional type: a string in YAML, a Path in Python
    (Path, [], 'a/b.txt'),
    (List[Path], [], '[a/b.txt, /tmp/c]'),
    (List[Path], [], '[]'),
    (List[Path], [], '[a/b.txt, 3]'),
    (Dict[str, Path], [], '{in: a/b.txt, out: /tmp/c}'),
    (Dict[str, List[Path]], [], '{in: [a/b.txt], out: [/tmp/c]}'),
    (List[Optional[Path]], [], '[a/b.txt, null]'),
    (Job, [], 'name: j\ninputs: [a.txt, b.txt]\n'),
    (Job, [], 'name: j\ninputs: [a.txt]\noutputs: {log: j.log}\n'),
    (Job, [], 'name: j\ninputs: [a.txt]\nretries: true\n'),
    (List[Job], [Job], '- name: j\n  inputs: [a.txt]\n'),
]


def main() -> int:
    if not yatiml.__file__.startswith('/tmp/w5_C01/'):
        print('FAIL: wrong yatiml imported: {}'.format(yatiml.__file__))
        return 1

    failures = []
    n_values = 0
    for type_, classes, text in CASES:
        load = yatiml.load_function(type_, *classes)
        try:
            value = load(text)
        except Exception:
            continue        # raising an error is always allowed
        n_values += 1
        if not conforms(value, type_):
            failures.append(
                    'load_function({})({!r}) returned {!r}'.format(
                        type_, text, value))

    if failures:
        print('FAIL: {} value(s) do not conform to the declared type'.format(
            len(failures)))
        for f in failures:
            print('  ' + f)
        return 1
    print('PASS ({} cases, {} values checked)'.format(len(CASES), n_values))
    return 0


if __name__ == '__main__':
    sys.exit(main())
