#!/usr/bin/env python3
"""C08 demo, pair 2: exceptions raised by user code are described uniformly.

Property checked: for input text of bounded nesting, a load function
either returns, or raises yatiml.RecognitionError or yaml.YAMLError.
Nothing else (KeyError, ValueError, TypeError, AttributeError, IndexError,
SeasoningError, RecursionError, ...) may escape, also when a user
constructor, a string-like class or a savorize function raises.

The classes below do what user classes do: they validate their arguments
and quote the offending value in the exception's message. The inputs make
them raise, with all kinds of text ending up in those messages.

Run as
    cd /tmp/w5_C08 && PYTHONPATH=/tmp/w5_C08 /venv/bin/python demo.py
Prints PASS and exits 0 if the property held on every input below, prints
FAIL with the offending inputs and exits 1 otherwise. With -v, the outcome
for every input is shown.
"""
import enum
import sys
from collections import UserString
from typing import Any, Dict, List, Optional, Union

import yaml
import yatiml


class Colour(enum.Enum):
    red = 1
    green = 2


class Name(UserString):
    """A string-like class that accepts letters only."""
    def __init__(self, seq: Any) -> None:
        super().__init__(seq)
        if not str(seq).isalpha():
            raise ValueError('Not a valid name: {}'.format(seq))


class Ident(yatiml.String):
    """Another string-like class, raising several kinds of exception."""
    def __init__(self, text: str) -> None:
        if text == '':
            raise KeyError()
        if text.startswith('-'):
            raise IndexError(text)
        if ' ' in text:
            raise RuntimeError('No spaces allowed in "%s"' % text)
        self.text = text

    def __str__(self) -> str:
        return self.text


class Inner:
    def __init__(self, a: int, b: str = 'x') -> None:
        if a < 0:
            raise ValueError('Invalid arguments {}'.format({'a': a, 'b': b}))
        if a == 13:
            raise AssertionError()
        if len(b) > 5:
            raise TypeError('b is too long: ' + b)
        self.a = a
        self.b = b


class Range:
    """Has a savorize function that reports problems as SeasoningError."""
    def __init__(self, lo: int, hi: int) -> None:
        if lo > hi:
            raise ValueError('Empty range [{}, {}]'.format(lo, hi))
        self.lo = lo
        self.hi = hi

    @classmethod
    def _yatiml_recognize(cls, node: yatiml.UnknownNode) -> None:
        pass

    @classmethod
    def _yatiml_savorize(cls, node: yatiml.Node) -> None:
        if node.is_scalar(str):
            text = str(node.get_value())
            parts = text.split('..')
            if len(parts) != 2 or not all(p.isdigit() for p in parts):
                if text == '?':
                    raise yatiml.SeasoningError()
                raise yatiml.SeasoningError(
                        'Cannot read {} as a range'.format(text))
            node.make_mapping()
            node.set_attribute('lo', int(parts[0]))
            node.set_attribute('hi', int(parts[1]))


class Doc:
    def __init__(
            self, name: Name, inner: Inner,
            colour: Optional[Colour] = None,
            ident: Optional[Ident] = None,
            items: Optional[List[Inner]] = None,
            table: Optional[Dict[Name, Inner]] = None,
            ranges: Optional[List[Range]] = None,
            anything: Any = None) -> None:
        self.name = name


load_doc = yatiml.load_function(Doc, Name, Colour, Inner, Ident, Range)
load_any = yatiml.load_function()
load_names = yatiml.load_function(List[Name], Name)     # type: ignore
load_inner = yatiml.load_function(Inner)
load_ranges = yatiml.load_function(Dict[str, Range], Range)   # type: ignore

BASE = 'name: abc\ninner: {a: 1}\n'

CASES = [
    # --- ordinary good and bad input ------------------------------------
    (load_doc, BASE),
    (load_doc, ''),
    (load_doc, 'name: [unclosed'),
    (load_doc, BASE + 'colour: blue\n'),
    (load_doc, BASE + 'items: 12\n'),
    (load_doc, BASE + 'table: {k: {a: 1}, k: {a: 2}}\n'),     # duplicate key
    (load_doc, BASE + 'anything: {[1, 2]: 3}\n'),            # non-scalar key
    (load_doc, BASE + 'anything: &x [*x]\n'),
    (load_any, '{a: 1, a: 2}'),
    # --- a string-like class raises -------------------------------------
    (load_doc, 'name: a1\ninner: {a: 1}\n'),
    (load_doc, 'name: "a b"\ninner: {a: 1}\n'),
    (load_doc, 'name: a{b}\ninner: {a: 1}\n'),
    (load_doc, 'name: "{"\ninner: {a: 1}\n'),
    (load_doc, 'name: "}"\ninner: {a: 1}\n'),
    (load_doc, 'name: "{}"\ninner: {a: 1}\n'),
    (load_doc, 'name: "{0}{1}{2}{3}{4}"\ninner: {a: 1}\n'),
    (load_doc, 'name: "{0.nope}"\ninner: {a: 1}\n'),
    (load_doc, 'name: "{0[5]}"\ninner: {a: 1}\n'),
    (load_doc, 'name: "{:>9999}"\ninner: {a: 1}\n'),
    (load_doc, 'name: "{!x}"\ninner: {a: 1}\n'),
    (load_names, '[ab, cd, "e{f}"]'),
    (load_names, '- ab\n- "{{"\n- "{"\n'),
    (load_doc, BASE + 'ident: ""\n'),
    (load_doc, BASE + 'ident: -x\n'),
    (load_doc, BASE + 'ident: "-{x}"\n'),
    (load_doc, BASE + 'ident: a b\n'),
    (load_doc, BASE + 'ident: "a {b"\n'),
    (load_doc, BASE + 'table: {ab: {a: 1}, "c{d}": {a: 2}}\n'),
    # --- a user constructor raises --------------------------------------
    (load_doc, 'name: abc\ninner: {a: -1}\n'),
    (load_doc, 'name: abc\ninner: {a: -1, b: "}{"}\n'),
    (load_doc, 'name: abc\ninner: {a: 13}\n'),
    (load_doc, 'name: abc\ninner: {a: 1, b: toolong}\n'),
    (load_doc, 'name: abc\ninner: {a: 1, b: "{toolong}"}\n'),
    (load_doc, 'name: abc\ninner: {a: 1, b: "too long {"}\n'),
    (load_inner, '{a: -5}'),
    (load_inner, 'a: 2\nb: "{a}{b}{c}"\n'),
    (load_doc, BASE + 'items: [{a: 1}, {a: -2}]\n'),
    (load_doc, BASE + 'table: {k: {a: -3}}\n'),
    (load_doc, BASE + 'ranges: [{lo: 3, hi: 1}]\n'),
    (load_ranges, 'r: 5..2\n'),
    # --- a savorize function raises SeasoningError ----------------------
    (load_doc, BASE + 'ranges: [1..3, 2..4]\n'),
    (load_doc, BASE + 'ranges: [1..3, oops]\n'),
    (load_doc, BASE + 'ranges: ["?"]\n'),
    (load_doc, BASE + 'ranges: ["{1..3}"]\n'),
    (load_doc, BASE + 'ranges: ["{"]\n'),
    (load_ranges, 'r: 1..2\ns: "{0}..{1}"\n'),
]


def main() -> int:
    if not yatiml.__file__.startswith('/tmp/w5_C08/'):
        print('FAIL: yatiml imported from {}, not from the worktree'.format(
            yatiml.__file__))
        return 1

    failures = []
    for load, text in CASES:
        try:
            load(text)
            outcome = 'returned'
        except (yatiml.RecognitionError, yaml.YAMLError) as e:
            outcome = type(e).__name__
        except BaseException as e:     # noqa
            outcome = type(e).__name__
            failures.append((text, '{}: {}'.format(
                type(e).__name__, str(e).splitlines()[0][:70] if str(e)
                else '')))
        if '-v' in sys.argv:
            print('  {:<18} {!r}'.format(outcome, text))

    if failures:
        print('FAIL: {} of {} inputs let a forbidden exception escape:'.format(
            len(failures), len(CASES)))
        for text, what in failures:
            print('  {!r} -> {}'.format(text, what))
        return 1
    print('PASS: {} inputs, each returned or raised RecognitionError or a'
          ' YAMLError'.format(len(CASES)))
    return 0


if __name__ == '__main__':
    sys.exit(main())
