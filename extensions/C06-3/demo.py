import enum
import io
import sys
import tempfile
from collections import OrderedDict, UserString
from pathlib import Path

import yaml
import yatiml

FAILURES = []


def fail(label, msg):
    FAILURES.append((label, msg))
    print('  FAIL [{}]: {}'.format(label, msg))


def explicit_tags(text):
    """Explicit tags in the text, found by PyYAML's scanner."""
    return [t.value for t in yaml.scan(text)
            if isinstance(t, yaml.TagToken)]


def ordered(value):
    """Order-sensitive form of a plain parsed document."""
    if isinstance(value, dict):
        return ('map', [(ordered(k), ordered(v)) for k, v in value.items()])
    if isinstance(value, (list, tuple)):
        return ('seq', [ordered(v) for v in value])
    return (type(value).__name__, value)


def freeze(obj, seen=None):
    """Deep snapshot of an object graph (types, attributes, order)."""
    if seen is None:
        seen = {}
    if id(obj) in seen:
        return ('ref', seen[id(obj)])
    if isinstance(obj, (str, int, float, bool, type(None), bytes)):
        return (type(obj).__name__, obj)
    if isinstance(obj, enum.Enum):
        return ('enum', type(obj).__name__, obj.name)
    if isinstance(obj, Path):
        return ('path', type(obj).__name__, str(obj))
    seen[id(obj)] = len(seen)
    if isinstance(obj, dict):
        return (type(obj).__name__,
                [(freeze(k, seen), freeze(v, seen)) for k, v in obj.items()])
    if isinstance(obj, (list, tuple)):
        return (type(obj).__name__, [freeze(v, seen) for v in obj])
    if isinstance(obj, UserString):
        return ('userstring', type(obj).__name__, obj.data,
                sorted(k for k in vars(obj) if k != 'data'))
    return ('object', type(obj).__name__,
            [(k, freeze(v, seen)) for k, v in vars(obj).items()])


def check_dump(label, dumps, obj, expected, repeats=3, may_refuse=False):
    """Checks the statement of C06 for one dump function and object.

    dumps: callable object -> text
    expected: the projection, as plain dicts/lists/scalars (order matters)
    may_refuse: a RuntimeError instead of a text is acceptable (C06 is
            about the text that is produced, if any)
    """
    before = freeze(obj)
    try:
        texts = [dumps(obj) for _ in range(repeats)]
    except Exception as e:      # noqa
        if may_refuse and type(e) is RuntimeError:
            print('  note [{}]: refused with RuntimeError: {}'.format(
                label, e))
            if freeze(obj) != before:
                fail(label, 'object graph was modified by refused dump')
        else:
            fail(label, 'dump raised {}: {}'.format(type(e).__name__, e))
        return
    after = freeze(obj)

    if before != after:
        fail(label, 'object graph was modified by dumping')
    for i, text in enumerate(texts[1:], 2):
        if text != texts[0]:
            fail(label, 'dump #{} differs from dump #1: {!r} versus {!r}'
                 .format(i, texts[0], text))
            break
    for i, text in enumerate(texts, 1):
        if i > 1 and text == texts[0]:
            continue
        try:
            docs = list(yaml.safe_load_all(text))
            tags = explicit_tags(text)
        except yaml.YAMLError as e:
            fail(label, 'dump #{} is not well-formed YAML: {!r}: {}'.format(
                i, text, str(e).replace('\n', ' ')))
            continue
        if len(docs) != 1:
            fail(label, 'dump #{} has {} documents'.format(i, len(docs)))
            continue
        if tags:
            fail(label, 'dump #{} has explicit tags {}'.format(i, tags))
        if ordered(docs[0]) != ordered(expected):
            fail(label, 'dump #{} is not the projection:\n   text     {!r}\n'
                 '   parsed   {!r}\n   expected {!r}'.format(
                     i, text, docs[0], expected))


def to_file(dump):
    """Makes a text-returning function of a dump-to-sink function."""
    def dumps(obj):
        with tempfile.TemporaryDirectory() as d:
            target = Path(d) / 'out.yaml'
            dump(obj, target)
            by_path = target.read_text()
            dump(obj, str(target))
            by_name = target.read_text()
            stream = io.StringIO()
            dump(obj, stream)
            if not (by_path == by_name == stream.getvalue()):
                raise RuntimeError('sinks disagree: {!r} {!r} {!r}'.format(
                    by_path, by_name, stream.getvalue()))
            return by_path
    return dumps


def finish():
    if FAILURES:
        print('FAIL: {} check(s) failed: {}'.format(
            len(FAILURES), sorted(set(label for label, _ in FAILURES))))
        sys.exit(1)
    print('PASS')
    sys.exit(0)


# ---------------------------------------------------------------- inputs

class Address:
    def __init__(self, street, city):
        self.street = street
        self.city = city


class Person:
    def __init__(self, name, home, work, tags):
        self.name = name
        self.home = home
        self.work = work
        self.tags = tags


class Team:
    def __init__(self, lead, members, _yatiml_extra):
        self.lead = lead
        self.members = members
        self._yatiml_extra = _yatiml_extra

    @classmethod
    def _yatiml_sweeten(cls, node):
        node.rename_attribute('lead', 'team_lead')


class Colour(enum.Enum):
    red = 1
    blue = 2


class Label(UserString):
    pass


CLASSES = (Address, Person, Team, Colour, Label)


def inputs():
    """(label, object, projection, has shared objects)"""
    result = []

    # nothing shared
    addr = Address('Main St', 'Town')
    result.append((
        'plain', Person('p', addr, Address('Side St', 'City'), ['x']),
        {'name': 'p', 'home': {'street': 'Main St', 'city': 'Town'},
         'work': {'street': 'Side St', 'city': 'City'}, 'tags': ['x']},
        False))
    result.append((
        'builtin', {'b': [3, 1], 'a': {'y': None, 'x': 1.5}, 'c': []},
        {'b': [3, 1], 'a': {'y': None, 'x': 1.5}, 'c': []}, False))
    result.append((
        'enum-twice', [Colour.blue, Colour.blue], ['blue', 'blue'], False))

    # shared scalars
    where = Path('/data/in')
    label = Label('lbl')
    result.append((
        'shared-path', {'src': where, 'dst': where, 'l': [label, label]},
        {'src': '/data/in', 'dst': '/data/in', 'l': ['lbl', 'lbl']}, True))

    # a shared collection
    tags = ['t1', 't2']
    result.append((
        'shared-list', {'one': tags, 'two': tags, 'n': 1},
        {'one': ['t1', 't2'], 'two': ['t1', 't2'], 'n': 1}, True))

    # a shared object
    addr_p = {'street': 'Main St', 'city': 'Town'}
    result.append((
        'shared-object', Person('q', addr, addr, []),
        {'name': 'q', 'home': addr_p, 'work': addr_p, 'tags': []}, True))

    # shared objects that hold shared objects
    alice = Person('alice', addr, addr, tags)
    bob = Person('bob', addr, Address('Quay', 'Port'), tags)
    alice_p = {'name': 'alice', 'home': addr_p, 'work': addr_p,
               'tags': ['t1', 't2']}
    bob_p = {'name': 'bob', 'home': addr_p,
             'work': {'street': 'Quay', 'city': 'Port'},
             'tags': ['t1', 't2']}
    team = Team(alice, [alice, bob], OrderedDict([('office', addr)]))
    result.append((
        'team', team,
        {'team_lead': alice_p, 'members': [alice_p, bob_p],
         'office': addr_p}, True))

    inner = [1, 2]
    outer = {'inner': inner, 'n': 3}
    outer_p = {'inner': [1, 2], 'n': 3}
    result.append((
        'nested-shared-dicts', {'a': outer, 'b': outer, 'c': inner},
        {'a': outer_p, 'b': outer_p, 'c': [1, 2]}, True))
    result.append((
        'nested-shared-inner-first', [inner, outer, outer, inner],
        [[1, 2], outer_p, outer_p, [1, 2]], True))
    deep = {'k': [[inner, inner], {'o': outer}]}
    result.append((
        'nested-shared-deep', [deep, deep, outer],
        [{'k': [[[1, 2], [1, 2]], {'o': outer_p}]},
         {'k': [[[1, 2], [1, 2]], {'o': outer_p}]}, outer_p], True))
    return result


def main():
    print('yatiml from', yatiml.__file__)
    dumps_json = yatiml.dumps_json_function(*CLASSES)
    dump_json = yatiml.dump_json_function(*CLASSES)

    def indented(obj):
        return dumps_json(obj, indent=2)

    def indented_file(obj):
        stream = io.StringIO()
        dump_json(obj, stream, indent=4)
        return stream.getvalue()

    functions = [
        ('dumps', yatiml.dumps_function(*CLASSES), False),
        ('dump', to_file(yatiml.dump_function(*CLASSES)), False),
        ('dumps_json', dumps_json, True),
        ('dumps_json-indent', indented, True),
        ('dump_json', to_file(dump_json), True),
        ('dump_json-indent', indented_file, True),
        ]
    for fname, function, is_json in functions:
        for label, obj, expected, shared in inputs():
            # JSON has no aliases; up to now the JSON dump functions
            # refused objects that occur more than once
            check_dump('{}:{}'.format(fname, label), function, obj, expected,
                       may_refuse=(is_json and shared))

    # recursive structures cannot be written as JSON at all
    loop = [1]
    loop.append(loop)
    try:
        text = dumps_json(loop)
        fail('dumps_json:recursive', 'produced {!r}'.format(text))
    except RuntimeError as e:
        print('  note [dumps_json:recursive]: refused with RuntimeError:', e)
    finish()


if __name__ == '__main__':
    main()
