#!/usr/bin/env python
"""C03 demo, pair 1: class hierarchy caches and failing fast on node kind.

Checks the statement of C03 on concrete inputs: a polymorphic position
resolves to the single most-derived registered concrete class that
matches, abstract and unregistered classes are never used, ambiguity
and bad tags are errors, and the outcome does not depend on the order
of registration.

The input that exposes the slip: a hierarchy Quantity <- Length <-
ShortLength in which only the most derived class accepts a string
short-hand (via _yatiml_recognize). A string where a Quantity is
expected is a ShortLength, and where Union[Quantity, str] is expected
it is ambiguous.

Exit 0 and print PASS if all checks hold, exit 1 and print FAIL with
the failed checks otherwise.
"""
from abc import ABC
import itertools
import sys
from typing import Any, Callable, List, Optional, Union

import yatiml


print('yatiml from {}'.format(yatiml.__file__))
failures = []   # type: List[str]


def outcome(fn: Callable[[], Any]) -> str:
    """Run a load, describe what came out."""
    try:
        obj = fn()
    except yatiml.RecognitionError:
        return 'RecognitionError'
    except Exception as e:     # anything else is not an acceptable outcome
        return 'CRASH {}: {}'.format(type(e).__name__, e)
    return type(obj).__name__


def check(label: str, got: str, expected: str) -> None:
    if got != expected:
        failures.append('{}: expected {}, got {}'.format(
            label, expected, got))


class Base:
    def __init__(self, x: int) -> None:
        self.x = x


class Mid(Base):
    def __init__(self, x: int, m: int = 0) -> None:
        self.x = x
        self.m = m


class Leaf(Mid):
    def __init__(self, x: int, m: int = 0, y: int = 0) -> None:
        self.x = x
        self.m = m
        self.y = y


class Twin(Base):
    """Matches whatever Mid matches."""
    def __init__(self, x: int, m: int = 0) -> None:
        self.x = x
        self.m = m


class Stranger:
    def __init__(self, x: int) -> None:
        self.x = x


class Plan(ABC):
    def __init__(self, name: str) -> None:
        self.name = name


class Detailed(Plan):
    def __init__(self, name: str, steps: int) -> None:
        self.name = name
        self.steps = steps


# --- the property on the ordinary API ---------------------------------

for perm in itertools.permutations([Base, Mid, Leaf]):
    names = ','.join(c.__name__ for c in perm)
    # the document type is Base, the order of registration varies
    load = yatiml.load_function(Union[Base], *perm)     # type: ignore
    check('most derived [{}]'.format(names),
          outcome(lambda: load('x: 1')), 'Leaf')
    check('tag names a base [{}]'.format(names),
          outcome(lambda: load('!Mid {x: 1}')), 'Mid')
    check('unknown tag [{}]'.format(names),
          outcome(lambda: load('!Nope {x: 1}')), 'RecognitionError')

check('unregistered subclass is not considered',
      outcome(lambda: yatiml.load_function(Base)('x: 1')), 'Base')
check('unregistered subclass is not considered (2)',
      outcome(lambda: yatiml.load_function(Base, Mid)('x: 1')), 'Mid')

for perm in itertools.permutations([Mid, Twin]):
    names = ','.join(c.__name__ for c in perm)
    load = yatiml.load_function(Base, *perm)
    check('ambiguous [{}]'.format(names),
          outcome(lambda: load('x: 1')), 'RecognitionError')
    check('ambiguous, tagged [{}]'.format(names),
          outcome(lambda: load('!Twin {x: 1}')), 'Twin')
    load = yatiml.load_function(Base, Stranger, *perm)
    check('incompatible tag [{}]'.format(names),
          outcome(lambda: load('!Stranger {x: 1}')), 'RecognitionError')

load = yatiml.load_function(Plan, Detailed)     # type: ignore
check('abstract never instantiated',
      outcome(lambda: load('name: a')), 'RecognitionError')
check('concrete subclass of abstract',
      outcome(lambda: load('{name: a, steps: 3}')), 'Detailed')

for members in itertools.permutations([Base, Stranger, int]):
    load = yatiml.load_function(    # type: ignore
            Union[members], Base, Mid, Stranger)        # type: ignore
    check('union ambiguity {}'.format(members),
          outcome(lambda: load('x: 1')), 'RecognitionError')
    check('union tagged {}'.format(members),
          outcome(lambda: load('!Stranger {x: 1}')), 'Stranger')
    check('union scalar {}'.format(members),
          outcome(lambda: load('12')), 'int')

load = yatiml.load_function(Optional[Base], Base, Mid)  # type: ignore
check('optional, null', outcome(lambda: load('~')), 'NoneType')
check('optional, object', outcome(lambda: load('x: 1')), 'Mid')


# --- a hierarchy in which only a grandchild takes a short-hand --------

class Quantity:
    def __init__(self, value: float, unit: str) -> None:
        self.value = value
        self.unit = unit


class Length(Quantity):
    def __init__(self, value: float, unit: str = 'm') -> None:
        super().__init__(value, unit)


class ShortLength(Length):
    """A length that can be written as a string, e.g. '3.0 mm'."""
    def __init__(self, value: float, unit: str = 'm') -> None:
        super().__init__(value, unit)

    @classmethod
    def _yatiml_recognize(cls, node: yatiml.UnknownNode) -> None:
        node.require_scalar(str)

    @classmethod
    def _yatiml_savorize(cls, node: yatiml.Node) -> None:
        value, unit = str(node.get_value()).split()
        node.make_mapping()
        node.set_attribute('value', float(value))
        node.set_attribute('unit', unit)


class Gauge:
    def __init__(self, size: Quantity) -> None:
        self.size = size


for perm in itertools.permutations([Quantity, Length, ShortLength]):
    names = ','.join(c.__name__ for c in perm)
    load = yatiml.load_function(Union[Quantity], *perm)     # type: ignore
    check('mapping resolves to the most derived match [{}]'.format(names),
          outcome(lambda: load('{value: 3.0, unit: mm}')), 'Length')
    check('short-hand resolves to the only class that takes it'
          ' [{}]'.format(names),
          outcome(lambda: load('3.0 mm')), 'ShortLength')
    check('a list matches nothing [{}]'.format(names),
          outcome(lambda: load('[3.0, mm]')), 'RecognitionError')

    load = yatiml.load_function(Gauge, *perm)
    check('short-hand in an attribute [{}]'.format(names),
          outcome(lambda: load('size: 3.0 mm').size), 'ShortLength')

    for members in itertools.permutations([Quantity, str]):
        load = yatiml.load_function(    # type: ignore
                Union[members], *perm)  # type: ignore
        check('string that is also a short-hand is ambiguous {}'
              ' [{}]'.format(members, names),
              outcome(lambda: load('3.0 mm')), 'RecognitionError')
        check('mapping in a union with str {} [{}]'.format(members, names),
              outcome(lambda: load('{value: 3.0, unit: mm}')), 'Length')

# one level less, the short-hand class is a direct subclass
load = yatiml.load_function(Length, ShortLength)
check('short-hand, direct subclass', outcome(lambda: load('3.0 mm')),
      'ShortLength')


if failures:
    print('FAIL')
    for f in failures:
        print('  ' + f)
    sys.exit(1)
print('PASS')
sys.exit(0)
