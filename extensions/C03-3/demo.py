#!/usr/bin/env python
"""C03 demo, pair 3: RecResult becomes a NamedTuple with helper properties.

Checks the statement of C03 on concrete inputs: a polymorphic position
resolves to the single most-derived registered concrete class that
matches, abstract and unregistered classes are never used, ambiguity
and bad tags are errors, and the outcome does not depend on the order
of registration.

The input that exposes the slip: Union[Base, Stranger] where the node
matches Stranger and also two unrelated subclasses of Base (Mid and
Twin). Three candidates remain, so the load has to fail unless a tag
names one of them; it must not settle on Stranger because the Base
member of the union could not make up its mind.

Exit 0 and print PASS if all checks hold, exit 1 and print FAIL with
the failed checks otherwise.
"""
from abc import ABC
import itertools
import sys
from typing import Any, Callable, Dict, List, Optional, Union

import yatiml


print('yatiml from {}'.format(yatiml.__file__))
failures = []   # type: List[str]


def outcome(fn: Callable[[], Any]) -> str:
    """Run a load, describe what came out."""
    try:
        obj = fn()
    except yatiml.RecognitionError:
        return 'RecognitionError'
    except Exception as e:     # anything else is not an acceptable outcome
        return 'CRASH {}: {}'.format(type(e).__name__, e)
    return type(obj).__name__


def check(label: str, got: str, expected: str) -> None:
    if got != expected:
        failures.append('{}: expected {}, got {}'.format(
            label, expected, got))


class Base:
    def __init__(self, x: int) -> None:
        self.x = x


class Mid(Base):
    def __init__(self, x: int, m: int = 0) -> None:
        self.x = x
        self.m = m


class Leaf(Mid):
    def __init__(self, x: int, m: int = 0, y: int = 0) -> None:
        self.x = x
        self.m = m
        self.y = y


class Twin(Base):
    """Matches whatever Mid matches."""
    def __init__(self, x: int, m: int = 0) -> None:
        self.x = x
        self.m = m


class Stranger:
    def __init__(self, x: int) -> None:
        self.x = x


class Plan(ABC):
    def __init__(self, name: str) -> None:
        self.name = name


class Detailed(Plan):
    def __init__(self, name: str, steps: int) -> None:
        self.name = name
        self.steps = steps


# --- the property on the ordinary API ---------------------------------

for perm in itertools.permutations([Base, Mid, Leaf]):
    names = ','.join(c.__name__ for c in perm)
    # the document type is Base, the order of registration varies
    load = yatiml.load_function(Union[Base], *perm)     # type: ignore
    check('most derived [{}]'.format(names),
          outcome(lambda: load('x: 1')), 'Leaf')
    check('tag names a base [{}]'.format(names),
          outcome(lambda: load('!Mid {x: 1}')), 'Mid')
    check('unknown tag [{}]'.format(names),
          outcome(lambda: load('!Nope {x: 1}')), 'RecognitionError')

check('unregistered subclass is not considered',
      outcome(lambda: yatiml.load_function(Base)('x: 1')), 'Base')
check('unregistered subclass is not considered (2)',
      outcome(lambda: yatiml.load_function(Base, Mid)('x: 1')), 'Mid')

for perm in itertools.permutations([Mid, Twin]):
    names = ','.join(c.__name__ for c in perm)
    load = yatiml.load_function(Base, *perm)
    check('ambiguous [{}]'.format(names),
          outcome(lambda: load('x: 1')), 'RecognitionError')
    check('ambiguous, tagged [{}]'.format(names),
          outcome(lambda: load('!Twin {x: 1}')), 'Twin')
    load = yatiml.load_function(Base, Stranger, *perm)
    check('incompatible tag [{}]'.format(names),
          outcome(lambda: load('!Stranger {x: 1}')), 'RecognitionError')

load = yatiml.load_function(Plan, Detailed)     # type: ignore
check('abstract never instantiated',
      outcome(lambda: load('name: a')), 'RecognitionError')
check('concrete subclass of abstract',
      outcome(lambda: load('{name: a, steps: 3}')), 'Detailed')

for members in itertools.permutations([Base, Stranger, int]):
    load = yatiml.load_function(    # type: ignore
            Union[members], Base, Mid, Stranger)        # type: ignore
    check('union ambiguity {}'.format(members),
          outcome(lambda: load('x: 1')), 'RecognitionError')
    check('union tagged {}'.format(members),
          outcome(lambda: load('!Stranger {x: 1}')), 'Stranger')
    check('union scalar {}'.format(members),
          outcome(lambda: load('12')), 'int')

load = yatiml.load_function(Optional[Base], Base, Mid)  # type: ignore
check('optional, null', outcome(lambda: load('~')), 'NoneType')
check('optional, object', outcome(lambda: load('x: 1')), 'Mid')


# --- a union one of whose members is ambiguous in itself ----------------

class Crate:
    def __init__(
            self, item: Union[Base, Stranger],
            spare: Optional[Union[Stranger, Base]] = None) -> None:
        self.item = item
        self.spare = spare


for perm in itertools.permutations([Base, Mid, Twin, Stranger]):
    names = ','.join(c.__name__ for c in perm)
    for members in itertools.permutations([Base, Stranger]):
        label = '{} [{}]'.format([c.__name__ for c in members], names)
        load = yatiml.load_function(    # type: ignore
                Union[members], *perm)  # type: ignore
        check('three candidates remain ' + label,
              outcome(lambda: load('x: 1')), 'RecognitionError')
        for cls in (Mid, Twin, Stranger, Base):
            check('a tag settles it, {} {}'.format(cls.__name__, label),
                  outcome(lambda: load('!{} {{x: 1}}'.format(cls.__name__))),
                  cls.__name__)
        check('unknown tag ' + label,
              outcome(lambda: load('!Nope {x: 1}')), 'RecognitionError')

        load = yatiml.load_function(    # type: ignore
                List[Union[members]], *perm)    # type: ignore
        check('in a list ' + label,
              outcome(lambda: load('[{x: 1}]')[0]), 'RecognitionError')
        check('in a list, tagged ' + label,
              outcome(lambda: load('[!Twin {x: 1}, !Stranger {x: 2}]')[1]),
              'Stranger')

        load = yatiml.load_function(    # type: ignore
                Dict[str, Union[members]], *perm)   # type: ignore
        check('in a dict ' + label,
              outcome(lambda: load('a: {x: 1}')['a']), 'RecognitionError')

        load = yatiml.load_function(    # type: ignore
                Optional[Union[members]], *perm)    # type: ignore
        check('optional ' + label,
              outcome(lambda: load('x: 1')), 'RecognitionError')
        check('optional, null ' + label,
              outcome(lambda: load('null')), 'NoneType')

    load = yatiml.load_function(Crate, *perm)
    check('in an attribute [{}]'.format(names),
          outcome(lambda: load('item: {x: 1}').item), 'RecognitionError')
    check('in an optional attribute [{}]'.format(names),
          outcome(lambda: load(
              '{item: !Mid {x: 1}, spare: {x: 1}}').spare),
          'RecognitionError')
    check('in an attribute, tagged [{}]'.format(names),
          outcome(lambda: load('item: !Mid {x: 1}').item), 'Mid')

# the ambiguous member next to members that do not match at all
for members in itertools.permutations([Base, int, str]):
    load = yatiml.load_function(    # type: ignore
            Union[members], Base, Mid, Twin)    # type: ignore
    check('ambiguous member, others fail {}'.format(members),
          outcome(lambda: load('x: 1')), 'RecognitionError')
    check('ambiguous member, others fail, tagged {}'.format(members),
          outcome(lambda: load('!Mid {x: 1}')), 'Mid')
    check('scalar member {}'.format(members),
          outcome(lambda: load('x')), 'str')


if failures:
    print('FAIL')
    for f in failures:
        print('  ' + f)
    sys.exit(1)
print('PASS')
sys.exit(0)
