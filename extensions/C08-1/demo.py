#!/usr/bin/env python3
"""C08 demo, pair 1: cycles are detected while the document is composed.

Property checked: for input text of bounded nesting, a load function
either returns, or raises yatiml.RecognitionError or yaml.YAMLError.
Nothing else (KeyError, ValueError, TypeError, AttributeError, IndexError,
SeasoningError, RecursionError, ...) may escape.

Run as
    cd /tmp/w5_C08 && PYTHONPATH=/tmp/w5_C08 /venv/bin/python demo.py
Prints PASS and exits 0 if the property held on every input below, prints
FAIL with the offending inputs and exits 1 otherwise. With -v, the outcome
for every input is shown.
"""
import enum
import sys
from collections import UserString
from typing import Any, Dict, List, Optional, Union

import yaml
import yatiml


class Colour(enum.Enum):
    red = 1
    green = 2


class Name(UserString):
    def __init__(self, seq: Any) -> None:
        super().__init__(seq)
        if not str(seq).isalpha():
            raise ValueError('Not a valid name: {}'.format(seq))


class Inner:
    def __init__(self, a: int, b: str = 'x') -> None:
        if a < 0:
            raise ValueError('a must not be negative')
        self.a = a
        self.b = b


class Extra:
    def __init__(self, a: int, _yatiml_extra: Dict[str, Any]) -> None:
        self.a = a
        self.extra = _yatiml_extra


class Tree:
    """A recursive type, so that recognition follows a cycle all the way."""
    def __init__(self, label: str,
                 children: Optional[List['Tree']] = None) -> None:
        self.label = label
        self.children = children


Tree.__init__.__annotations__['children'] = Optional[List[Tree]]


class Doc:
    def __init__(
            self, name: Name, colour: Colour, inner: Inner,
            items: Optional[List[Inner]] = None,
            table: Optional[Dict[str, Inner]] = None,
            extra: Optional[Extra] = None,
            tree: Optional[Tree] = None,
            anything: Any = None) -> None:
        self.name = name


load_doc = yatiml.load_function(Doc, Name, Colour, Inner, Extra, Tree)
load_any = yatiml.load_function()
load_list = yatiml.load_function(List[Any])     # type: ignore
load_dict = yatiml.load_function(Dict[str, Any])     # type: ignore
load_tree = yatiml.load_function(Tree)

BASE = 'name: abc\ncolour: red\ninner: {a: 1}\n'

CASES = [
    # --- ordinary good and bad input ------------------------------------
    (load_doc, BASE),
    (load_doc, ''),
    (load_doc, 'name: [unclosed'),
    (load_doc, BASE + 'items: 12\n'),
    (load_doc, BASE.replace('abc', 'a1')),          # string-like raises
    (load_doc, BASE.replace('a: 1', 'a: -1')),      # constructor raises
    (load_doc, BASE.replace('red', 'blue')),
    (load_doc, BASE + 'table: {k: {a: 1}, k: {a: 2}}\n'),   # duplicate key
    (load_doc, BASE + 'extra: {a: 1, [1, 2]: 3}\n'),       # non-scalar key
    (load_doc, BASE + 'anything: {[1, 2]: 3}\n'),
    (load_dict, '{a: 1, a: 2}'),
    (load_dict, '{[a]: 1}'),
    # --- anchors and aliases that are fine ------------------------------
    (load_any, 'a: &x [1, 2]\nb: *x\nc: [*x, *x]\n'),
    (load_any, 'a: &x 1\nb: *x\n'),
    (load_doc, BASE + 'items: [&i {a: 2}, *i]\n'),
    (load_doc, BASE + 'extra: {a: 1, p: &p {q: 1}, r: *p}\n'),
    # --- aliases PyYAML rejects ------------------------------------------
    (load_any, 'a: *nowhere\n'),
    (load_doc, BASE + 'items: *nowhere\n'),
    (load_any, 'a: &x 1\nb: &x 2\n'),
    # --- an alias inside the node it refers to -------------------------
    (load_any, '&x [*x]'),
    (load_any, '&x [1, [2, *x]]'),
    (load_any, '&x {a: *x}'),
    (load_any, '&x {a: {b: *x}}'),
    (load_any, '&x {*x : 1}'),
    (load_any, 'top: &x [1, 2, *x]\n'),
    (load_any, 'top: {deep: &x {k: [*x]}}\n'),
    (load_list, '&x [*x]'),
    (load_list, '- &y [a, *y]\n'),
    (load_dict, '&x {a: *x}'),
    (load_dict, 'a: &x {b: *x}\n'),
    (load_tree, '&t {label: a, children: [*t]}'),
    (load_tree, 'label: a\nchildren: &c [{label: b, children: *c}]\n'),
    (load_doc, BASE + 'anything: &x [*x]\n'),
    (load_doc, BASE + 'anything: &x {k: *x}\n'),
    (load_doc, BASE + 'extra: &x {a: 1, z: *x}\n'),
    (load_doc, BASE + 'extra: {a: 1, z: &x [*x]}\n'),
    (load_doc, BASE + 'extra: {a: 1, z: &x {*x : 1}}\n'),
    (load_doc, BASE + 'tree: &t {label: a, children: [*t]}\n'),
    (load_doc, BASE + 'items: &x [*x]\n'),
    (load_doc, BASE + 'table: &x {a: {a: 1, b: *x}}\n'),
]


def main() -> int:
    if not yatiml.__file__.startswith('/tmp/w5_C08/'):
        print('FAIL: yatiml imported from {}, not from the worktree'.format(
            yatiml.__file__))
        return 1

    failures = []
    for load, text in CASES:
        try:
            load(text)
            outcome = 'returned'
        except (yatiml.RecognitionError, yaml.YAMLError) as e:
            outcome = type(e).__name__
        except BaseException as e:     # noqa
            outcome = type(e).__name__
            failures.append((text, '{}: {}'.format(
                type(e).__name__, str(e).splitlines()[0][:70] if str(e)
                else '')))
        if '-v' in sys.argv:
            print('  {:<18} {!r}'.format(outcome, text))

    if failures:
        print('FAIL: {} of {} inputs let a forbidden exception escape:'.format(
            len(failures), len(CASES)))
        for text, what in failures:
            print('  {!r} -> {}'.format(text, what))
        return 1
    print('PASS: {} inputs, each returned or raised RecognitionError or a'
          ' YAMLError'.format(len(CASES)))
    return 0


if __name__ == '__main__':
    sys.exit(main())
