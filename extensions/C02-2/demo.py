"""Demonstration for pair 2 (Loader: failures inside _yatiml_savorize()).

Checks property C02 on concrete inputs: classes are recognised by presence
and type of their required constructor parameters, a dashed key standing in
for an underscored one; the node is then savourised (base classes first,
then the class itself), after which every class mapping must have only
string keys, no missing required and no unknown attributes; the result
equals the value obtained by calling the constructors bottom-up.

Run as
  cd /tmp/w5_C02 && PYTHONPATH=/tmp/w5_C02 /venv/bin/python demo.py
"""
import sys
from typing import Any, List, Optional

import yatiml

print('yatiml imported from', yatiml.__file__)


class Rec:
    """Value semantics for the test classes."""
    def __eq__(self, other: Any) -> bool:
        return type(self) is type(other) and self.__dict__ == other.__dict__

    def __repr__(self) -> str:
        return '{}({})'.format(type(self).__name__, ', '.join(
            '{}={!r}'.format(k, v) for k, v in self.__dict__.items()))


class Step(Rec):
    """Base class, which has the sugar: dashed keys are allowed."""
    def __init__(self, step_name: str, time_out: int = 60) -> None:
        self.step_name = step_name
        self.time_out = time_out

    @classmethod
    def _yatiml_savorize(cls, node: yatiml.Node) -> None:
        node.dashes_to_unders_in_keys()


class Shell(Step):
    """Derived class without a _yatiml_savorize() of its own."""
    def __init__(
            self, step_name: str, command_line: str, time_out: int = 60
            ) -> None:
        super().__init__(step_name, time_out)
        self.command_line = command_line


class Remote(Shell):
    """Two levels below the class that has the sugar."""
    def __init__(
            self, step_name: str, command_line: str, host_name: str,
            time_out: int = 60) -> None:
        super().__init__(step_name, command_line, time_out)
        self.host_name = host_name


class Copy(Step):
    """Derived class with sugar of its own, which relies on the base's.

    If no time-out is given in the document, it is 30 rather than 60.
    """
    def __init__(self, step_name: str, source_path: str,
                 time_out: int = 60) -> None:
        super().__init__(step_name, time_out)
        self.source_path = source_path

    @classmethod
    def _yatiml_savorize(cls, node: yatiml.Node) -> None:
        # Step._yatiml_savorize() has run, so the keys have underscores
        if not node.has_attribute('time_out'):
            node.set_attribute('time_out', 30)


class Job(Rec):
    def __init__(self, steps: List[Step], on_error: Optional[Step] = None
                 ) -> None:
        self.steps = steps
        self.on_error = on_error


class Picky(Rec):
    """Its _yatiml_savorize() gives up on some documents."""
    def __init__(self, a: int) -> None:
        self.a = a

    @classmethod
    def _yatiml_savorize(cls, node: yatiml.Node) -> None:
        if node.get_attribute('a').get_value() == 13:
            raise yatiml.SeasoningError('Thirteen is not allowed')


class PickyChild(Picky):
    def __init__(self, a: int, b: int) -> None:
        super().__init__(a)
        self.b = b


failures = []   # type: List[str]


def check(name: str, load: Any, text: str, expected: Any) -> None:
    try:
        got = load(text)
    except yatiml.RecognitionError as e:
        if expected is yatiml.RecognitionError:
            return
        failures.append(
                '{}: expected {!r} but RecognitionError was raised: {}'.format(
                    name, expected, str(e).splitlines()[-1]))
        return
    except Exception as e:
        failures.append('{}: {} escaped: {}'.format(
            name, type(e).__name__, e))
        return
    if expected is yatiml.RecognitionError:
        failures.append(
                '{}: expected RecognitionError but got {!r}'.format(name, got))
    elif got != expected:
        failures.append('{}: expected {!r} but got {!r}'.format(
            name, expected, got))


load_step = yatiml.load_function(Step, Shell, Remote, Copy)
load_job = yatiml.load_function(Job, Step, Shell, Remote, Copy)
load_picky = yatiml.load_function(Picky, PickyChild)

# the class that has the sugar itself
check('base class, underscored keys', load_step,
      'step_name: a\ntime_out: 5\n', Step('a', 5))
check('base class, dashed keys', load_step,
      'step-name: a\ntime-out: 5\n', Step('a', 5))
check('base class, default', load_step,
      'step-name: a\n', Step('a', 60))

# derived classes: the sugar of the base class applies to them too
check('derived class, underscored keys', load_step,
      'step_name: b\ncommand_line: ls\n', Shell('b', 'ls', 60))
check('derived class, dashed keys', load_step,
      'step-name: b\ncommand-line: ls\ntime-out: 1\n', Shell('b', 'ls', 1))
check('derived class, mixed spelling between keys', load_step,
      'step_name: b\ncommand-line: ls\n', Shell('b', 'ls', 60))
check('second-level derived class, dashed keys', load_step,
      'step-name: c\ncommand-line: ls\nhost-name: h\n',
      Remote('c', 'ls', 'h', 60))
check('derived class with sugar of its own', load_step,
      'step-name: d\nsource-path: /tmp\ntime-out: 2\n', Copy('d', '/tmp', 2))
check('derived class with sugar of its own, which applies', load_step,
      'step-name: d\nsource-path: /tmp\n', Copy('d', '/tmp', 30))

# nested in another object
check('objects in a list and an optional attribute', load_job,
      'steps:\n'
      '- step-name: a\n'
      '- {step-name: b, command-line: ls}\n'
      '- {step_name: c, command_line: ls, host_name: h, time_out: 3}\n'
      '- {step-name: d, source-path: /tmp}\n'
      'on_error:\n'
      '  step-name: e\n'
      '  command-line: cleanup\n'
      '  host-name: h2\n',
      Job([Step('a', 60), Shell('b', 'ls', 60), Remote('c', 'ls', 'h', 3),
           Copy('d', '/tmp', 30)],
          Remote('e', 'cleanup', 'h2', 60)))

# documents the pipeline does not admit
check('missing required attribute', load_step,
      'time-out: 5\n', yatiml.RecognitionError)
check('unknown attribute', load_step,
      'step-name: b\ncommand-line: ls\nuser-name: me\n',
      yatiml.RecognitionError)
check('wrong type for optional attribute', load_step,
      'step-name: b\ncommand-line: ls\ntime-out: soon\n',
      yatiml.RecognitionError)
check('non-string key', load_step,
      'step-name: b\n2: ls\n', yatiml.RecognitionError)

# a _yatiml_savorize() that gives up means the document is not admitted
check('savorize accepts', load_picky, 'a: 1\n', Picky(1))
check('savorize accepts for derived class', load_picky,
      'a: 1\nb: 2\n', PickyChild(1, 2))
check('savorize gives up', load_picky, 'a: 13\n', yatiml.RecognitionError)
check('savorize of base class gives up for derived class', load_picky,
      'a: 13\nb: 2\n', yatiml.RecognitionError)

if failures:
    print('FAIL')
    for failure in failures:
        print('  ' + failure)
    sys.exit(1)
print('PASS')
