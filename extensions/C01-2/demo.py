"""C01 demo, pair 2: a loaded value conforms to the declared type.

Loads documents for user-defined classes and checks that every load
either raises or returns an object of the declared class whose
constructor received, for every parameter, an argument conforming to
that parameter's annotation. Keys are written with underscores and with
dashes, classes are recognised automatically and by (permissive)
_yatiml_recognize() functions, which is what the commit under test is
about.
"""
import enum
import inspect
import sys
import typing
from collections import abc
from pathlib import Path
from typing import Any, Dict, List, Optional, Union

import yatiml


def conforms(value: Any, type_: Any) -> bool:
    """Strict structural check of value against the declared type."""
    if type_ is Any:
        return True
    origin = getattr(type_, '__origin__', None)
    if origin is Union:
        return any(conforms(value, t) for t in type_.__args__)
    if origin in (list, abc.Sequence, abc.MutableSequence):
        return (type(value) is list and
                all(conforms(v, type_.__args__[0]) for v in value))
    if origin in (dict, abc.Mapping, abc.MutableMapping):
        return (isinstance(value, dict) and
                all(conforms(k, type_.__args__[0]) and
                    conforms(v, type_.__args__[1])
                    for k, v in value.items()))
    if type_ in (None, type(None)):
        return value is None
    if type_ in (str, int, float, bool):
        return type(value) is type_
    if type_ is Path:
        return isinstance(value, Path)
    if inspect.isclass(type_) and issubclass(type_, enum.Enum):
        return isinstance(value, type_)
    if inspect.isclass(type_):
        if not isinstance(value, type_):
            return False
        # constructor arguments are recorded by the test classes
        hints = typing.get_type_hints(type(value).__init__)
        return all(
                conforms(value.args[name], t)
                for name, t in hints.items()
                if name != 'return' and name in value.args)
    raise RuntimeError('demo cannot check type {}'.format(type_))


def tname(type_: Any) -> str:
    if inspect.isclass(type_):
        return type_.__name__
    return str(type_).replace('typing.', '').replace('__main__.', '')


def describe(value: Any) -> str:
    if hasattr(value, 'args'):
        return '{}({})'.format(type(value).__name__, ', '.join(
            '{}={}'.format(k, describe(v)) for k, v in value.args.items()))
    if isinstance(value, list):
        return '[{}]'.format(', '.join(map(describe, value)))
    return repr(value)


class Limits:
    """Recognised automatically, from the __init__ signature."""
    def __init__(self, max_size: int, time_out: float = 1.0) -> None:
        self.args = dict(max_size=max_size, time_out=time_out)


class Setting:
    """Recognised by its name only, like many real-world classes."""
    def __init__(
            self, name: str, max_size: int, log_file: Optional[Path] = None,
            dry_run: bool = False) -> None:
        self.args = dict(
                name=name, max_size=max_size, log_file=log_file,
                dry_run=dry_run)

    @classmethod
    def _yatiml_recognize(cls, node: yatiml.UnknownNode) -> None:
        node.require_attribute('name', str)


class Savoury:
    """Does its own renaming, the way it had to be done until now."""
    def __init__(self, max_size: int) -> None:
        self.args = dict(max_size=max_size)

    @classmethod
    def _yatiml_recognize(cls, node: yatiml.UnknownNode) -> None:
        node.require_mapping()

    @classmethod
    def _yatiml_savorize(cls, node: yatiml.Node) -> None:
        node.dashes_to_unders_in_keys()


class Extra:
    def __init__(
            self, name: str, max_size: int = 3,
            _yatiml_extra: Optional[Dict[str, Any]] = None) -> None:
        self.args = dict(name=name, max_size=max_size)


class Config:
    def __init__(
            self, main_setting: Setting,
            other_settings: Optional[List[Setting]] = None) -> None:
        self.args = dict(
                main_setting=main_setting, other_settings=other_settings)


CASES = [
    (Limits, [], 'max_size: 3\n'),
    (Limits, [], 'max_size: 3\ntime_out: 2.5\n'),
    (Limits, [], 'max_size: true\n'),
    (Limits, [], 'max_size: 3\ntime_out: 2\n'),
    (Limits, [], 'max-size: 3\n'),
    (Limits, [], 'max-size: 3\ntime-out: 2.5\n'),
    (Limits, [], 'max-size: true\n'),
    (Limits, [], 'max-size: "3"\n'),
    (Limits, [], 'max-size: 3\ntime-out: 2\n'),
    (Limits, [], 'max-size: 3\nmax_size: 4\n'),
    (Setting, [], 'name: a\nmax_size: 3\n'),
    (Setting, [], 'name: a\nmax_size: true\n'),
    (Setting, [], 'name: a\nmax_size: 3\nlog_file: a.log\ndry_run: true\n'),
    (Setting, [], 'name: a\nmax_size: 3\ndry_run: 1\n'),
    (Setting, [], 'name: a\nmax-size: 3\n'),
    (Setting, [], 'name: a\nmax-size: true\n'),
    (Setting, [], 'name: a\nmax-size: false\ndry-run: true\n'),
    (Setting, [], 'name: a\nmax-size: 3\nlog-file: a.log\ndry-run: true\n'),
    (Setting, [], 'name: a\nmax-size: 3\ndry-run: 1\n'),
    (Setting, [], 'name: a\nmax-size: [1, 2]\n'),
    (Savoury, [], 'max-size: 3\n'),
    (Savoury, [], 'max-size: true\n'),
    (Savoury, [], 'max_size: true\n'),
    (Extra, [], 'name: a\nmax-size: true\n'),
    (Extra, [], 'name: a\nmax_size: true\n'),
    (Extra, [], 'name: a\nmax_size: 4\nmax-size: true\n'),
    (Config, [Setting], 'main_setting:\n  name: a\n  max_size: 3\n'),
    (Config, [Setting], 'main-setting:\n  name: a\n  max-size: 3\n'),
    (Config, [Setting], 'main-setting:\n  name: a\n  max-size: true\n'),
    (Config, [Setting],
        'main-setting: {name: a, max-size: 3}\n'
        'other-settings:\n- {name: b, max-size: 1}\n'
        '- {name: c, max-size: True}\n'),
    (List[Setting], [Setting], '- name: a\n  max-size: 3\n'),
    (List[Setting], [Setting], '- name: a\n  max-size: true\n'),
    (Dict[str, Limits], [Limits], 'x: {max-size: 3}\ny: {max-size: false}\n'),
]


def main() -> int:
    if not yatiml.__file__.startswith('/tmp/w5_C01/'):
        print('FAIL: wrong yatiml imported: {}'.format(yatiml.__file__))
        return 1

    failures = []
    n_values = 0
    for type_, classes, text in CASES:
        load = yatiml.load_function(type_, *classes)
        try:
            value = load(text)
        except Exception:
            continue        # raising an error is always allowed
        n_values += 1
        if not conforms(value, type_):
            failures.append('load_function({})({!r}) returned {}'.format(
                tname(type_), text, describe(value)))

    if failures:
        print('FAIL: {} value(s) do not conform to the declared type'.format(
            len(failures)))
        for f in failures:
            print('  ' + f)
        return 1
    print('PASS ({} cases, {} values checked)'.format(len(CASES), n_values))
    return 0


if __name__ == '__main__':
    sys.exit(main())
