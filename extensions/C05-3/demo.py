"""C05 round trip: load(dumps(value)) is structurally equal to value.

Exposes pair 3 (default-value sweetening compares the YAML way): an
attribute may only be dropped from the YAML if loading without it gives
the same value back. An empty list or dict is not the same as a default
of None, 0, '' or False.
"""
import datetime
import enum
import math
import sys
from collections import UserString
from pathlib import Path
from typing import Any, Dict, List, Optional, Union

import yatiml


def same(a: Any, b: Any, where: str = 'value') -> Optional[str]:
    """Returns None if structurally equal, else a description."""
    if type(a) is not type(b):
        return '{}: class {} became {}'.format(
                where, type(a).__name__, type(b).__name__)
    if isinstance(a, float):
        if math.isnan(a) and math.isnan(b):
            return None
        return None if a == b else '{}: {!r} became {!r}'.format(where, a, b)
    if isinstance(a, dict):
        if list(a.keys()) != list(b.keys()):
            return '{}: keys {} became {}'.format(
                    where, list(a.keys()), list(b.keys()))
        for k in a:
            r = same(a[k], b[k], '{}[{!r}]'.format(where, k))
            if r:
                return r
        return None
    if isinstance(a, list):
        if len(a) != len(b):
            return '{}: length {} became {}'.format(where, len(a), len(b))
        for i, (x, y) in enumerate(zip(a, b)):
            r = same(x, y, '{}[{}]'.format(where, i))
            if r:
                return r
        return None
    if isinstance(a, (UserString, enum.Enum, Path, datetime.date, str, int,
                      bool, type(None))):
        return None if a == b else '{}: {!r} became {!r}'.format(where, a, b)
    return same(vars(a), vars(b), where + '.__dict__')


class Color(enum.Enum):
    RED = 1
    GREEN = 2


class Settings:
    """Every attribute has a default, and defaults are dropped."""
    def __init__(
            self,
            name: str = 'none',
            count: int = 0,
            ratio: float = 1.0,
            flag: bool = False,
            on: bool = True,
            note: Optional[str] = None,
            items: Optional[List[int]] = None,
            table: Optional[Dict[str, int]] = None,
            words: Optional[List[str]] = None,
            color: Color = Color.RED
            ) -> None:
        self.name = name
        self.count = count
        self.ratio = ratio
        self.flag = flag
        self.on = on
        self.note = note
        self.items = items
        self.table = table
        self.words = words
        self.color = color

    @classmethod
    def _yatiml_sweeten(cls, node: yatiml.Node) -> None:
        node.remove_attributes_with_default_values(cls)


class Lists:
    """The pattern from the documentation, with _yatiml_defaults."""
    def __init__(
            self, required: int, values: Optional[List[float]] = None,
            names: Optional[List[str]] = None) -> None:
        self.required = required
        self.values = values if values is not None else list()
        self.names = names

    _yatiml_defaults = {'values': []}   # type: Dict[str, Any]

    @classmethod
    def _yatiml_sweeten(cls, node: yatiml.Node) -> None:
        node.remove_attributes_with_default_values(cls)


class Holder:
    def __init__(
            self, settings: List[Settings], lists: Dict[str, Lists]) -> None:
        self.settings = settings
        self.lists = lists


failures = []   # type: List[str]


def check(label: str, dumps: Any, load: Any, value: Any) -> None:
    try:
        text = dumps(value)
        result = load(text)
    except Exception as e:
        failures.append('{}: {}: {}'.format(
            label, type(e).__name__, str(e).replace('\n', ' | ')))
        return
    diff = same(value, result)
    if diff:
        failures.append('{}: {}\n--- dumped as ---\n{}'.format(
            label, diff, text))


dumps_any = yatiml.dumps_function()
load_any = yatiml.load_function()
for i, v in enumerate([
        '1', '1.5', 'true', 'null', '~', '2020-01-01', 'yes', '- a', 'a: b',
        '', '#x', 'multi\nline', 1, 1.5, True, None, float('inf'),
        float('-inf'), float('nan'), [1, [2, '3']], [], {}, [[], {}],
        {'b': 1, 'a': {'z': [1.0, None], 'y': 'no'}},
        datetime.date(2020, 1, 2), datetime.datetime(2020, 1, 2, 3, 4, 5)]):
    check('builtin #{} {!r}'.format(i, v), dumps_any, load_any, v)

classes = (Holder, Settings, Lists, Color)
dumps = yatiml.dumps_function(*classes)
load_settings = yatiml.load_function(Settings, Color)
load_lists = yatiml.load_function(Lists)
load_holder = yatiml.load_function(*classes)

settings = [
        ('all defaults', Settings()),
        ('nothing default', Settings(
            'x', 3, 2.5, True, False, 'n', [1], {'a': 1}, ['w'],
            Color.GREEN)),
        ('strings that look like defaults', Settings(
            name='0', note='null', words=['None'])),
        ('zero-like numbers', Settings(count=0, ratio=0.0)),
        ('one-like numbers', Settings(count=1, ratio=1.0)),
        ('empty string note', Settings(note='')),
        ('empty list where the default is None', Settings(items=[])),
        ('empty dict where the default is None', Settings(table={})),
        ('empty list of strings where the default is None',
         Settings(words=[])),
        ('all three empty', Settings(items=[], table={}, words=[])),
        ('non-empty containers', Settings(
            items=[0], table={'': 0}, words=[''])),
        ]
for label, value in settings:
    check('Settings, ' + label, dumps, load_settings, value)

lists = [
        ('defaults', Lists(1)),
        ('empty values', Lists(2, [])),
        ('values', Lists(3, [1.5, float('inf')])),
        ('empty names', Lists(4, None, [])),
        ('both empty', Lists(5, [], [])),
        ('names', Lists(6, [], ['a', 'b'])),
        ]
for label, value in lists:
    check('Lists, ' + label, dumps, load_lists, value)

check('everything together', dumps, load_holder, Holder(
    [v for _, v in settings], {label: v for label, v in lists}))

if failures:
    print('FAIL')
    for f in failures:
        print(' *', f)
    sys.exit(1)
print('PASS')
