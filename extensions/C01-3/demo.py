"""C01 demo, pair 3: a loaded value conforms to the declared type.

Loads documents with and without explicit tags for unions of
user-defined classes (and lists, dicts and attributes of those), and
checks that every load either raises or returns an instance of (a
registered subclass of) one of the declared classes, constructed from
conforming arguments.
"""
import inspect
import sys
import typing
from collections import abc
from typing import Any, Dict, List, Optional, Union

import yatiml


def conforms(value: Any, type_: Any) -> bool:
    """Strict structural check of value against the declared type."""
    if type_ is Any:
        return True
    origin = getattr(type_, '__origin__', None)
    if origin is Union:
        return any(conforms(value, t) for t in type_.__args__)
    if origin in (list, abc.Sequence, abc.MutableSequence):
        return (type(value) is list and
                all(conforms(v, type_.__args__[0]) for v in value))
    if origin in (dict, abc.Mapping, abc.MutableMapping):
        return (isinstance(value, dict) and
                all(conforms(k, type_.__args__[0]) and
                    conforms(v, type_.__args__[1])
                    for k, v in value.items()))
    if type_ in (None, type(None)):
        return value is None
    if type_ in (str, int, float, bool):
        return type(value) is type_
    if inspect.isclass(type_):
        if not isinstance(value, type_):
            return False
        # constructor arguments are recorded by the test classes
        hints = typing.get_type_hints(type(value).__init__)
        return all(
                conforms(value.args[name], t)
                for name, t in hints.items()
                if name != 'return' and name in value.args)
    raise RuntimeError('demo cannot check type {}'.format(type_))


def tname(type_: Any) -> str:
    if inspect.isclass(type_):
        return type_.__name__
    return str(type_).replace('typing.', '').replace('__main__.', '')


def describe(value: Any) -> str:
    if hasattr(value, 'args'):
        return '{}({})'.format(type(value).__name__, ', '.join(
            '{}={}'.format(k, describe(v)) for k, v in value.args.items()))
    if isinstance(value, list):
        return '[{}]'.format(', '.join(map(describe, value)))
    if isinstance(value, dict):
        return '{{{}}}'.format(', '.join(
            '{!r}: {}'.format(k, describe(v)) for k, v in value.items()))
    return repr(value)


class Shape:
    def __init__(self, center: str) -> None:
        self.args = dict(center=center)


class Circle(Shape):
    def __init__(self, center: str, radius: float = 1.0) -> None:
        self.args = dict(center=center, radius=radius)


class Square(Shape):
    def __init__(self, center: str, side: float = 1.0) -> None:
        self.args = dict(center=center, side=side)


class Label:
    def __init__(self, text: str) -> None:
        self.args = dict(text=text)


class Drawing:
    def __init__(
            self, items: List[Union[Circle, Label]],
            frame: Union[Square, Label, None] = None) -> None:
        self.args = dict(items=items, frame=frame)


ALL = [Shape, Circle, Square, Label]
CL = Union[Circle, Label]
SL = Union[Shape, Label]

CASES = [
    # no tags
    (CL, ALL, 'center: a'),
    (CL, ALL, 'center: a\nradius: 2.0'),
    (CL, ALL, 'text: hello'),
    (CL, ALL, 'center: a\nside: 2.0'),
    (SL, ALL, 'center: a\nside: 2.0'),
    (SL, ALL, 'center: a'),
    # a tag naming a member of the union, or a subclass of one
    (CL, ALL, '!Circle {center: a}'),
    (CL, ALL, '!Circle {center: 1}'),
    (CL, ALL, '!Label {text: hello}'),
    (CL, ALL, '!Label {center: a}'),
    (SL, ALL, '!Circle {center: a, radius: 2.0}'),
    (SL, ALL, '!Square {center: a}'),
    (SL, ALL, '!Shape {center: a}'),
    (SL, ALL, '!Square {center: a, radius: 2.0}'),
    # a tag naming a class that is not allowed here
    (CL, ALL, '!Square {center: a}'),
    (CL, ALL, '!Shape {center: a}'),
    (CL, ALL, '!Shape {center: a, radius: 2.0}'),
    (Union[Circle, Square], ALL, '!Shape {center: a}'),
    (Union[Circle, int], ALL, '!Shape {center: a}'),
    (Optional[Circle], ALL, '!Shape {center: a}'),
    (Optional[Circle], ALL, '!Circle {center: a}'),
    (Optional[Circle], ALL, ''),
    (CL, ALL, '!Unknown {center: a}'),
    (Union[Circle, Dict[str, str]], ALL, '!Shape {center: a}'),
    (Union[Circle, Dict[str, str]], ALL, '!Circle {center: a}'),
    # the same inside lists, dicts and attributes
    (List[CL], ALL, '[!Circle {center: a}, {text: t}, {center: b}]'),
    (List[CL], ALL, '[!Circle {center: a}, !Shape {center: b}]'),
    (List[CL], ALL, '[!Square {center: a}]'),
    (Dict[str, CL], ALL, '{x: !Label {text: t}, y: !Shape {center: b}}'),
    (Dict[str, Optional[Square]], ALL, '{x: null, y: !Shape {center: b}}'),
    (Drawing, ALL + [Drawing], 'items: [!Circle {center: a}]'),
    (Drawing, ALL + [Drawing], 'items: [!Shape {center: a}]'),
    (Drawing, ALL + [Drawing],
        'items: []\nframe: !Shape {center: a}'),
    (Drawing, ALL + [Drawing],
        'items: []\nframe: !Square {center: a, side: 3.0}'),
]


def main() -> int:
    if not yatiml.__file__.startswith('/tmp/w5_C01/'):
        print('FAIL: wrong yatiml imported: {}'.format(yatiml.__file__))
        return 1

    failures = []
    n_values = 0
    for type_, classes, text in CASES:
        extra = [c for c in classes if c is not type_]
        load = yatiml.load_function(type_, *extra)
        try:
            value = load(text)
        except Exception:
            continue        # raising an error is always allowed
        n_values += 1
        if not conforms(value, type_):
            failures.append('load_function({})({!r}) returned {}'.format(
                tname(type_), text, describe(value)))

    if failures:
        print('FAIL: {} value(s) do not conform to the declared type'.format(
            len(failures)))
        for f in failures:
            print('  ' + f)
        return 1
    print('PASS ({} cases, {} values checked)'.format(len(CASES), n_values))
    return 0


if __name__ == '__main__':
    sys.exit(main())
