#!/usr/bin/env python3
"""C13 demo 1: a load does not depend on the order of the keys of a mapping
that is loaded as a class (plus a few of the other C13 invariances as a
sanity check).

Exits 0 and prints PASS if every variant of a document gives the same
outcome (an equal value, or a failure), exits 1 and prints FAIL otherwise.
"""
import itertools
import json
import sys
from typing import Dict, List, Mapping, Optional, Sequence, Union

import yaml
import yatiml


class Base:
    def __eq__(self, other: object) -> bool:
        return type(other) is type(self) and vars(other) == vars(self)

    def __repr__(self) -> str:
        return '{}({})'.format(type(self).__name__, vars(self))


# Two kinds of volume that differ only in the type of an OPTIONAL attribute.
class SizedVolume(Base):
    def __init__(self, name: str, size: int = 0) -> None:
        self.name = name
        self.size = size


class NamedVolume(Base):
    def __init__(self, name: str, size: str = 'small') -> None:
        self.name = name
        self.size = size


class Host(Base):
    def __init__(
            self, name: str, volume: Union[SizedVolume, NamedVolume],
            tags: Optional[List[str]] = None) -> None:
        self.name = name
        self.volume = volume
        self.tags = tags


# The same, as a class hierarchy.
class Shape(Base):
    def __init__(self, label: str) -> None:
        self.label = label


class Square(Shape):
    def __init__(self, label: str, side: float = 1.0) -> None:
        super().__init__(label)
        self.side = side


class Named(Shape):
    def __init__(self, label: str, side: str = 'unit') -> None:
        super().__init__(label)
        self.side = side


class Unrelated(Base):
    def __init__(self, q: int) -> None:
        self.q = q


class Flags(Base):
    def __init__(self, name: str, values: List[int],
                 table: Dict[str, Union[int, bool]]) -> None:
        self.name = name
        self.values = values
        self.table = table


class FlagsAbstract(Base):
    def __init__(self, name: str, values: Sequence[int],
                 table: Mapping[str, Union[int, bool, yatiml.bool_union_fix]]
                 ) -> None:
        self.name = name
        self.values = values
        self.table = table


def outcome(load, text):
    try:
        return ('value', load(text))
    except Exception as e:      # noqa
        return ('failure', type(e).__name__)


def same(o1, o2) -> bool:
    if o1[0] != o2[0]:
        return False
    if o1[0] == 'failure':
        return True
    return o1[1] == o2[1]


failures = []


def check(what, load, texts, load2=None):
    """All texts must give the same outcome (load2: other loader for the
    second and later texts)."""
    ref = outcome(load, texts[0])
    for text in texts[1:]:
        out = outcome(load2 or load, text)
        if not same(ref, out):
            failures.append(
                    '{}:\n    {!r}\n      -> {}\n    {!r}\n      -> {}'.format(
                        what, texts[0], ref, text, out))
            return


def key_orders(pairs, flow=False):
    """The mapping with the given (key, yaml text) pairs in all orders."""
    for perm in itertools.permutations(pairs):
        if flow:
            yield '{' + ', '.join('{}: {}'.format(k, v) for k, v in perm) + '}\n'
        else:
            yield ''.join('{}: {}\n'.format(k, v) for k, v in perm)


# 1. key order, mapping loaded as a class picked from a Union
load_vol = yatiml.load_function(
        Union[SizedVolume, NamedVolume], SizedVolume, NamedVolume)
for pairs in (
        [('name', 'data'), ('size', '12')],
        [('name', 'data'), ('size', 'large')],      # exposes the slip
        [('name', 'data')],
        [('size', 'large')],
        [('name', 'data'), ('size', '1.5')],
        ):
    check('key order, Union of classes', load_vol, list(key_orders(pairs)))
    check('key order, Union of classes, flow', load_vol,
          list(key_orders(pairs, True)))

# 2. key order, nested in another class
load_host = yatiml.load_function(Host, SizedVolume, NamedVolume)
for vol in ('{name: d, size: 3}', '{size: 3, name: d}',
            '{name: d, size: big}', '{size: big, name: d}'):
    pairs = [('name', 'h1'), ('volume', vol), ('tags', '[a, b]')]
    check('key order, nested class', load_host, list(key_orders(pairs)))
check('key order inside nested class', load_host, [
    'name: h\nvolume: {name: d, size: big}\n',
    'name: h\nvolume: {size: big, name: d}\n',
    'volume:\n  size: big\n  name: d\nname: h\n'])

# 3. key order, class hierarchy
load_shape = yatiml.load_function(Shape, Square, Named)
for pairs in (
        [('label', 's'), ('side', '2.0')],
        [('label', 's'), ('side', 'two')],          # exposes the slip
        [('label', 's')],
        [('side', '2.0')],
        ):
    check('key order, class hierarchy', load_shape, list(key_orders(pairs)))

# 4. the other invariances, on the same kind of document
doc = {'name': 'x', 'values': [1, 2, 3], 'table': {'a': 1, 'b': True}}
block = yaml.safe_dump(doc, default_flow_style=False)
flow = yaml.safe_dump(doc, default_flow_style=True)
quoted = yaml.safe_dump(doc, default_style='"')
canonical = yaml.safe_dump(doc, canonical=True)
as_json = json.dumps(doc)
load_flags = yatiml.load_function(Flags)
check('styles', load_flags, [block, flow, quoted, canonical, as_json])
check('unrelated class registered', load_flags, [block, block],
      yatiml.load_function(Flags, Unrelated))
out1 = outcome(load_flags, block)
out2 = outcome(yatiml.load_function(FlagsAbstract), block)
if not (out1[0] == out2[0] == 'value' and vars(out1[1]) == vars(out2[1])):
    failures.append('List/Sequence, Dict/Mapping, bool_union_fix: {} vs {}'
                    .format(out1, out2))
check('unrelated class registered, Union of classes', load_vol,
      ['name: data\nsize: large\n'] * 2,
      yatiml.load_function(
          Union[SizedVolume, NamedVolume], SizedVolume, NamedVolume,
          Unrelated))

if failures:
    print('FAIL: the outcome of a load changed although the document means'
          ' the same')
    for f in failures:
        print('  ' + f)
    sys.exit(1)
print('PASS')
