"""C05 round trip: load(dumps(value)) is structurally equal to value.

Exposes pair 1 (cached constructor introspection): the second and later
objects of a class that takes ``_yatiml_extra`` must keep their extra
attributes when dumped by the same dumps function.
"""
import datetime
import enum
import math
import sys
from collections import OrderedDict, UserString
from pathlib import Path
from typing import Any, Dict, List, Optional, Union

import yatiml


def same(a: Any, b: Any, where: str = 'value') -> Optional[str]:
    """Returns None if structurally equal, else a description."""
    if type(a) is not type(b):
        return '{}: class {} became {}'.format(
                where, type(a).__name__, type(b).__name__)
    if isinstance(a, float):
        if math.isnan(a) and math.isnan(b):
            return None
        return None if a == b else '{}: {!r} became {!r}'.format(where, a, b)
    if isinstance(a, dict):
        if list(a.keys()) != list(b.keys()):
            return '{}: keys {} became {}'.format(
                    where, list(a.keys()), list(b.keys()))
        for k in a:
            r = same(a[k], b[k], '{}[{!r}]'.format(where, k))
            if r:
                return r
        return None
    if isinstance(a, list):
        if len(a) != len(b):
            return '{}: length {} became {}'.format(where, len(a), len(b))
        for i, (x, y) in enumerate(zip(a, b)):
            r = same(x, y, '{}[{}]'.format(where, i))
            if r:
                return r
        return None
    if isinstance(a, (UserString, enum.Enum, Path, datetime.date, str, int,
                      bool, type(None))):
        return None if a == b else '{}: {!r} became {!r}'.format(where, a, b)
    return same(vars(a), vars(b), where + '.__dict__')


class Color(enum.Enum):
    RED = 1
    GREEN = 2


class Name(UserString):
    pass


class Point:
    def __init__(self, x: float, y: float = 0.0) -> None:
        self.x = x
        self.y = y

    @classmethod
    def _yatiml_sweeten(cls, node: yatiml.Node) -> None:
        node.remove_attributes_with_default_values(cls)


class Ext:
    """A class with extra attributes."""
    def __init__(self, a: int, _yatiml_extra: OrderedDict) -> None:
        self.a = a
        self._yatiml_extra = _yatiml_extra


class Plain:
    def __init__(self, s: str, when: datetime.date, color: Color,
                 where: Path, n: Optional[int] = None) -> None:
        self.s = s
        self.when = when
        self.color = color
        self.where = where
        self.n = n


class Doc:
    def __init__(
            self, exts: List[Ext], points: Dict[str, Point],
            plains: List[Plain], named: Dict[Name, int]) -> None:
        self.exts = exts
        self.points = points
        self.plains = plains
        self.named = named


failures = []   # type: List[str]


def check(label: str, dumps: Any, load: Any, value: Any) -> None:
    try:
        text = dumps(value)
        result = load(text)
    except Exception as e:
        failures.append('{}: {}: {}'.format(
            label, type(e).__name__, str(e).replace('\n', ' | ')))
        return
    diff = same(value, result)
    if diff:
        failures.append('{}: {}\n--- dumped as ---\n{}'.format(
            label, diff, text))


classes = (Doc, Ext, Point, Plain, Color, Name)

# built-in values through the untyped functions
dumps_any = yatiml.dumps_function()
load_any = yatiml.load_function()
for i, v in enumerate([
        '1', '1.5', 'true', 'null', '~', '2020-01-01', 'yes', '- a', 'a: b',
        '', '#x', 'multi\nline', 1, 1.5, True, None, float('inf'),
        float('-inf'), float('nan'), [1, [2, '3']],
        {'b': 1, 'a': {'z': [1.0, None], 'y': 'no'}},
        datetime.date(2020, 1, 2), datetime.datetime(2020, 1, 2, 3, 4, 5)]):
    check('builtin #{} {!r}'.format(i, v), dumps_any, load_any, v)

# one dumps function and one load function, used for everything below, as
# an application would
dumps = yatiml.dumps_function(*classes)
load_doc = yatiml.load_function(*classes)
load_ext = yatiml.load_function(Ext)
load_exts = yatiml.load_function(List[Ext], Ext)

e1 = Ext(1, OrderedDict([('zeta', 'true'), ('alpha', [1, 2])]))
e2 = Ext(2, OrderedDict([('b', 5), ('c', {'k': '1'})]))
e3 = Ext(3, OrderedDict())
e4 = Ext(4, OrderedDict([('only', None)]))

shared = Point(5.0, 6.0)
doc = Doc(
        [e1, e2, e3, e4],
        {'q': Point(1.0), 'p': shared, 'r': shared},
        [Plain('007', datetime.date(2021, 2, 3), Color.GREEN, Path('/a/b')),
         Plain('null', datetime.datetime(2021, 2, 3, 4, 5, 6), Color.RED,
               Path('rel'), 3)],
        {Name('n1'): 1, Name('123'): 2})
check('document with several Ext objects', dumps, load_doc, doc)

# the same dumps function, one object per call
check('Ext e1 on its own', dumps, load_ext, e1)
check('Ext e2 on its own', dumps, load_ext, e2)
check('Ext e4 on its own', dumps, load_ext, e4)
check('list of Ext', dumps, load_exts, [e2, e1, e4, e3])

if failures:
    print('FAIL')
    for f in failures:
        print(' *', f)
    sys.exit(1)
print('PASS')
