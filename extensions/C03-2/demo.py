#!/usr/bin/env python
"""C03 demo, pair 2: better error messages for tags that do not fit.

Checks the statement of C03 on concrete inputs: a polymorphic position
resolves to the single most-derived registered concrete class that
matches, abstract and unregistered classes are never used, ambiguity
and bad tags are errors, and the outcome does not depend on the order
of registration.

The input that exposes the slip: a hierarchy Base <- Mid <- Leaf where
Leaf needs a key that the document lacks, and the document is tagged
!Leaf. The tag names a class that is incompatible with the node, so
the load has to fail; it must not quietly produce a Base or a Mid.

Exit 0 and print PASS if all checks hold, exit 1 and print FAIL with
the failed checks otherwise.
"""
from abc import ABC
import itertools
import sys
from typing import Any, Callable, List, Optional, Union

import yatiml


print('yatiml from {}'.format(yatiml.__file__))
failures = []   # type: List[str]


def outcome(fn: Callable[[], Any]) -> str:
    """Run a load, describe what came out."""
    try:
        obj = fn()
    except yatiml.RecognitionError:
        return 'RecognitionError'
    except Exception as e:     # anything else is not an acceptable outcome
        return 'CRASH {}: {}'.format(type(e).__name__, e)
    return type(obj).__name__


def check(label: str, got: str, expected: str) -> None:
    if got != expected:
        failures.append('{}: expected {}, got {}'.format(
            label, expected, got))


class Base:
    def __init__(self, x: int) -> None:
        self.x = x


class Mid(Base):
    def __init__(self, x: int, m: int = 0) -> None:
        self.x = x
        self.m = m


class Leaf(Mid):
    def __init__(self, x: int, m: int = 0, y: int = 0) -> None:
        self.x = x
        self.m = m
        self.y = y


class Twin(Base):
    """Matches whatever Mid matches."""
    def __init__(self, x: int, m: int = 0) -> None:
        self.x = x
        self.m = m


class Stranger:
    def __init__(self, x: int) -> None:
        self.x = x


class Plan(ABC):
    def __init__(self, name: str) -> None:
        self.name = name


class Detailed(Plan):
    def __init__(self, name: str, steps: int) -> None:
        self.name = name
        self.steps = steps


# --- the property on the ordinary API ---------------------------------

for perm in itertools.permutations([Base, Mid, Leaf]):
    names = ','.join(c.__name__ for c in perm)
    # the document type is Base, the order of registration varies
    load = yatiml.load_function(Union[Base], *perm)     # type: ignore
    check('most derived [{}]'.format(names),
          outcome(lambda: load('x: 1')), 'Leaf')
    check('tag names a base [{}]'.format(names),
          outcome(lambda: load('!Mid {x: 1}')), 'Mid')
    check('unknown tag [{}]'.format(names),
          outcome(lambda: load('!Nope {x: 1}')), 'RecognitionError')

check('unregistered subclass is not considered',
      outcome(lambda: yatiml.load_function(Base)('x: 1')), 'Base')
check('unregistered subclass is not considered (2)',
      outcome(lambda: yatiml.load_function(Base, Mid)('x: 1')), 'Mid')

for perm in itertools.permutations([Mid, Twin]):
    names = ','.join(c.__name__ for c in perm)
    load = yatiml.load_function(Base, *perm)
    check('ambiguous [{}]'.format(names),
          outcome(lambda: load('x: 1')), 'RecognitionError')
    check('ambiguous, tagged [{}]'.format(names),
          outcome(lambda: load('!Twin {x: 1}')), 'Twin')
    load = yatiml.load_function(Base, Stranger, *perm)
    check('incompatible tag [{}]'.format(names),
          outcome(lambda: load('!Stranger {x: 1}')), 'RecognitionError')

load = yatiml.load_function(Plan, Detailed)     # type: ignore
check('abstract never instantiated',
      outcome(lambda: load('name: a')), 'RecognitionError')
check('concrete subclass of abstract',
      outcome(lambda: load('{name: a, steps: 3}')), 'Detailed')

for members in itertools.permutations([Base, Stranger, int]):
    load = yatiml.load_function(    # type: ignore
            Union[members], Base, Mid, Stranger)        # type: ignore
    check('union ambiguity {}'.format(members),
          outcome(lambda: load('x: 1')), 'RecognitionError')
    check('union tagged {}'.format(members),
          outcome(lambda: load('!Stranger {x: 1}')), 'Stranger')
    check('union scalar {}'.format(members),
          outcome(lambda: load('12')), 'int')

load = yatiml.load_function(Optional[Base], Base, Mid)  # type: ignore
check('optional, null', outcome(lambda: load('~')), 'NoneType')
check('optional, object', outcome(lambda: load('x: 1')), 'Mid')


# --- tags that name a class that does not fit the node ----------------

class Needy(Mid):
    """Two levels below Base, and needs a key that Mid doesn't."""
    def __init__(self, x: int, y: int, m: int = 0) -> None:
        self.x = x
        self.m = m
        self.y = y


class Side(Base):
    """Directly below Base, needs a key that Base doesn't."""
    def __init__(self, x: int, s: int) -> None:
        self.x = x
        self.s = s


for perm in itertools.permutations([Base, Mid, Needy, Side]):
    names = ','.join(c.__name__ for c in perm)
    load = yatiml.load_function(    # type: ignore
            Union[Base], Stranger, *perm)   # type: ignore

    # sanity: untagged, and tags that do fit
    check('untagged [{}]'.format(names),
          outcome(lambda: load('x: 1')), 'Mid')
    check('untagged, all keys [{}]'.format(names),
          outcome(lambda: load('{x: 1, y: 2}')), 'Needy')
    check('fitting tag, leaf [{}]'.format(names),
          outcome(lambda: load('!Needy {x: 1, y: 2}')), 'Needy')
    check('fitting tag, side [{}]'.format(names),
          outcome(lambda: load('!Side {x: 1, s: 2}')), 'Side')
    check('fitting tag, middle [{}]'.format(names),
          outcome(lambda: load('!Mid {x: 1}')), 'Mid')
    check('fitting tag, top [{}]'.format(names),
          outcome(lambda: load('!Base {x: 1}')), 'Base')

    # tags naming a class the node is incompatible with
    check('tag names a direct subclass that does not match'
          ' [{}]'.format(names),
          outcome(lambda: load('!Side {x: 1}')), 'RecognitionError')
    check('tag names a subclass two levels down that does not match'
          ' [{}]'.format(names),
          outcome(lambda: load('!Needy {x: 1}')), 'RecognitionError')
    check('tag names an unrelated registered class [{}]'.format(names),
          outcome(lambda: load('!Stranger {x: 1}')), 'RecognitionError')
    check('tag names an unknown class [{}]'.format(names),
          outcome(lambda: load('!Neddy {x: 1, y: 2}')), 'RecognitionError')

    load = yatiml.load_function(    # type: ignore
            Union[Mid], Stranger, *perm)    # type: ignore
    check('tag names a base class of what is expected [{}]'.format(names),
          outcome(lambda: load('!Base {x: 1}')), 'RecognitionError')
    check('tag names a subclass that does not match, Mid expected'
          ' [{}]'.format(names),
          outcome(lambda: load('!Needy {x: 1}')), 'RecognitionError')

for members in itertools.permutations([Base, Stranger]):
    load = yatiml.load_function(    # type: ignore
            Union[members], Base, Mid, Needy, Stranger)     # type: ignore
    check('union, tag names a subclass that does not match {}'.format(
              members),
          outcome(lambda: load('!Needy {x: 1}')), 'RecognitionError')
    check('union, fitting tag {}'.format(members),
          outcome(lambda: load('!Needy {x: 1, y: 2}')), 'Needy')


class Holder:
    def __init__(self, item: Base, maybe: Optional[Base] = None) -> None:
        self.item = item
        self.maybe = maybe


load = yatiml.load_function(Holder, Base, Mid, Needy)
check('attribute, tag names a subclass that does not match',
      outcome(lambda: load('item: !Needy {x: 1}').item), 'RecognitionError')
check('optional attribute, tag names a subclass that does not match',
      outcome(lambda: load('{item: {x: 1}, maybe: !Needy {x: 1}}').maybe),
      'RecognitionError')
check('attribute, fitting tag',
      outcome(lambda: load('item: !Needy {x: 1, y: 3}').item), 'Needy')


if failures:
    print('FAIL')
    for f in failures:
        print('  ' + f)
    sys.exit(1)
print('PASS')
sys.exit(0)
