"""C11 pair 2: classes registered with one dump function are unknown to others.

Run as
  cd /tmp/w5_C11 && PYTHONPATH=/tmp/w5_C11 /venv/bin/python \
      /tmp/r6_out/C11/2/demo.py
"""
import io
import sys
from collections import UserString
from typing import Any, Callable, List

import yaml
from yaml.representer import RepresenterError
import yatiml

failures = []       # type: List[str]


def check(what: str, ok: bool, detail: str = '') -> None:
    if not ok:
        failures.append('{}{}'.format(what, ': ' + detail if detail else ''))


def outcome(func: Callable[..., Any], *args: Any, **kwargs: Any) -> str:
    """The result of a call, or the kind of error it gave."""
    try:
        return repr(func(*args, **kwargs))
    except RepresenterError:
        return 'RepresenterError'
    except yatiml.RecognitionError:
        return 'RecognitionError'


def to_stream(dump: Callable[..., None], obj: Any) -> str:
    stream = io.StringIO()
    dump(obj, stream)
    return stream.getvalue()


# ---------------------------------------------------------------------
# user classes
# ---------------------------------------------------------------------
class Shape:
    def __init__(self, name: str) -> None:
        self.name = name

    @classmethod
    def _yatiml_sweeten(cls, node: yatiml.Node) -> None:
        node.set_attribute('kind', 'shape')


class Circle(Shape):
    def __init__(self, name: str, radius: float) -> None:
        super().__init__(name)
        self.radius = radius


class Other:
    def __init__(self, x: int) -> None:
        self.x = x


class Code(UserString):
    pass


def make_config(version: int) -> type:
    """Two different classes of the same name."""
    class Config:
        def __init__(self, level: int) -> None:
            self.level = level

        @classmethod
        def _yatiml_sweeten(cls, node: yatiml.Node) -> None:
            node.set_attribute('version', version)

    return Config


Config1 = make_config(1)
Config2 = make_config(2)

classes = [Shape, Circle, Other, Code, Config1, Config2]
class_dicts_before = [dict(c.__dict__) for c in classes]

shape = Shape('s')
circle = Circle('c', 1.5)
other = Other(3)
code = Code('abc')

NOT_YAML = 'RepresenterError'


def pyyaml_state() -> List[Any]:
    return [
            outcome(yaml.safe_dump, shape), outcome(yaml.safe_dump, circle),
            outcome(yaml.safe_dump, code), outcome(yaml.safe_dump, other),
            outcome(yaml.safe_dump, {'a': [1, 'x']}),
            sorted(map(str, yaml.SafeDumper.yaml_representers)),
            sorted(map(str, yaml.SafeDumper.yaml_multi_representers)),
            sorted(map(str, yaml.Dumper.yaml_multi_representers))]


pyyaml_before = pyyaml_state()
check('yaml.safe_dump does not know user classes',
      pyyaml_before[:4] == [NOT_YAML] * 4, repr(pyyaml_before[:4]))

# ---------------------------------------------------------------------
# a function made before any class was registered anywhere
# ---------------------------------------------------------------------
dumps_plain_early = yatiml.dumps_function()
early_before = [outcome(dumps_plain_early, o)
                for o in (shape, circle, other, code, {'a': 1})]
check('plain dumps function knows no user classes (before)',
      early_before == [NOT_YAML] * 4 + [repr('a: 1\n')], repr(early_before))

# ---------------------------------------------------------------------
# functions with classes
# ---------------------------------------------------------------------
dumps_shape = yatiml.dumps_function(Shape)
dumps_shapes = yatiml.dumps_function(Shape, Circle)
dumps_other = yatiml.dumps_function(Other)
dumps_code = yatiml.dumps_function(Code)
dumps_json_shape = yatiml.dumps_json_function(Shape)
dump_shape = yatiml.dump_function(Shape)
dump_json_shape = yatiml.dump_json_function(Shape)
dumps_config1 = yatiml.dumps_function(Config1)
dumps_config2 = yatiml.dumps_function(Config2)

# functions made after those
dumps_plain = yatiml.dumps_function()
dumps_json_plain = yatiml.dumps_json_function()
dump_plain = yatiml.dump_function()
dump_json_plain = yatiml.dump_json_function()

# own classes work, and give the same thing time and again
for _ in range(2):
    check('dumps_shape(shape)',
          outcome(dumps_shape, shape) == repr('name: s\nkind: shape\n'),
          outcome(dumps_shape, shape))
    check('dumps_shapes(circle)',
          outcome(dumps_shapes, circle) ==
          repr('name: c\nradius: 1.5\nkind: shape\n'),
          outcome(dumps_shapes, circle))
    check('dumps_other(other)',
          outcome(dumps_other, other) == repr('x: 3\n'))
    check('dumps_code(code)',
          outcome(dumps_code, code) == repr('abc\n...\n'),
          outcome(dumps_code, code))
    check('dumps_json_shape(shape)',
          outcome(dumps_json_shape, shape) ==
          repr('{"name":"s","kind":"shape"}'),
          outcome(dumps_json_shape, shape))
    check('dump_shape(shape)',
          outcome(to_stream, dump_shape, shape) ==
          repr('name: s\nkind: shape\n'))
    check('dump_json_shape(shape)',
          outcome(to_stream, dump_json_shape, shape) ==
          repr('{"name":"s","kind":"shape"}'))

    # each function knows its own classes only
    for name, func, objs in [
            ('dumps_plain_early', dumps_plain_early,
             [shape, circle, other, code]),
            ('dumps_plain', dumps_plain, [shape, circle, other, code]),
            ('dumps_json_plain', dumps_json_plain,
             [shape, circle, other, code]),
            ('dumps_other', dumps_other, [shape, circle, code]),
            ('dumps_code', dumps_code, [shape, circle, other]),
            ('dumps_shape', dumps_shape, [other, code]),
            ('dumps_shapes', dumps_shapes, [other, code]),
            ('dumps_json_shape', dumps_json_shape, [other, code]),
            ]:
        for obj in objs:
            res = outcome(func, obj)
            check('{} was not given {}, so cannot dump one'.format(
                      name, type(obj).__name__),
                  res == NOT_YAML, 'it gave ' + res)

    for name, dump, objs in [
            ('dump_plain', dump_plain, [shape, circle, other, code]),
            ('dump_json_plain', dump_json_plain, [shape, circle, other, code]),
            ('dump_shape', dump_shape, [other, code]),
            ('dump_json_shape', dump_json_shape, [other, code])]:
        for obj in objs:
            res = outcome(to_stream, dump, obj)
            check('{} was not given {}, so cannot dump one'.format(
                      name, type(obj).__name__),
                  res == NOT_YAML, 'it gave ' + res)

    # an object nested in built-in containers makes no difference
    res = outcome(dumps_other, {'items': [shape]})
    check('dumps_other cannot dump a nested Shape', res == NOT_YAML,
          'it gave ' + res)

    # same-named classes
    c1, c2 = Config1(5), Config2(6)
    check('dumps_config1(Config1)',
          outcome(dumps_config1, c1) == repr('level: 5\nversion: 1\n'),
          outcome(dumps_config1, c1))
    check('dumps_config2(Config2)',
          outcome(dumps_config2, c2) == repr('level: 6\nversion: 2\n'),
          outcome(dumps_config2, c2))
    res = outcome(dumps_config1, c2)
    check('dumps_config1 does not know the other Config', res == NOT_YAML,
          'it gave ' + res)
    res = outcome(dumps_config2, c1)
    check('dumps_config2 does not know the other Config', res == NOT_YAML,
          'it gave ' + res)

# a Circle given to a function that only has Shape: an error in the
# original, dumped as a Shape with the new feature, nothing else
res = outcome(dumps_shape, circle)
check('dumps_shape(circle)',
      res in (NOT_YAML, repr('name: c\nradius: 1.5\nkind: shape\n')), res)

# the function made first still behaves as it did
early_after = [outcome(dumps_plain_early, o)
               for o in (shape, circle, other, code, {'a': 1})]
check('plain dumps function made first is unaffected by later functions',
      early_after == early_before, '{} -> {}'.format(
          early_before, early_after))

# PyYAML and the classes are as they were
pyyaml_after = pyyaml_state()
check('PyYAML unchanged', pyyaml_after == pyyaml_before, '{} -> {}'.format(
    pyyaml_before, pyyaml_after))
check('user classes unchanged',
      [dict(c.__dict__) for c in classes] == class_dicts_before)

if failures:
    print('FAIL')
    unique = []     # type: List[str]
    for f in failures:
        if f not in unique:
            unique.append(f)
    for f in unique[:12]:
        print('  ' + (f if len(f) < 600 else f[:600] + ' ...'))
    if len(unique) > 12:
        print('  ... and {} more'.format(len(unique) - 12))
    sys.exit(1)
print('PASS')
