"""C17 demo for pair 3: positions of nodes made while savorizing.

Uses a document class with a _yatiml_savorize() (the usual case for a
top-level configuration class) and loads documents with one corrupted
scalar or key from a string, from a pathlib.Path and from an open file.
For each it checks that the RecognitionError cites a position on the
line of the corrupted node, of its key, or of the start of the
enclosing mapping, that it names an unknown or missing key, and that
all positions cited lie inside the document.
"""
import enum
import pathlib
import re
import sys
import tempfile
from typing import List, Optional

import yatiml


class Mode(enum.Enum):
    fast = 1
    safe = 2


class Limits:
    def __init__(self, cpu: int, mem: int, disk: Optional[int] = None
                 ) -> None:
        pass


class Server:
    def __init__(self, name: str, host: str, port: int, mode: Mode,
                 limits: Limits, note: Optional[str] = None) -> None:
        if not 0 < port < 65536:
            raise ValueError('port {} is out of range'.format(port))


class Config:
    """Servers are written as a mapping from their name in the file."""
    def __init__(self, title: str, servers: List[Server],
                 owner: Optional[str] = None) -> None:
        pass

    @classmethod
    def _yatiml_recognize(cls, node: yatiml.UnknownNode) -> None:
        node.require_attribute('title', str)
        node.require_attribute('servers')

    @classmethod
    def _yatiml_savorize(cls, node: yatiml.Node) -> None:
        node.map_attribute_to_seq('servers', 'name')


load = yatiml.load_function(Config, Server, Limits, Mode)

GOOD = '''\
title: prod
owner: ops
servers:
  alpha:
    host: a.example.com
    port: 80
    mode: fast
    limits:
      cpu: 2
      mem: 4
  beta:
    host: b.example.com
    port: 8080
    mode: safe
    note: spare
    limits:
      cpu: 1
      mem: 2
      disk: 10
'''

POS = re.compile(r'line (\d+), column (\d+)')
failures = []
tmpdir = tempfile.TemporaryDirectory()


def line_of(doc, text):
    for i, line in enumerate(doc.splitlines()):
        if text in line:
            return i + 1
    raise AssertionError(text)


def load_from(kind, doc):
    if kind == 'string':
        return load(doc)
    path = pathlib.Path(tmpdir.name) / 'config.yaml'
    path.write_text(doc)
    if kind == 'path':
        return load(path)
    with path.open('r') as f:
        return load(f)


def check(desc, doc, allowed, names=()):
    nlines = len(doc.splitlines())
    for kind in ('string', 'path', 'stream'):
        what = '{} (from {})'.format(desc, kind)
        try:
            load_from(kind, doc)
        except yatiml.RecognitionError as e:
            msg = str(e)
        except Exception as e:     # noqa
            failures.append('{}: {} instead of RecognitionError: {}'.format(
                what, type(e).__name__, e))
            continue
        else:
            failures.append('{}: no error raised'.format(what))
            continue
        cited = [(int(li), int(co)) for li, co in POS.findall(msg)]
        if not cited:
            failures.append('{}: no position cited:\n{}'.format(what, msg))
            continue
        outside = [c for c in cited if not 1 <= c[0] <= nlines]
        if outside:
            failures.append('{}: cites {} outside the {}-line document'
                            .format(what, outside, nlines))
        lines = sorted({li for li, _ in cited})
        if not any(li in allowed for li in lines):
            failures.append(
                    '{}: cites line(s) {} but the offending place is on one'
                    ' of lines {}:\n{}'.format(
                        what, lines, sorted(allowed), msg))
        for name in names:
            if '"{}"'.format(name) not in msg:
                failures.append('{}: key "{}" is not named:\n{}'.format(
                    what, name, msg))


def corrupt(old, new):
    doc = GOOD.replace(old, new, 1)
    assert doc != GOOD
    return doc


for kind in ('string', 'path', 'stream'):
    load_from(kind, GOOD)

# scalar of the wrong type, in a server and in its limits
doc = corrupt('port: 8080', 'port: http')
check('scalar of wrong type', doc,
      {line_of(doc, 'port: http'), line_of(doc, 'host: b.')})
doc = corrupt('mem: 2', 'mem: lots')
check('scalar of wrong type, two levels down', doc,
      {line_of(doc, 'mem: lots'), line_of(doc, 'cpu: 1')})

# missing key
doc = corrupt('      cpu: 1\n', '')
check('missing key', doc, {line_of(doc, 'mem: 2')}, ['cpu'])
doc = corrupt('    host: b.example.com\n', '')
check('missing key in server', doc,
      {line_of(doc, 'beta:'), line_of(doc, 'port: 8080')}, ['host'])

# unknown key: found by the Constructor, after savorizing
doc = corrupt('note: spare', 'nite: spare')
check('unknown key in server', doc,
      {line_of(doc, 'nite: spare'), line_of(doc, 'beta:'),
       line_of(doc, 'host: b.')}, ['nite'])
doc = corrupt('disk: 10', 'disc: 10')
check('unknown key two levels down', doc,
      {line_of(doc, 'disc: 10'), line_of(doc, 'cpu: 1')}, ['disc'])
doc = corrupt('owner: ops', 'ownr: ops')
check('unknown key at the top', doc, {line_of(doc, 'ownr: ops'), 1},
      ['ownr'])

# value that the class itself refuses
doc = corrupt('mode: safe', 'mode: careful')
check('unknown enum member', doc,
      {line_of(doc, 'mode: careful'), line_of(doc, 'beta:'),
       line_of(doc, 'host: b.')})
doc = corrupt('port: 8080', 'port: 808080')
check('value refused by __init__', doc,
      {line_of(doc, 'port: 808080'), line_of(doc, 'beta:'),
       line_of(doc, 'host: b.')})

tmpdir.cleanup()
if failures:
    print('FAIL')
    for f in failures:
        print('-', f)
    sys.exit(1)
print('PASS')
