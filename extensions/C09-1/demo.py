"""C09 demo, pair 1: plain scalars are typed by YAML 1.2 rules, wherever
and whenever they occur in a document.

Run as
  cd /tmp/w5_C09 && PYTHONPATH=/tmp/w5_C09 /venv/bin/python demo.py
Prints PASS and exits 0 if the property holds, prints FAIL with the
offending inputs and exits 1 otherwise.
"""
import math
import sys
from typing import Any, Dict, List, Union

import yatiml

BOOLS = {
        'true': True, 'True': True, 'TRUE': True,
        'false': False, 'False': False, 'FALSE': False}
FLOATS = [
        '1.5', '1.', '.5', '-0.0', '+12.25', '1e3', '1E-3', '-1.5e+3',
        '1.e2', '6.02E23', '1e400', '.inf', '-.Inf', '+.INF', '.nan',
        '.NaN', '.NAN']
STRINGS = [
        'yes', 'no', 'on', 'off', 'Yes', 'NO', 'On', 'OFF', 'y', 'n',
        '1_000.5', '1:30.5', '1.2.3', 'trueish', 'tRue', 'truE', 'falsey',
        '.Nan', '.iNF', '1e', 'e3', '.e3', '.', '1.5kg', '1,5', 'inf',
        'nan']

problems = []   # type: List[str]


def same(got: Any, want: Any) -> bool:
    if type(got) is not type(want):
        return False
    if isinstance(want, float):
        if math.isnan(want):
            return math.isnan(got)
        return got == want and math.copysign(1, got) == math.copysign(1, want)
    return bool(got == want)


def py_float(text: str) -> float:
    special = {'.inf': 'inf', '.nan': 'nan'}
    body = text.lstrip('+-').lower()
    if body in special:
        return float(text.replace(text.lstrip('+-'), special[body]))
    return float(text)


def expect(what: str, func: Any, text: str, want: Any) -> None:
    try:
        got = func(text)
    except Exception as e:
        problems.append('{}: {!r} raised {}: {}'.format(
            what, text, type(e).__name__, str(e).splitlines()[-1]))
        return
    if not same(got, want):
        problems.append('{}: {!r} gave {!r} ({}), expected {!r} ({})'.format(
            what, text, got, type(got).__name__, want, type(want).__name__))


def expect_error(what: str, func: Any, text: str) -> None:
    try:
        got = func(text)
    except yatiml.RecognitionError:
        return
    except Exception as e:
        problems.append('{}: {!r} raised {} rather than a'
                        ' RecognitionError'.format(
                            what, text, type(e).__name__))
        return
    problems.append('{}: {!r} was accepted and gave {!r}'.format(
        what, text, got))


load_any = yatiml.load_function()
load_bool = yatiml.load_function(bool)
load_float = yatiml.load_function(float)
load_str = yatiml.load_function(str)
load_union = yatiml.load_function(Union[bool, float, str])  # type: ignore

# the statement of the property, one scalar per document
for text, value in BOOLS.items():
    expect('untyped', load_any, text, value)
    expect('as bool', load_bool, text, value)
    expect('as union', load_union, text, value)
    expect_error('as float', load_float, text)
    expect_error('as str', load_str, text)

for text in FLOATS:
    expect('untyped', load_any, text, py_float(text))
    expect('as float', load_float, text, py_float(text))
    expect('as union', load_union, text, py_float(text))
    expect_error('as bool', load_bool, text)
    expect_error('as str', load_str, text)

for text in STRINGS:
    expect('untyped', load_any, text, text)
    expect('as str', load_str, text, text)
    expect('as union', load_union, text, text)
    expect_error('as bool', load_bool, text)
    expect_error('as float', load_float, text)

# the same must hold for every scalar of a larger document, whatever
# else is in it: quoted scalars spelled the same way are strings and do
# not change what the plain ones are
for text, value in list(BOOLS.items()) + [(t, py_float(t)) for t in FLOATS]:
    if isinstance(value, float) and math.isnan(value):
        continue
    expect('plain after quoted', load_any,
           '["{0}", {0}]'.format(text), [text, value])
    expect('plain before quoted', load_any,
           "[{0}, '{0}']".format(text), [value, text])
    expect('plain after quoted', load_any,
           'a: "{0}"\nb: {0}\n'.format(text), {'a': text, 'b': value})
    expect('plain value, quoted key', load_any,
           '"{0}": {0}\n'.format(text), {text: value})
    expect('repeated', load_any,
           '[{0}, {0}, {0}]'.format(text), [value, value, value])

for text in STRINGS:
    expect('string twice', load_any,
           '- {0}\n- "{0}"\n- {0}\n'.format(text), [text, text, text])

load_bools = yatiml.load_function(List[bool])
load_floats = yatiml.load_function(Dict[str, float])
expect('typed list', load_bools, '[true, FALSE, True]', [True, False, True])
expect_error('typed list', load_bools, '[true, "true"]')
expect_error('typed list', load_bools, '["true", true, yes]')
expect('typed dict', load_floats, '"1.5": 1.5\nb: 1e3\n',
       {'1.5': 1.5, 'b': 1000.0})
expect_error('typed dict', load_floats, 'a: 1.5\nb: "1.5"\n')

if problems:
    print('FAIL')
    for problem in problems:
        print('  ' + problem)
    sys.exit(1)
print('PASS')
