"""C18 demo, pair 3: the cycle check is iterative and names the anchor and alias.

Checks the property on concrete inputs: a document with anchors and
aliases must load to a value equal to that of the same document with
each alias replaced by a copy of the anchored node, must fail iff that
expanded document fails, and self-referential aliases must be rejected
with an error rather than by exhausting the stack.
"""
import sys
from typing import Any, Dict, List, Union

import yaml
import yatiml

assert yatiml.__file__.startswith('/tmp/w5_C18/'), yatiml.__file__


class Eq:
    def __eq__(self, other):
        return type(self) is type(other) and self.__dict__ == other.__dict__

    def __repr__(self):
        return '{}({})'.format(type(self).__name__, self.__dict__)


class Duration(Eq):
    """A number of seconds; may be written as a bare int."""
    def __init__(self, seconds: int) -> None:
        self.seconds = seconds

    @classmethod
    def _yatiml_recognize(cls, node: yatiml.UnknownNode) -> None:
        pass

    @classmethod
    def _yatiml_savorize(cls, node: yatiml.Node) -> None:
        if node.is_scalar(int):
            value = node.get_value()
            node.make_mapping()
            node.set_attribute('seconds', value)


class Pair(Eq):
    """Two numbers; may be written as a two-item list."""
    def __init__(self, first: int, second: int) -> None:
        self.first = first
        self.second = second

    @classmethod
    def _yatiml_recognize(cls, node: yatiml.UnknownNode) -> None:
        pass

    @classmethod
    def _yatiml_savorize(cls, node: yatiml.Node) -> None:
        if node.is_sequence():
            items = [item.get_value() for item in node.seq_items()]
            node.make_mapping()
            node.set_attribute('first', items[0])
            node.set_attribute('second', items[1])


class Point(Eq):
    def __init__(self, x: int, y: int = 0) -> None:
        self.x = x
        self.y = y


class Settings(Eq):
    def __init__(
            self, timeout: Duration, retries: int, backoff: Duration
            ) -> None:
        self.timeout = timeout
        self.retries = retries
        self.backoff = backoff


class Shapes(Eq):
    def __init__(
            self, span: Pair, raw: List[int], origin: Point,
            corners: List[Point]) -> None:
        self.span = span
        self.raw = raw
        self.origin = origin
        self.corners = corners


load_any = yatiml.load_function()
load_mixed = yatiml.load_function(
        Dict[str, Union[int, str, List[int]]])      # type: ignore
load_settings = yatiml.load_function(Settings, Duration)
load_shapes = yatiml.load_function(Shapes, Pair, Point)

# (description, load function, document with aliases, expanded document)
CASES = [
    ('untyped, nested shared list',
        load_any,
        'a: &x [1, {b: 2}]\nb: *x\nc: [*x, *x]\n',
        'a: [1, {b: 2}]\nb: [1, {b: 2}]\nc: [[1, {b: 2}], [1, {b: 2}]]\n'),
    ('typed dict, shared scalar and list',
        load_mixed,
        'a: &x 1\nb: *x\nc: &l [1, 2]\nd: *l\n',
        'a: 1\nb: 1\nc: [1, 2]\nd: [1, 2]\n'),
    ('typed dict, shared value of a wrong type',
        load_mixed,
        'a: &x 1.5\nb: *x\n',
        'a: 1.5\nb: 1.5\n'),
    ('class, same type at each alias',
        load_shapes,
        'span: [1, 2]\nraw: []\norigin: &o {x: 1}\ncorners: [*o, *o]\n',
        'span: [1, 2]\nraw: []\norigin: {x: 1}\ncorners: [{x: 1}, {x: 1}]\n'),
    ('class, scalar shorthand aliased as Duration, int, Duration',
        load_settings,
        'timeout: &t 30\nretries: *t\nbackoff: *t\n',
        'timeout: 30\nretries: 30\nbackoff: 30\n'),
    ('class, scalar shorthand aliased as int, Duration, Duration',
        load_settings,
        'retries: &t 5\ntimeout: *t\nbackoff: *t\n',
        'retries: 5\ntimeout: 5\nbackoff: 5\n'),
    ('class, list shorthand aliased as Pair and as List[int]',
        load_shapes,
        'span: &s [3, 4]\nraw: *s\norigin: {x: 0}\ncorners: []\n',
        'span: [3, 4]\nraw: [3, 4]\norigin: {x: 0}\ncorners: []\n'),
    ('untyped, anchors nested inside anchored nodes',
        load_any,
        'a: &x {p: &y [1, 2], q: *y}\nb: [*x, {c: *y}]\n',
        'a: {p: [1, 2], q: [1, 2]}\n'
        'b: [{p: [1, 2], q: [1, 2]}, {c: [1, 2]}]\n'),
    ('multi-document stream, same anchor name in both documents',
        lambda text: list(yaml.load_all(text, Loader=load_any.loader)),
        'a: &a [1]\nb: *a\n---\na: &a [2]\nb: [*a, *a]\n',
        'a: [1]\nb: [1]\n---\na: [2]\nb: [[2], [2]]\n'),
    ('class, aliased value that is wrong for the second attribute',
        load_settings,
        'timeout: &t {seconds: 3}\nretries: *t\nbackoff: 1\n',
        'timeout: {seconds: 3}\nretries: {seconds: 3}\nbackoff: 1\n'),
    ]

load_lists = yatiml.load_function(List[List[Any]])      # type: ignore
load_dicts = yatiml.load_function(Dict[str, Dict[str, Any]])


def load_stream(text):
    """All the documents of a multi-document stream."""
    return list(yaml.load_all(text, Loader=load_any.loader))


CYCLES = [
    ('list containing itself', load_any, '&a [*a]\n'),
    ('mapping containing itself', load_any, '&a {k: *a}\n'),
    ('nested self-reference', load_any, 'a: &a [1, [*a]]\n'),
    ('mapping that is its own key', load_any, '&a {*a : 1}\n'),
    ('two nodes containing each other', load_any,
        'a: &a [1, &b {k: *a}]\nb: *b\n'),
    ('self-reference after a harmless alias', load_any,
        'a: &x [1]\nb: *x\nc: &c [*x, *c]\n'),
    ('typed list containing itself', load_lists, '- &a [1, *a]\n'),
    ('typed mapping containing itself', load_dicts, 'a: &a {k: *a}\n'),
    ('self-reference in a class', load_shapes,
        'span: [1, 2]\nraw: []\norigin: {x: 1}\ncorners: &c [*c]\n'),
    ('self-reference in the second document of a stream', load_stream,
        'a: &a [1]\nb: *a\n---\n&a [*a]\n'),
    ]


def outcome(load, text):
    try:
        return 'ok', load(text)
    except RecursionError:
        return 'stack', 'RecursionError'
    except Exception as e:
        return 'error', '{}: {}'.format(
                type(e).__name__, str(e).strip().splitlines()[-1])


problems = []

for desc, load, aliased, expanded in CASES:
    assert '&' not in expanded and '*' not in expanded
    got = outcome(load, aliased)
    want = outcome(load, expanded)
    if 'stack' in (got[0], want[0]):
        problems.append('{}: stack exhausted ({} / {})'.format(
            desc, got, want))
    elif got[0] != want[0]:
        problems.append(
                '{}: with aliases -> {!r}, expanded -> {!r}'.format(
                    desc, got, want))
    elif got[0] == 'ok' and got[1] != want[1]:
        problems.append(
                '{}: values differ: with aliases {!r}, expanded {!r}'.format(
                    desc, got[1], want[1]))

for desc, load, text in CYCLES:
    got = outcome(load, text)
    if got[0] != 'error' or not got[1].startswith('RecognitionError'):
        problems.append(
                '{}: expected a RecognitionError, got {!r}'.format(desc, got))

if problems:
    print('FAIL')
    for problem in problems:
        print(' -', problem)
    sys.exit(1)
print('PASS')
