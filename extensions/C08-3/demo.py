#!/usr/bin/env python3
"""C08 demo, pair 3: an attribute that is given twice is a RecognitionError.

Property checked: for input text of bounded nesting, a load function
either returns, or raises yatiml.RecognitionError or yaml.YAMLError.
Nothing else (KeyError, ValueError, TypeError, AttributeError, IndexError,
SeasoningError, RecursionError, ...) may escape, also when mappings have
duplicate or non-scalar keys.

The inputs are mappings with all kinds of keys, read as user classes (with
and without _yatiml_extra, _yatiml_recognize, _yatiml_savorize), as typed
dicts and as untyped YAML.

Mappings in which a key that names an *attribute* occurs twice (for example
'inner: {a: 1, a: 2}') are listed separately in KNOWN: the original library
lets a SeasoningError escape for these, which is what the commit under test
repairs. They are reported, but do not count towards PASS/FAIL, because the
demo must pass on the original code.

Run as
    cd /tmp/w5_C08 && PYTHONPATH=/tmp/w5_C08 /venv/bin/python demo.py
Prints PASS and exits 0 if the property held on every input in CASES, prints
FAIL with the offending inputs and exits 1 otherwise. With -v, the outcome
for every input is shown.
"""
import enum
import sys
from collections import UserString
from typing import Any, Dict, List, Optional, Union

import yaml
import yatiml


class Colour(enum.Enum):
    red = 1
    green = 2


class Name(UserString):
    def __init__(self, seq: Any) -> None:
        super().__init__(seq)
        if not str(seq).isalpha():
            raise ValueError('Not a valid name')


class Inner:
    def __init__(self, a: int, b: str = 'x') -> None:
        self.a = a
        self.b = b


class Extra:
    """Accepts any further keys."""
    def __init__(self, a: int, _yatiml_extra: Dict[str, Any]) -> None:
        self.a = a
        self.extra = _yatiml_extra


class Point:
    """Recognises itself, and accepts a short form."""
    def __init__(self, x: int, y: int = 0) -> None:
        self.x = x
        self.y = y

    @classmethod
    def _yatiml_recognize(cls, node: yatiml.UnknownNode) -> None:
        node.require_attribute('x', int)

    @classmethod
    def _yatiml_savorize(cls, node: yatiml.Node) -> None:
        if node.has_attribute('why'):
            node.rename_attribute('why', 'y')


class Shape:
    def __init__(self, centre: Point) -> None:
        self.centre = centre


class Circle(Shape):
    def __init__(self, centre: Point, radius: int) -> None:
        super().__init__(centre)
        self.radius = radius


class Square(Shape):
    def __init__(self, centre: Point, side_length: int) -> None:
        super().__init__(centre)
        self.side_length = side_length


class Doc:
    def __init__(
            self, name: Name, inner: Inner,
            colour: Optional[Colour] = None,
            extra: Optional[Extra] = None,
            point: Optional[Point] = None,
            shapes: Optional[List[Shape]] = None,
            table: Optional[Dict[str, Inner]] = None,
            names: Optional[Dict[Name, int]] = None,
            either: Union[None, int, Inner, Extra] = None,
            anything: Any = None) -> None:
        self.name = name


load_doc = yatiml.load_function(
        Doc, Name, Colour, Inner, Extra, Point, Shape, Circle, Square)
load_any = yatiml.load_function()
load_inner = yatiml.load_function(Inner)
load_extra = yatiml.load_function(Extra)
load_point = yatiml.load_function(Point)
load_table = yatiml.load_function(Dict[str, Inner], Inner)   # type: ignore
load_shapes = yatiml.load_function(       # type: ignore
        List[Shape], Shape, Circle, Square, Point)
load_circles = yatiml.load_function(      # type: ignore
        List[Shape], Shape, Circle, Point)

BASE = 'name: abc\ninner: {a: 1}\n'

CASES = [
    # --- ordinary good and bad input ------------------------------------
    (load_doc, BASE),
    (load_doc, ''),
    (load_doc, 'name: [unclosed'),
    (load_doc, 'name: a1\ninner: {a: 1}\n'),
    (load_doc, BASE + 'colour: blue\n'),
    (load_doc, BASE + 'anything: &x [*x]\n'),
    (load_doc, BASE + 'shapes: [{centre: {x: 1}, radius: 2},'
               ' {centre: {x: 1, why: 2}, side_length: 2}]\n'),
    # --- duplicate keys that are not attributes --------------------------
    (load_any, '{a: 1, a: 2}'),
    (load_any, '{a: 1, b: {c: 1, c: 2}}'),
    (load_table, '{k: {a: 1}, k: {a: 2}}'),
    (load_doc, BASE + 'table: {k: {a: 1}, k: {a: 2}}\n'),
    (load_doc, BASE + 'names: {ab: 1, ab: 2}\n'),
    (load_doc, BASE + 'anything: {p: 1, p: 2}\n'),
    (load_doc, BASE + 'extra: {a: 1, z: 1, z: 2}\n'),
    (load_doc, BASE + 'extra: {a: 1, z: {q: 1, q: 2}}\n'),
    (load_extra, '{a: 1, z: 1, z: 2}'),
    (load_doc, BASE + 'zzz: 1\nzzz: 2\n'),
    (load_inner, '{a: 1, c: 1, c: 2}'),
    (load_doc, BASE + 'inner2: {<<: {a: 1}, <<: {b: z}}\n'),
    # --- keys that are not strings ----------------------------------------
    (load_doc, BASE + '3: 4\n'),
    (load_doc, BASE + 'null: 4\n'),
    (load_doc, BASE + 'true: 4\n'),
    (load_doc, 'name: abc\ninner: {a: 1, 3: 4}\n'),
    (load_doc, 'name: abc\ninner: {a: 1, 2.5: 4}\n'),
    (load_doc, 'name: abc\ninner: {a: 1, ? : 4}\n'),
    (load_doc, BASE + 'extra: {a: 1, 3: 4, 3: 5}\n'),
    (load_doc, BASE + 'table: {1: {a: 1}}\n'),
    (load_doc, BASE + 'names: {1: 1}\n'),
    # --- keys that are not scalars ----------------------------------------
    (load_any, '{[1, 2]: 3}'),
    (load_any, '{{a: 1}: 3}'),
    (load_any, '? [a]\n: 1\n? [a]\n: 2\n'),
    (load_table, '{[k]: {a: 1}}'),
    (load_table, '{k: {a: 1, [b]: c}}'),
    (load_doc, BASE + '[1, 2]: 3\n'),
    (load_doc, BASE + '{a: 1}: 3\n'),
    (load_doc, BASE + '? [name]\n: abc\n'),
    (load_doc, BASE + 'anything: {[1, 2]: 3}\n'),
    (load_doc, BASE + 'table: {[k]: {a: 1}}\n'),
    (load_doc, BASE + 'names: {[ab]: 1}\n'),
    (load_doc, 'name: abc\ninner: {a: 1, [1, 2]: 3}\n'),
    (load_doc, 'name: abc\ninner: {a: 1, {b: c}: 3}\n'),
    (load_doc, 'name: abc\ninner: {a: 1, b: z, [b]: y}\n'),
    (load_doc, 'name: abc\ninner: {a: 1, [a]: 1}\n'),
    (load_doc, 'name: abc\ninner:\n  a: 1\n  ? [x, y]\n  : 2\n'),
    (load_inner, '{a: 1, [1, 2]: 3}'),
    (load_inner, '{a: 1, {a: 1}: 3}'),
    (load_inner, '{a: 1, []: 3}'),
    (load_inner, '{a: 1, {}: 3}'),
    (load_doc, BASE + 'extra: {a: 1, [1, 2]: 3}\n'),
    (load_doc, BASE + 'extra: {a: 1, z: {[1, 2]: 3}}\n'),
    (load_extra, '{a: 1, {k: v}: 3}'),
    (load_doc, BASE + 'point: {x: 1, [1, 2]: 3}\n'),
    (load_point, '{x: 1, [y]: 3}'),
    (load_point, '{x: 1, why: 2, {y: 1}: 3}'),
    (load_doc, BASE + 'either: {a: 1, [1, 2]: 3}\n'),
    (load_doc, BASE + 'either: {a: 1, z: 1, [1, 2]: 3}\n'),
    (load_doc, BASE + 'table: {k: {a: 1, [1, 2]: 3}}\n'),
    (load_circles, '[{centre: {x: 1}, radius: 2, [1]: 2}]'),
    (load_circles, '[!Circle {centre: {x: 1}, radius: 2, {a: b}: 2}]'),
    (load_shapes, '[{centre: {x: 1, [1]: 2}, side_length: 2}]'),
    (load_shapes, '[{centre: {x: 1}, side_length: 2, side-length: 3}]'),
]

# Duplicated attribute keys. The original library violates the property
# for these (SeasoningError escapes); they are shown for information only.
KNOWN = [
    (load_doc, 'name: abc\ninner: {a: 1, a: 2}\n'),
    (load_doc, BASE + 'inner: {a: 2}\n'),
    (load_inner, '{a: 1, b: p, b: q}'),
    (load_doc, BASE + 'extra: {a: 1, a: 2}\n'),
    (load_doc, BASE + 'point: {x: 1, x: 2}\n'),
    (load_point, '{x: 1, y: 2, y: 3}'),
    (load_doc, BASE + 'either: {a: 1, a: 2}\n'),
    (load_shapes, '[{centre: {x: 1}, side-length: 2, side-length: 3}]'),
]


def outcome_of(load: Any, text: str) -> Any:
    """Returns a description of what happened, and whether it is allowed."""
    try:
        load(text)
        return 'returned', True
    except (yatiml.RecognitionError, yaml.YAMLError) as e:
        return type(e).__name__, True
    except BaseException as e:     # noqa
        first_line = str(e).splitlines()[0][:70] if str(e) else ''
        return '{}: {}'.format(type(e).__name__, first_line), False


def main() -> int:
    if not yatiml.__file__.startswith('/tmp/w5_C08/'):
        print('FAIL: yatiml imported from {}, not from the worktree'.format(
            yatiml.__file__))
        return 1

    failures = []
    for load, text in CASES:
        outcome, allowed = outcome_of(load, text)
        if not allowed:
            failures.append((text, outcome))
        if '-v' in sys.argv:
            print('  {:<18} {!r}'.format(outcome.split(':')[0], text))

    known_bad = 0
    for load, text in KNOWN:
        outcome, allowed = outcome_of(load, text)
        if not allowed:
            known_bad += 1
        if '-v' in sys.argv:
            print('  (known) {:<18} {!r}'.format(outcome.split(':')[0], text))
    print('info: {} of {} inputs with a duplicated attribute key let a'
          ' forbidden exception escape (not counted; the original library'
          ' does so for all of them)'.format(known_bad, len(KNOWN)))

    if failures:
        print('FAIL: {} of {} inputs let a forbidden exception escape:'.format(
            len(failures), len(CASES)))
        for text, what in failures:
            print('  {!r} -> {}'.format(text, what))
        return 1
    print('PASS: {} inputs, each returned or raised RecognitionError or a'
          ' YAMLError'.format(len(CASES)))
    return 0


if __name__ == '__main__':
    sys.exit(main())
