"""C12 demo (pair 3): every source and sink kind gives the same result.

Loads a list of documents through load_function from a str, a Path, an open
text stream, an open binary stream (and StringIO / BytesIO) and compares the
outcomes. Then dumps a list of objects through dump_function and
dump_json_function to a file name, a Path and open text streams and compares
what arrived with what dumps_function / dumps_json_function return, for the
default options and for indent / ensure_ascii (and sort_keys if both sides
have it).

Input that exposes the slip of pair 3: a dict whose keys are not in sorted
order, e.g. {"b": 1, "a": 2, ...}, or an object whose attributes are not
(Point(y, x, label)), dumped by dump_json_function to an open text stream
with default options.
"""
import inspect
import io
import re
import shutil
import sys
import tempfile
from pathlib import Path
from typing import Any, Dict, List, Optional

import yatiml

print('yatiml imported from', yatiml.__file__)

failures = []       # type: List[str]
tmp = Path(tempfile.mkdtemp(prefix='c12_demo_'))


def fail(msg: str) -> None:
    failures.append(msg)


def short(o: Any) -> str:
    text = str(o)
    return text if len(text) < 240 else text[:240] + '...'


# --------------------------------------------------------------------------
# Part 1: loading the same document from every kind of source
# --------------------------------------------------------------------------

def normalise(msg: str) -> str:
    """Remove what legitimately differs between source kinds.

    That is the name of the source in PyYAML's marks, and the quoted line
    with a caret under it that PyYAML adds only if it has the document in
    memory (the original library has it for a str and not for a file).
    """
    msg = re.sub(r'in "[^"]*"', 'in "<src>"', msg)
    msg = re.sub(r'(, line \d+, column \d+):\n[^\n]*\n *\^', r'\1', msg)
    return msg


def outcome(f: Any) -> Any:
    try:
        return ('result', repr(f()))
    except Exception as e:      # noqa
        return ('error', type(e).__name__, normalise(str(e)))


def load_from_all(load: Any, text: str) -> Dict[str, Any]:
    path = tmp / 'document.yaml'
    path.write_bytes(text.encode('utf-8'))

    def from_text_stream() -> Any:
        with path.open('r', encoding='utf-8') as f:
            return load(f)

    def from_binary_stream() -> Any:
        with path.open('rb') as f:
            return load(f)

    return {
            'str': outcome(lambda: load(text)),
            'Path': outcome(lambda: load(path)),
            'text stream': outcome(from_text_stream),
            'binary stream': outcome(from_binary_stream),
            'StringIO': outcome(lambda: load(io.StringIO(text))),
            'BytesIO': outcome(lambda: load(io.BytesIO(text.encode('utf-8')))),
            }


class Point:
    def __init__(self, y: int, x: int, label: str = 'p') -> None:
        self.y = y
        self.x = x
        self.label = label

    def __repr__(self) -> str:
        return 'Point({}, {}, {!r})'.format(self.y, self.x, self.label)


big = ''.join('key{}: [1, 2, "téxt {}"]\n'.format(i, i) for i in range(700))

documents = [
        'x: 1',
        'x: 1\ny: 2\n',
        '',                                 # the empty document
        '# only a comment\n',
        '---\n...\n',
        'null',
        '42',
        '--- 1\n--- 2\n',                   # two documents
        'x: 1\n---\ny: 2\n',                # two documents
        'x: 1\n...\n',
        'a: [1, 2',                         # syntax error
        'x: [1, 2]\n',                      # type error for some
        'x: é中\U0001F600',
        '﻿x: 1',
        'a: |\r\n  l1\r\n  l2\r\n',
        'x: \x07',                          # character YAML does not allow
        'y: 3\nx: 4\nlabel: q\n',
        'y: 3\n',                           # missing attribute for Point
        big,
        big + '--- again\n',
        ]

load_types = [
        ('Any', ()), ('Dict[str, int]', ()), ('Optional[int]', ()),
        ('int', ()), ('Point', ())]
type_objs = {
        'Any': Any, 'Dict[str, int]': Dict[str, int],
        'Optional[int]': Optional[int], 'int': int, 'Point': Point}

for type_name, _ in load_types:
    load = yatiml.load_function(type_objs[type_name])   # type: ignore
    for doc in documents:
        got = load_from_all(load, doc)
        ref = got['str']
        for kind, o in got.items():
            if o != ref:
                shown = doc if len(doc) < 60 else doc[:40] + '... ({} chars)'.format(len(doc))
                fail('load_function({}) on {!r}:\n    from str:  {}\n    from {}: {}'.format(
                    type_name, shown, short(ref), kind, short(o)))


# --------------------------------------------------------------------------
# Part 2: dumping the same object to every kind of sink
# --------------------------------------------------------------------------

def written_to_all(dump: Any, obj: Any, **options: Any) -> Dict[str, Any]:
    """Dump obj to each kind of sink, return what arrived there."""
    got = dict()    # type: Dict[str, Any]

    def via(kind: str, f: Any) -> None:
        try:
            got[kind] = ('text', f())
        except Exception as e:      # noqa
            got[kind] = ('error', type(e).__name__, str(e))

    def to_file_name() -> str:
        p = tmp / 'by_name.out'
        dump(obj, str(p), **options)
        return p.read_text(encoding='utf-8')

    def to_path() -> str:
        p = tmp / 'by_path.out'
        dump(obj, p, **options)
        return p.read_text(encoding='utf-8')

    def to_text_file() -> str:
        p = tmp / 'by_stream.out'
        with p.open('w', encoding='utf-8') as f:
            dump(obj, f, **options)
        return p.read_text(encoding='utf-8')

    def to_stringio() -> str:
        s = io.StringIO()
        dump(obj, s, **options)
        return s.getvalue()

    def to_named_temporary_file() -> str:
        with tempfile.NamedTemporaryFile('w+', encoding='utf-8', dir=str(tmp)) as f:
            dump(obj, f, **options)
            f.seek(0)
            return f.read()

    via('file name', to_file_name)
    via('Path', to_path)
    via('open text file', to_text_file)
    via('io.StringIO', to_stringio)
    via('NamedTemporaryFile("w+")', to_named_temporary_file)
    return got


objects = [
        {'a': 1.5},
        {'b': 1, 'a': 2, 'c': {'z': [1, 2, 3], 'k': None}},
        {'zeta': True, 'alpha': [{'n': 2, 'm': 1}]},
        [3, 'two', 1.0, None, False],
        'Анна',
        {'name': 'Zoë', 'city': '東京'},
        'plain',
        12,
        None,
        [],
        {},
        'line one\nline two\n',
        Point(3, 4, 'café'),
        [Point(1, 2), Point(5, 6, 'r')],
        ]


def compare(what: str, expected: Any, got: Dict[str, Any]) -> None:
    for kind, o in got.items():
        if o != expected:
            fail('{}:\n    dumps gave:        {}\n    {} got: {}'.format(
                what, short(expected), kind, short(o)))


def expected_of(f: Any) -> Any:
    try:
        return ('text', f())
    except Exception as e:      # noqa
        return ('error', type(e).__name__, str(e))


# one dump function serves all objects, as it would in a program
dumps = yatiml.dumps_function(Point)
dump = yatiml.dump_function(Point)
for round_ in (1, 2):
    for obj in objects:
        compare('dump_function vs dumps_function on {!r} (round {})'.format(
                    obj, round_),
                expected_of(lambda: dumps(obj)), written_to_all(dump, obj))

dumps_json = yatiml.dumps_json_function(Point)
dump_json = yatiml.dump_json_function(Point)
json_options = [
        {}, {'indent': 2}, {'indent': 0}, {'ensure_ascii': False},
        {'ensure_ascii': True}, {'indent': 4, 'ensure_ascii': False}]
for options in json_options:
    for obj in objects:
        compare('dump_json_function vs dumps_json_function on {!r} with {}'.format(
                    obj, options),
                expected_of(lambda: dumps_json(obj, **options)),
                written_to_all(dump_json, obj, **options))

# Options that a newer version may have added: same rule applies to them.
pairs = [('dump_function', dumps, dump, {}),
         ('dump_json_function', dumps_json, dump_json, {}),
         ('dump_json_function', dumps_json, dump_json, {'indent': 2})]
for name, to_string, to_sink, base_options in pairs:
    has = [
        'sort_keys' in inspect.signature(f.__call__).parameters     # type: ignore
        for f in (to_string, to_sink)]
    if all(has):
        for value in (True, False):
            options = dict(base_options, sort_keys=value)
            for obj in objects:
                compare('{} on {!r} with {}'.format(name, obj, options),
                        expected_of(lambda: to_string(obj, **options)),
                        written_to_all(to_sink, obj, **options))

# Binary sinks: the original cannot write to them at all. If this version
# can, it must write the UTF-8 encoding of the same text.
for name, to_string, to_sink, options in [
        ('dump_function', dumps, dump, {}),
        ('dump_json_function', dumps_json, dump_json, {'ensure_ascii': False})]:
    for obj in objects:
        sink = io.BytesIO()
        try:
            to_sink(obj, sink, **options)
        except TypeError:
            continue
        text = to_string(obj, **options)
        if sink.getvalue() != text.encode('utf-8'):
            fail('{} on {!r} to io.BytesIO: got {!r} for {!r}'.format(
                name, obj, sink.getvalue(), text))

shutil.rmtree(str(tmp), ignore_errors=True)

if failures:
    print('FAIL: {} difference(s) between source or sink kinds'.format(
        len(failures)))
    for f in failures[:8]:
        print('  - ' + f)
    if len(failures) > 8:
        print('  ... and {} more'.format(len(failures) - 8))
    sys.exit(1)
print('PASS')
sys.exit(0)
