"""C04 demonstration for pair 1 (libyaml parser as base of yatiml.Loader).

Checks the property statement on concrete documents: tags under Any-typed,
untyped and extra positions are ignored and give plain data, user
constructors only run where the declared type admits the class and only with
checked arguments, and nothing a document names is imported or called.

The slip in bad.diff (yaml.CLoader instead of yaml.CSafeLoader) is exposed by
section 2: a *scalar* carrying a !!python/module:, !!python/name: or
!!python/object: tag in an Any / untyped / extra position. yatiml leaves
tag:yaml.org,2002:* tags on scalars alone when it strips tags, which is
harmless on a safe loader (it refuses them) and an import on an unsafe one.

Run: cd /tmp/w5_C04 && PYTHONPATH=/tmp/w5_C04 /venv/bin/python demo.py
"""
import collections
import datetime
import enum
import os
import shutil
import sys
import tempfile
from collections import OrderedDict, UserString
from typing import Any, Dict, List, Optional, Union

import yatiml

print('yatiml imported from', yatiml.__file__)

failures = []           # type: List[str]
constructed = []        # type: List[Any]   every user constructor that ran


def fail(case: str, what: str) -> None:
    failures.append('{}: {}'.format(case, what))


# --- a module that only a document could name -------------------------------
canary_dir = tempfile.mkdtemp(prefix='c04_canary_')
with open(os.path.join(canary_dir, 'c04_canary.py'), 'w') as f:
    f.write(
        'import builtins\n'
        'builtins._c04_canary = getattr(builtins, "_c04_canary", [])\n'
        'builtins._c04_canary.append("imported")\n'
        'def boom(*args, **kwargs):\n'
        '    builtins._c04_canary.append("called")\n'
        'class Thing:\n'
        '    def __new__(cls, *args, **kwargs):\n'
        '        builtins._c04_canary.append("instantiated")\n'
        '        return object.__new__(cls)\n')
sys.path.insert(0, canary_dir)


def canary_state() -> List[str]:
    import builtins
    state = list(getattr(builtins, '_c04_canary', []))
    if 'c04_canary' in sys.modules:
        state.append('in sys.modules')
    return state


# --- the type model ----------------------------------------------------------
class Foo:
    def __init__(self, v: int) -> None:
        constructed.append(('Foo', v))
        self.v = v


class Bar:
    def __init__(self, w: str) -> None:
        constructed.append(('Bar', w))
        self.w = w


class Base:
    def __init__(self, x: int) -> None:
        constructed.append(('Base', x))
        self.x = x


class Derived(Base):
    def __init__(self, x: int, y: int = 0) -> None:
        constructed.append(('Derived', x, y))
        self.x = x
        self.y = y


class Label(UserString):
    def __init__(self, seq: Any) -> None:
        constructed.append(('Label', str(seq)))
        super().__init__(seq)


class Color(enum.Enum):
    red = 1
    green = 2


class Holder:
    def __init__(
            self, typed: Foo, anything: Any = None, untyped=None,
            many: Optional[List[Foo]] = None,
            label: Optional[Label] = None) -> None:
        constructed.append(('Holder',))
        self.typed = typed
        self.anything = anything
        self.untyped = untyped
        self.many = many
        self.label = label


class Ext:
    def __init__(self, n: int, _yatiml_extra: OrderedDict) -> None:
        constructed.append(('Ext', n))
        self.n = n
        self.extra = _yatiml_extra


class Plugin:
    """Extra attributes, plus parameters a document cannot fill in."""
    def __init__(
            self, name: str, _yatiml_extra: OrderedDict, *rest: Any,
            registry: Any = None, **options: Any) -> None:
        constructed.append(('Plugin', name))
        self.name = name
        self.extra = _yatiml_extra
        self.rest = rest
        self.registry = registry
        self.options = options


class Strict:
    """No extra attributes, and a parameter a document cannot fill in."""
    def __init__(self, name: str, *, hook: Any = None) -> None:
        constructed.append(('Strict', name))
        self.name = name
        self.hook = hook


class WantsDerived:
    def __init__(self, d: Derived) -> None:
        constructed.append(('WantsDerived',))
        self.d = d


ALL = [Foo, Bar, Base, Derived, Label, Color, Holder, Ext, Plugin, Strict,
       WantsDerived]
USER_TYPES = tuple(ALL)

PLAIN = (dict, OrderedDict, list, str, int, float, bool, type(None),
         datetime.date, datetime.datetime, bytes)


def not_plain(data: Any, path: str = '$') -> List[str]:
    """Returns a description of everything in data that is not plain."""
    if type(data) not in PLAIN:
        return ['{} is a {!r}'.format(path, type(data))]
    found = []     # type: List[str]
    if isinstance(data, dict):
        for k, v in data.items():
            found += not_plain(k, path + '.<key>')
            found += not_plain(v, '{}.{}'.format(path, k))
    elif isinstance(data, list):
        for i, v in enumerate(data):
            found += not_plain(v, '{}[{}]'.format(path, i))
    return found


def attempt(load: Any, text: str) -> Any:
    """Loads text, returns (True, data) or (False, exception)."""
    del constructed[:]
    try:
        return True, load(text)
    except Exception as e:      # noqa: any refusal is fine, we look at effects
        return False, e


def ran(*names: str) -> List[Any]:
    return [c for c in constructed if c[0] in names]


def check_canary(case: str) -> None:
    state = canary_state()
    if state:
        fail(case, 'the document got c04_canary {}'.format(state))
        import builtins
        builtins._c04_canary = []
        sys.modules.pop('c04_canary', None)


load_holder = yatiml.load_function(Holder, *ALL)
load_ext = yatiml.load_function(Ext, *ALL)
load_plugin = yatiml.load_function(Plugin, *ALL)
load_strict = yatiml.load_function(Strict, *ALL)
load_any = yatiml.load_function(Any, *ALL)      # type: ignore
load_default = yatiml.load_function()
load_anydict = yatiml.load_function(Dict[str, Any], *ALL)   # type: ignore
load_derived = yatiml.load_function(Derived, *ALL)
load_wants = yatiml.load_function(WantsDerived, *ALL)
load_foos = yatiml.load_function(List[Foo], *ALL)       # type: ignore
load_union = yatiml.load_function(      # type: ignore
        Union[Derived, Bar], *ALL)


# === 1. Any, untyped and extra positions yield plain data, tags ignored =====
TAGGED = [
    '!Foo {v: 1}',
    '!Bar {w: x}',
    '[!Foo {v: 1}, {deep: !Derived {x: 1, y: 2}}]',
    '{k: !Holder {typed: !Foo {v: 1}}}',
    '!Label text',
    '!Color red',
    '[!Label text, !Color green, !Path /tmp]',
    '!!python/object/apply:c04_canary.boom [1]',
    '!!python/object/apply:c04_canary.boom {args: [1]}',
    '!!python/object/new:c04_canary.Thing [1]',
    '!!python/object:c04_canary.Thing {a: 1}',
    '!!python/tuple [1, 2]',
    '{k: !!python/object/apply:os.getcwd []}',
    ]

for tagged in TAGGED:
    positions = [
        ('Any attribute', load_holder,
            'typed: {{v: 1}}\nanything: {}\n'.format(tagged),
            lambda d: d.anything),
        ('untyped parameter', load_holder,
            'typed: {{v: 1}}\nuntyped: {}\n'.format(tagged),
            lambda d: d.untyped),
        ('extra attribute', load_ext,
            'n: 1\nsurplus: {}\n'.format(tagged),
            lambda d: d.extra),
        ('extra attribute of Plugin', load_plugin,
            'name: p\nsurplus: {}\n'.format(tagged),
            lambda d: d.extra),
        ('Any document', load_any, tagged, lambda d: d),
        ('default document', load_default, tagged, lambda d: d),
        ('Dict[str, Any] value', load_anydict,
            'k: {}\n'.format(tagged), lambda d: d),
        ]
    for where, load, text, get in positions:
        case = '{} <- {}'.format(where, tagged)
        ok, data = attempt(load, text)
        if not ok:
            fail(case, 'tags were not ignored, load failed: {!r}'.format(
                data))
        else:
            bad = not_plain(get(data))
            if bad:
                fail(case, 'not plain data: {}'.format('; '.join(bad)))
        extra_ctor = ran('Foo', 'Bar', 'Base', 'Derived', 'Label')
        expected = [('Foo', 1)] if load is load_holder else []
        if extra_ctor != expected:
            fail(case, 'constructors ran: {}'.format(extra_ctor))
        check_canary(case)

# === 2. tags on scalars that name Python things =============================
# Whatever the library makes of these (the original refuses some of them),
# nothing they name may be imported, looked up, instantiated or called.
PYTHON_SCALARS = [
    '!!python/module:c04_canary ""',
    '!!python/name:c04_canary.boom ""',
    '!!python/object:c04_canary.Thing ""',
    '!!python/object/new:c04_canary.Thing ""',
    '!!python/object/apply:c04_canary.boom ""',
    '!!python/name:os.system ""',
    ]
for tagged in PYTHON_SCALARS:
    positions2 = [
        ('Any attribute', load_holder,
            'typed: {{v: 1}}\nanything: {}\n'.format(tagged),
            lambda d: d.anything),
        ('untyped parameter', load_holder,
            'typed: {{v: 1}}\nuntyped: [{}]\n'.format(tagged),
            lambda d: d.untyped),
        ('extra attribute', load_ext,
            'n: 1\nsurplus: {{deep: {}}}\n'.format(tagged),
            lambda d: d.extra),
        ('default document', load_default, tagged, lambda d: d),
        ('typed attribute', load_holder,
            'typed: {{v: {}}}\n'.format(tagged), lambda d: None),
        ]
    for where, load, text, get in positions2:
        case = '{} <- {}'.format(where, tagged)
        ok, data = attempt(load, text)
        if ok:
            bad = not_plain(get(data))
            if bad:
                fail(case, 'not plain data: {}'.format('; '.join(bad)))
        check_canary(case)

# === 3. constructors run only where the declared type admits the class ======
# and only with arguments that passed the type check
ok, data = attempt(load_holder, 'typed: {v: 3}\nmany: [{v: 4}, !Foo {v: 5}]\n')
if not ok or not isinstance(data.typed, Foo) or len(data.many) != 2:
    fail('well-typed Holder', 'did not load: {!r}'.format(data))
if sorted(ran('Foo')) != [('Foo', 3), ('Foo', 4), ('Foo', 5)]:
    fail('well-typed Holder', 'constructors ran: {}'.format(constructed))

REFUSED = [
    ('Bar tag where a Foo goes', load_holder, 'typed: !Bar {w: x}\n'),
    ('Bar content where a Foo goes', load_holder, 'typed: {w: x}\n'),
    ('Holder tag where a Foo goes', load_holder,
        'typed: !Holder {typed: {v: 1}}\n'),
    ('str where Foo wants an int', load_holder, 'typed: {v: one}\n'),
    ('float where Foo wants an int', load_holder, 'typed: !Foo {v: 1.5}\n'),
    ('Foo where Foo wants an int', load_holder, 'typed: {v: !Foo {v: 1}}\n'),
    ('Bar in a list of Foo', load_foos, '[{v: 1}, !Bar {w: x}]\n'),
    ('unknown key on Foo', load_holder, 'typed: {v: 1, z: !Bar {w: x}}\n'),
    ('unknown key on Holder', load_holder,
        'typed: {v: 1}\nzzz: !Bar {w: x}\n'),
    ('Label tag on a mapping', load_holder,
        'typed: {v: 1}\nlabel: !Label {a: 1}\n'),
    ]
for case, load, text in REFUSED:
    ok, data = attempt(load, text)
    if ok:
        fail(case, 'was accepted: {!r}'.format(data))
    if ran('Bar', 'Label') or ran('Holder'):
        fail(case, 'constructors ran: {}'.format(constructed))
    for c in ran('Foo'):
        if type(c[1]) is not int:
            fail(case, 'Foo got an unchecked argument: {!r}'.format(c))
    check_canary(case)

# a tag can pick a class, but only one that the position's type admits
ok, data = attempt(load_wants, 'd: !Derived {x: 1}\n')
if not ok or type(data.d) is not Derived:
    fail('Derived tag where a Derived goes', 'got {!r}'.format(data))

BASE_WHERE_DERIVED = [
    ('Base tag on a Derived attribute', load_wants, 'd: !Base {x: 1}\n'),
    ('Base tag on a Derived attribute, with y', load_wants,
        'd: !Base {x: 1, y: 2}\n'),
    ('Base tag on a Derived document', load_derived, '!Base {x: 1}\n'),
    ('Base tag on a Union[Derived, Bar] document', load_union,
        '!Base {x: 1}\n'),
    ('Foo tag on a Derived document', load_derived, '!Foo {x: 1}\n'),
    ]
for case, load, text in BASE_WHERE_DERIVED:
    ok, data = attempt(load, text)
    if ran('Base', 'Foo'):
        fail(case, 'a class the type does not admit was constructed: {}'
             .format(constructed))
    if ok:
        got = data.d if isinstance(data, WantsDerived) else data
        if not isinstance(got, Derived):
            fail(case, 'produced a {!r}'.format(type(got)))

# === 4. parameters that are not attributes are extra attributes too ========
# Plugin.__init__ has *rest, a keyword-only registry and **options; the
# loader never fills those in, so keys of that name are extra attributes.
for key in ['registry', 'options', 'rest', 'self', 'surplus']:
    case = 'Plugin key {!r}'.format(key)
    text = 'name: p\n{}: !Foo {{v: 1}}\n'.format(key)
    ok, data = attempt(load_plugin, text)
    if ran('Foo', 'Bar'):
        fail(case, 'constructors ran: {}'.format(constructed))
    if ok:
        bad = (not_plain(data.extra) + not_plain(list(data.rest), '$rest')
               + not_plain(data.registry, '$registry')
               + not_plain(data.options, '$options'))
        if bad:
            fail(case, 'not plain data: {}'.format('; '.join(bad)))
    elif key != 'self':
        fail(case, 'extra attribute refused: {!r}'.format(data))
    check_canary(case)

# Strict does not take extra attributes, so a key 'hook' is refused, and
# refusing it must not construct what its tag names first
ok, data = attempt(load_strict, 'name: s\nhook: !Foo {v: 1}\n')
if ran('Foo', 'Bar'):
    fail('Strict key \'hook\'', 'constructors ran: {}'.format(constructed))
if ok and not_plain(data.hook):
    fail('Strict key \'hook\'', 'not plain data: {}'.format(
        '; '.join(not_plain(data.hook, '$hook'))))

shutil.rmtree(canary_dir, ignore_errors=True)

if failures:
    print('FAIL: {} violation(s) of C04'.format(len(failures)))
    for f_ in failures:
        print('  -', f_)
    sys.exit(1)
print('PASS')
sys.exit(0)
