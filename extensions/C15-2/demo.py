#!/usr/bin/env python3
"""Checks property C15 of yatiml on concrete inputs.

C15: the structural seasoning transforms of yatiml.Node are inverse pairs,
produce exactly the documented shape, and are no-ops when not applicable.

Prints PASS and exits 0 if every check holds, prints FAIL with the list of
broken checks and exits 1 otherwise.
"""
import sys

import yaml
import yatiml

FAILURES = []


# ---------------------------------------------------------------- plumbing

def plain(node):
    """yaml.Node -> comparable plain data (keeps order, keeps tags)."""
    if isinstance(node, yaml.ScalarNode):
        return ('scalar', node.tag.split(':')[-1], node.value)
    if isinstance(node, yaml.SequenceNode):
        return ('seq', [plain(n) for n in node.value])
    if isinstance(node, yaml.MappingNode):
        return ('map', [(k.value, plain(v)) for k, v in node.value])
    raise TypeError(node)


def strip_marks(node):
    """Nodes made while dumping have no marks; imitate that."""
    node.start_mark = None
    node.end_mark = None
    if isinstance(node, yaml.SequenceNode):
        for n in node.value:
            strip_marks(n)
    elif isinstance(node, yaml.MappingNode):
        for k, v in node.value:
            strip_marks(k)
            strip_marks(v)
    return node


def make(text, marks=True):
    node = yaml.compose(text)
    if not marks:
        strip_marks(node)
    return yatiml.Node(node)


def S(value, tag='str'):
    return ('scalar', tag, value)


def check(name, cond, detail=''):
    if not cond:
        FAILURES.append('{}{}'.format(name, ': ' + detail if detail else ''))


def run(name, func):
    """Runs func, returns (exception or None)."""
    try:
        func()
        return None
    except Exception as e:      # noqa
        return e


# ------------------------------------------- independent model of the docs

def model_seq_to_map(items, key, val):
    out = []
    for kind, pairs in items:
        rest = [(n, v) for n, v in pairs if n != key]
        kv = dict(pairs)[key][2]
        if val is not None and len(rest) == 1 and rest[0][0] == val:
            out.append((kv, rest[0][1]))
        else:
            out.append((kv, ('map', rest)))
    return ('map', out)


def model_index_to_map(entries, key, val):
    out = []
    for name, (kind, pairs) in entries:
        rest = [(n, v) for n, v in pairs if n != key]
        if val is not None and len(rest) == 1 and rest[0][0] == val:
            out.append((name, rest[0][1]))
        else:
            out.append((name, ('map', rest)))
    return ('map', out)


def model_map_to_seq(entries, key, val):
    out = []
    for name, value in entries:
        if value[0] == 'map':
            pairs = [(n, v) for n, v in value[1] if n != key]
        else:
            pairs = [(val, value)]
        out.append(('map', pairs + [(key, S(name))]))
    return ('seq', out)


def model_map_to_index(entries, key, val):
    out = []
    for name, value in entries:
        if value[0] == 'map':
            pairs = list(value[1])
        elif val is not None:
            pairs = [(val, value)]
        else:
            out.append((name, value))
            continue
        out.append((name, ('map', pairs + [(key, S(name))])))
    return ('map', out)


def same_up_to_key_position(a, b, key):
    """Compares two collections of items, ignoring where `key` sits."""
    def norm(item):
        kind, pairs = item
        keyv = [v for n, v in pairs if n == key]
        rest = [(n, v) for n, v in pairs if n != key]
        return (kind, keyv, rest)
    if a[0] != b[0] or len(a[1]) != len(b[1]):
        return False
    if a[0] == 'seq':
        return [norm(i) for i in a[1]] == [norm(i) for i in b[1]]
    return [(n, norm(i)) for n, i in a[1]] == [(n, norm(i)) for n, i in b[1]]


# ------------------------------------------------------------------ inputs

# sequences of mappings with unique string keys; every item has the value
# attribute whenever one is named, and it never holds a mapping
SEQ_CASES = [
    ('two items, key first',
     'items:\n- {id: a, price: 1.0}\n- {id: b, price: 2.0, sale: true}\n',
     'id', 'price'),
    ('key in the middle',
     'items:\n- {price: 1, id: a, tags: [x, y]}\n- {price: 2, id: b}\n',
     'id', 'price'),
    ('key last, no value attribute',
     'items:\n- {descr: one, n: 1, id: a}\n- {descr: two, id: b}\n',
     'id', None),
    ('only the key',
     'items:\n- {id: a}\n- {id: b}\n', 'id', None),
    ('single item, null value',
     'items:\n- {name: x-y_z, v: null}\n', 'name', 'v'),
    ('value attribute holds a sequence',
     'items:\n- {id: a, v: [1, 2]}\n- {id: b, v: [], w: 0}\n', 'id', 'v'),
    ('empty sequence', 'items: []\n', 'id', None),
    ('empty sequence, value attribute', 'items: []\n', 'id', 'price'),
    ('other attributes around',
     'first: 1\nitems:\n- {id: a, price: 1}\nlast: {id: q}\n', 'id', 'price'),
]

# mappings of mappings, inner key attribute equal to the outer key
INDEX_CASES = [
    ('three employees',
     'items:\n  Mary: {name: Mary, role: Director}\n'
     '  Vishnu: {name: Vishnu, role: Sales}\n'
     '  Susan: {role: Engineering, name: Susan, hours: 32}\n',
     'name', 'role'),
    ('no value attribute',
     'items:\n  a: {id: a, x: 1}\n  b: {y: 2, id: b, z: 3}\n', 'id', None),
    ('sole remaining key is not the value attribute',
     'items:\n  a: {id: a, x: 1}\n  b: {id: b, price: 2}\n', 'id', 'price'),
    ('sole remaining key is not the value attribute, single entry',
     'items:\n  a: {id: a, descr: widget}\n', 'id', 'price'),
    ('only the key', 'items:\n  a: {id: a}\n', 'id', 'price'),
    ('empty mapping', 'items: {}\n', 'id', None),
    ('empty mapping, value attribute', 'items: {}\n', 'id', 'price'),
]

# mappings as a user would write them for the savorize direction
MAP_CASES = [
    ('mappings only',
     'items:\n  a: {descr: one, price: 1.0}\n  b: {price: 2.0}\n',
     'id', None),
    ('short and long mixed',
     'items:\n  a: Basic widget\n  b: {descr: Premium widget, price: 2.0}\n',
     'id', 'descr'),
    ('all short', 'items:\n  a: 1\n  b: 2\n  c: null\n', 'id', 'n'),
    ('empty mapping', 'items: {}\n', 'id', None),
    ('empty mapping, value attribute', 'items: {}\n', 'id', 'price'),
]


def items_of(node):
    return plain(node.yaml_node)[1]


def attr(node, name='items'):
    return dict(plain(node.yaml_node)[1])[name]


def others(node, name='items'):
    return [(n, v) for n, v in plain(node.yaml_node)[1] if n != name]


# ------------------------------------------------------------------ checks

def check_seq_cases(marks):
    m = 'marks' if marks else 'no marks'
    for title, text, key, val in SEQ_CASES:
        label = 'seq [{}; {}]'.format(title, m)
        node = make(text, marks)
        orig = attr(node)
        rest = others(node)
        err = run(label, lambda: node.seq_attribute_to_map(
            'items', key, val))
        if err is not None:
            check(label + ' seq_attribute_to_map raised', False, repr(err))
            continue
        got = attr(node)
        want = model_seq_to_map(orig[1], key, val)
        check(label + ' seq_attribute_to_map shape', got == want,
              'got {} expected {}'.format(got, want))
        check(label + ' other attributes untouched', others(node) == rest)

        err = run(label, lambda: node.map_attribute_to_seq(
            'items', key, val))
        if err is not None:
            check(label + ' map_attribute_to_seq raised', False, repr(err))
            continue
        back = attr(node)
        check(label + ' round trip seq->map->seq',
              same_up_to_key_position(orig, back, key),
              'got {} expected {}'.format(back, orig))


def check_index_cases(marks):
    m = 'marks' if marks else 'no marks'
    for title, text, key, val in INDEX_CASES:
        label = 'index [{}; {}]'.format(title, m)
        node = make(text, marks)
        orig = attr(node)
        err = run(label, lambda: node.index_attribute_to_map(
            'items', key, val))
        if err is not None:
            check(label + ' index_attribute_to_map raised', False, repr(err))
            continue
        got = attr(node)
        want = model_index_to_map(orig[1], key, val)
        check(label + ' index_attribute_to_map shape', got == want,
              'got {} expected {}'.format(got, want))

        err = run(label, lambda: node.map_attribute_to_index(
            'items', key, val))
        if err is not None:
            check(label + ' map_attribute_to_index raised', False, repr(err))
            continue
        back = attr(node)
        check(label + ' round trip index->map->index',
              same_up_to_key_position(orig, back, key),
              'got {} expected {}'.format(back, orig))


def check_map_cases(marks):
    m = 'marks' if marks else 'no marks'
    for title, text, key, val in MAP_CASES:
        label = 'map [{}; {}]'.format(title, m)
        node = make(text, marks)
        orig = attr(node)
        node.map_attribute_to_seq('items', key, val)
        got = attr(node)
        want = model_map_to_seq(orig[1], key, val)
        check(label + ' map_attribute_to_seq shape', got == want,
              'got {} expected {}'.format(got, want))

        node = make(text, marks)
        node.map_attribute_to_index('items', key, val)
        got = attr(node)
        want = model_map_to_index(orig[1], key, val)
        check(label + ' map_attribute_to_index shape', got == want,
              'got {} expected {}'.format(got, want))


NOOP_TEXT = (
    'scalar: 42\n'
    'text: some words\n'
    'nothing: null\n'
    'seq: [{id: a, x: 1}, {id: b, x: 2}]\n'
    'map: {a: {id: a, x: 1}, b: {id: b, x: 2}}\n')


def check_noops(marks):
    m = 'marks' if marks else 'no marks'
    transforms = [
        ('seq_attribute_to_map', ['missing', 'scalar', 'text', 'nothing',
                                  'map']),
        ('map_attribute_to_seq', ['missing', 'scalar', 'text', 'nothing',
                                  'seq']),
        ('index_attribute_to_map', ['missing', 'scalar', 'text', 'nothing',
                                    'seq']),
        ('map_attribute_to_index', ['missing', 'scalar', 'text', 'nothing',
                                    'seq']),
    ]
    for name, attrs in transforms:
        for attribute in attrs:
            for val in (None, 'x'):
                label = 'no-op [{}({!r}, "id", {!r}); {}]'.format(
                    name, attribute, val, m)
                node = make(NOOP_TEXT, marks)
                before = plain(node.yaml_node)
                err = run(label, lambda: getattr(node, name)(
                    attribute, 'id', val))
                check(label + ' raised', err is None, repr(err))
                check(label + ' changed the node',
                      plain(node.yaml_node) == before)


DUP_CASES = [
    ('duplicate in second item',
     'items:\n- {id: a, x: 1}\n- {id: a, x: 2}\n', None),
    ('duplicate in third item',
     'items:\n- {id: a, x: 1}\n- {id: b, x: 2}\n- {x: 3, id: a}\n', None),
    ('duplicate, value attribute',
     'items:\n- {id: a, x: 1}\n- {id: b, x: 2}\n- {id: b, x: 3}\n', 'x'),
]


def check_duplicates(marks):
    m = 'marks' if marks else 'no marks'
    for title, text, val in DUP_CASES:
        label = 'duplicates [{}; {}]'.format(title, m)
        # strict (also the default): SeasoningError
        for kwargs in ({}, {'strict': True}):
            node = make(text, marks)
            err = run(label, lambda: node.seq_attribute_to_map(
                'items', 'id', val, **kwargs))
            check(label + ' strict {} raises SeasoningError'.format(kwargs),
                  isinstance(err, yatiml.SeasoningError), repr(err))
        # not strict: silently nothing
        node = make(text, marks)
        before = plain(node.yaml_node)
        err = run(label, lambda: node.seq_attribute_to_map(
            'items', 'id', val, strict=False))
        check(label + ' strict=False does not raise', err is None, repr(err))
        check(label + ' strict=False leaves node unchanged',
              plain(node.yaml_node) == before,
              'got {}'.format(plain(node.yaml_node)))
    # unique keys never raise, whatever strict says
    for strict in (True, False):
        node = make('items:\n- {id: a, x: 1}\n- {id: b, x: 1}\n', marks)
        err = run('unique', lambda: node.seq_attribute_to_map(
            'items', 'id', 'x', strict=strict))
        check('unique keys, strict={}: no error'.format(strict), err is None,
              repr(err))
        check('unique keys, strict={}: converted'.format(strict),
              attr(node) == ('map', [('a', S('1', 'int')),
                                     ('b', S('1', 'int'))]))


def check_dashes_unders(marks):
    m = 'marks' if marks else 'no marks'
    text = ('plain: 1\nwith-dash: 2\nmore-than-one-dash: 3\n'
            'nested: {in-ner: 1, in_ner2: 2}\n"": 4\n"-": 5\n')
    node = make(text, marks)
    before = plain(node.yaml_node)
    node.dashes_to_unders_in_keys()
    mid = plain(node.yaml_node)
    check('dashes_to_unders_in_keys result [{}]'.format(m),
          [n for n, _ in mid[1]] == ['plain', 'with_dash',
                                     'more_than_one_dash', 'nested', '', '_'],
          str([n for n, _ in mid[1]]))
    check('dashes_to_unders_in_keys leaves values alone [{}]'.format(m),
          [v for _, v in mid[1]] == [v for _, v in before[1]])
    node.unders_to_dashes_in_keys()
    check('dashes->unders->dashes restores [{}]'.format(m),
          plain(node.yaml_node) == before)

    text = ('plain: 1\nwith_under: 2\nmore_than_one_under: 3\n'
            'nested: {in-ner: 1, in_ner2: 2}\n_: 5\n')
    node = make(text, marks)
    before = plain(node.yaml_node)
    node.unders_to_dashes_in_keys()
    mid = plain(node.yaml_node)
    check('unders_to_dashes_in_keys result [{}]'.format(m),
          [n for n, _ in mid[1]] == ['plain', 'with-under',
                                     'more-than-one-under', 'nested', '-'],
          str([n for n, _ in mid[1]]))
    check('unders_to_dashes_in_keys leaves values alone [{}]'.format(m),
          [v for _, v in mid[1]] == [v for _, v in before[1]])
    node.dashes_to_unders_in_keys()
    check('unders->dashes->unders restores [{}]'.format(m),
          plain(node.yaml_node) == before)

    node = make('{}\n', marks)
    node.dashes_to_unders_in_keys()
    node.unders_to_dashes_in_keys()
    check('empty mapping stays empty [{}]'.format(m),
          plain(node.yaml_node) == ('map', []))


def main():
    print('yatiml imported from', yatiml.__file__)
    for marks in (True, False):
        check_seq_cases(marks)
        check_index_cases(marks)
        check_map_cases(marks)
        check_noops(marks)
        check_duplicates(marks)
        check_dashes_unders(marks)
    extra_checks()
    if FAILURES:
        print('FAIL: {} check(s) of property C15 do not hold:'.format(
            len(FAILURES)))
        for f in FAILURES:
            print('  - ' + f)
        sys.exit(1)
    print('PASS')
    sys.exit(0)


# ------------------------------------------- specific to this pair of diffs

def extra_checks():
    """An empty sequence is a sequence of mappings with unique keys too.

    seq_attribute_to_map has to give it the documented shape, a mapping,
    so that what is written for "no items" is the same kind of thing as
    what is written for some items, and so that the transform stays the
    inverse of map_attribute_to_seq on `items: {}`.
    """
    from typing import List

    for val in (None, 'price'):
        for strict in (True, False):
            for marks in (True, False):
                node = make('name: corner shop\nitems: []\nopen: true\n',
                            marks)
                err = run('empty', lambda: node.seq_attribute_to_map(
                    'items', 'id', val, strict))
                label = ('empty sequence, value_attribute={!r}, strict={},'
                         ' marks={}'.format(val, strict, marks))
                check(label + ': no error', err is None, repr(err))
                check(label + ': becomes an empty mapping',
                      attr(node) == ('map', []),
                      'got {}'.format(attr(node)))
                check(label + ': rest untouched',
                      [n for n, _ in others(node)] == ['name', 'open'])

                # and the other way around
                node = make('items: {}\n', marks)
                node.map_attribute_to_seq('items', 'id', val)
                node.seq_attribute_to_map('items', 'id', val, strict)
                check(label + ': map->seq->map restores {}',
                      attr(node) == ('map', []),
                      'got {}'.format(attr(node)))

    # a sequence of one and of many still work
    node = make('items:\n- {id: a, price: 1.0}\n')
    node.seq_attribute_to_map('items', 'id', 'price', False)
    check('one item', attr(node) == ('map', [('a', S('1.0', 'float'))]))

    # the same seen through a dump
    class Item:
        def __init__(self, id: str, price: float) -> None:
            self.id = id
            self.price = price

    class Shop:
        def __init__(self, items: List[Item]) -> None:
            self.items = items

        @classmethod
        def _yatiml_sweeten(cls, node: yatiml.Node) -> None:
            node.seq_attribute_to_map('items', 'id', 'price')

    dumps = yatiml.dumps_function(Shop, Item)
    text = dumps(Shop([Item('a', 1.0)]))
    check('dumping a shop with one item gives a mapping',
          yaml.safe_load(text) == {'items': {'a': 1.0}}, repr(text))
    text = dumps(Shop([]))
    check('dumping a shop with no items gives a mapping as well',
          yaml.safe_load(text) == {'items': {}}, 'got ' + repr(text))


if __name__ == '__main__':
    main()
