import enum
import io
import sys
import tempfile
from collections import OrderedDict, UserString
from pathlib import Path

import yaml
import yatiml

FAILURES = []


def fail(label, msg):
    FAILURES.append((label, msg))
    print('  FAIL [{}]: {}'.format(label, msg))


def explicit_tags(text):
    """Explicit tags in the text, found by PyYAML's scanner."""
    return [t.value for t in yaml.scan(text)
            if isinstance(t, yaml.TagToken)]


def ordered(value):
    """Order-sensitive form of a plain parsed document."""
    if isinstance(value, dict):
        return ('map', [(ordered(k), ordered(v)) for k, v in value.items()])
    if isinstance(value, (list, tuple)):
        return ('seq', [ordered(v) for v in value])
    return (type(value).__name__, value)


def freeze(obj, seen=None):
    """Deep snapshot of an object graph (types, attributes, order)."""
    if seen is None:
        seen = {}
    if id(obj) in seen:
        return ('ref', seen[id(obj)])
    if isinstance(obj, (str, int, float, bool, type(None), bytes)):
        return (type(obj).__name__, obj)
    if isinstance(obj, enum.Enum):
        return ('enum', type(obj).__name__, obj.name)
    if isinstance(obj, Path):
        return ('path', type(obj).__name__, str(obj))
    seen[id(obj)] = len(seen)
    if isinstance(obj, dict):
        return (type(obj).__name__,
                [(freeze(k, seen), freeze(v, seen)) for k, v in obj.items()])
    if isinstance(obj, (list, tuple)):
        return (type(obj).__name__, [freeze(v, seen) for v in obj])
    if isinstance(obj, UserString):
        return ('userstring', type(obj).__name__, obj.data,
                sorted(k for k in vars(obj) if k != 'data'))
    return ('object', type(obj).__name__,
            [(k, freeze(v, seen)) for k, v in vars(obj).items()])


def check_dump(label, dumps, obj, expected, repeats=3, may_refuse=False):
    """Checks the statement of C06 for one dump function and object.

    dumps: callable object -> text
    expected: the projection, as plain dicts/lists/scalars (order matters)
    may_refuse: a RuntimeError instead of a text is acceptable (C06 is
            about the text that is produced, if any)
    """
    before = freeze(obj)
    try:
        texts = [dumps(obj) for _ in range(repeats)]
    except Exception as e:      # noqa
        if may_refuse and type(e) is RuntimeError:
            print('  note [{}]: refused with RuntimeError: {}'.format(
                label, e))
            if freeze(obj) != before:
                fail(label, 'object graph was modified by refused dump')
        else:
            fail(label, 'dump raised {}: {}'.format(type(e).__name__, e))
        return
    after = freeze(obj)

    if before != after:
        fail(label, 'object graph was modified by dumping')
    for i, text in enumerate(texts[1:], 2):
        if text != texts[0]:
            fail(label, 'dump #{} differs from dump #1: {!r} versus {!r}'
                 .format(i, texts[0], text))
            break
    for i, text in enumerate(texts, 1):
        if i > 1 and text == texts[0]:
            continue
        try:
            docs = list(yaml.safe_load_all(text))
            tags = explicit_tags(text)
        except yaml.YAMLError as e:
            fail(label, 'dump #{} is not well-formed YAML: {!r}: {}'.format(
                i, text, str(e).replace('\n', ' ')))
            continue
        if len(docs) != 1:
            fail(label, 'dump #{} has {} documents'.format(i, len(docs)))
            continue
        if tags:
            fail(label, 'dump #{} has explicit tags {}'.format(i, tags))
        if ordered(docs[0]) != ordered(expected):
            fail(label, 'dump #{} is not the projection:\n   text     {!r}\n'
                 '   parsed   {!r}\n   expected {!r}'.format(
                     i, text, docs[0], expected))


def to_file(dump):
    """Makes a text-returning function of a dump-to-sink function."""
    def dumps(obj):
        with tempfile.TemporaryDirectory() as d:
            target = Path(d) / 'out.yaml'
            dump(obj, target)
            by_path = target.read_text()
            dump(obj, str(target))
            by_name = target.read_text()
            stream = io.StringIO()
            dump(obj, stream)
            if not (by_path == by_name == stream.getvalue()):
                raise RuntimeError('sinks disagree: {!r} {!r} {!r}'.format(
                    by_path, by_name, stream.getvalue()))
            return by_path
    return dumps


def finish():
    if FAILURES:
        print('FAIL: {} check(s) failed: {}'.format(
            len(FAILURES), sorted(set(label for label, _ in FAILURES))))
        sys.exit(1)
    print('PASS')
    sys.exit(0)


# ---------------------------------------------------------------- inputs
import warnings
import yatiml.dumper


class Plain(enum.Enum):
    red = 1
    no = 2
    crimson = 1     # alias of red


class Level(enum.IntEnum):
    low = 10
    high = 20


class Mode(str, enum.Enum):
    """An enum that is also a string, the usual JSON-friendly kind."""
    fast = 'f'
    safe = 's'


class Unit(enum.StrEnum):
    metre = 'm'
    second = 's'


class Shouting(enum.Enum):
    LOUD = 1

    @classmethod
    def _yatiml_sweeten(cls, node):
        node.set_value(node.get_value().lower())


class Label(UserString):
    pass


class Tagged(yatiml.String):
    def __init__(self, text):
        self.text = text

    def __str__(self):
        return 'tagged-' + self.text


class StrSub(str):
    pass


class Settings:
    def __init__(self, mode, unit, level, colour, label, others):
        self.mode = mode
        self.unit = unit
        self.level = level
        self.colour = colour
        self.label = label
        self.others = others


CLASSES = (
        Plain, Level, Mode, Unit, Shouting, Label, Tagged, StrSub, Settings)


def inputs():
    settings = Settings(
            Mode.safe, Unit.second, Level.high, Plain.no, Label('lbl'),
            {Mode.fast: [Unit.metre, Mode.fast], 'k': Tagged('t')})
    settings_p = {
            'mode': 'safe', 'unit': 'second', 'level': 'high',
            'colour': 'no', 'label': 'lbl',
            'others': {'fast': ['metre', 'fast'], 'k': 'tagged-t'}}
    return [
        ('enum', Plain.red, 'red'),
        ('enum-alias', Plain.crimson, 'red'),
        ('enum-looks-like-bool', Plain.no, 'no'),
        ('enum-sweetened', Shouting.LOUD, 'loud'),
        ('int-enum', Level.low, 'low'),
        ('str-enum-mixin', Mode.fast, 'fast'),
        ('str-enum', Unit.metre, 'metre'),
        ('list-of-enums', [Mode.safe, Unit.second, Plain.red, Mode.safe],
            ['safe', 'second', 'red', 'safe']),
        ('enum-keys', {Mode.safe: 1, Unit.metre: 2}, {'safe': 1, 'metre': 2}),
        ('user-string', Label('no'), 'no'),
        ('tagged-string', Tagged('x'), 'tagged-x'),
        ('str-subclass', StrSub('sub'), 'sub'),
        ('path', Path('/a/b c'), '/a/b c'),
        ('object', settings, settings_p),
        ]


def legacy_dumps(output_format):
    """A dumps function made with the old, deprecated API."""
    with warnings.catch_warnings():
        warnings.simplefilter('ignore', DeprecationWarning)

        class MyDumper(yatiml.dumper.Dumper):
            pass

        MyDumper.output_format = output_format
        yatiml.dumper.add_to_dumper(MyDumper, list(CLASSES))

    def dumps(obj):
        return yaml.dump(obj, Dumper=MyDumper)

    return dumps


def main():
    print('yatiml from', yatiml.__file__)
    functions = [
        ('dumps', yatiml.dumps_function(*CLASSES)),
        ('dump', to_file(yatiml.dump_function(*CLASSES))),
        ('dumps_json', yatiml.dumps_json_function(*CLASSES)),
        ('dump_json', to_file(yatiml.dump_json_function(*CLASSES))),
        ('legacy-yaml', legacy_dumps('yaml')),
        ('legacy-json', legacy_dumps('json')),
        ]
    for fname, function in functions:
        for label, obj, expected in inputs():
            check_dump('{}:{}'.format(fname, label), function, obj, expected)
    finish()


if __name__ == '__main__':
    main()
