#!/usr/bin/env python3
"""C13 demo 3: a load does not depend on the order of the keys of a mapping
that is loaded as a class, nor on block or flow style - also not if one of
the keys is a YAML merge key (<<).

Every group of documents below is one document written in different key
orders and styles; all members of a group must give the same outcome (an
equal value, or a failure). (The original library rejects merge keys in
typed mappings, whatever their position; that is consistent too.)

Exits 0 and prints PASS if so, exits 1 and prints FAIL otherwise.
"""
import enum
import itertools
import sys
from typing import Any, Dict, List, Mapping, Optional, Sequence, Union

import yatiml


class Base:
    def __eq__(self, other: object) -> bool:
        return type(other) is type(self) and vars(other) == vars(self)

    def __repr__(self) -> str:
        return '{}({})'.format(type(self).__name__, vars(self))


class Color(enum.Enum):
    red = 1
    green = 2


class Job(Base):
    def __init__(self, name: str, retries: int = 0,
                 color: Color = Color.red,
                 env: Optional[Dict[str, str]] = None) -> None:
        self.name = name
        self.retries = retries
        self.color = color
        self.env = env


class Pipeline(Base):
    def __init__(self, defaults: Job, jobs: List[Job]) -> None:
        self.defaults = defaults
        self.jobs = jobs


class PipelineAbstract(Base):
    def __init__(self, defaults: Job, jobs: Sequence[Job]) -> None:
        self.defaults = defaults
        self.jobs = jobs


class Unrelated(Base):
    def __init__(self, q: int) -> None:
        self.q = q


def outcome(load, text):
    try:
        return ('value', load(text))
    except Exception as e:      # noqa
        return ('failure', type(e).__name__)


def same(o1, o2) -> bool:
    if o1[0] != o2[0]:
        return False
    return o1[0] == 'failure' or o1[1] == o2[1]


failures = []


def check_group(what, load, texts):
    ref = outcome(load, texts[0])
    for text in texts[1:]:
        out = outcome(load, text)
        if not same(ref, out):
            failures.append(
                    '{}:\n    {!r}\n      -> {}\n    {!r}\n      -> {}'.format(
                        what, texts[0], ref, text, out))
            return


def orders(pairs, indent='', flow=False):
    """A mapping with the given (key, value text) pairs, in all orders."""
    for perm in itertools.permutations(pairs):
        if flow:
            yield '{' + ', '.join('{}: {}'.format(k, v) for k, v in perm) + '}'
        else:
            yield ''.join(
                    '{}{}: {}\n'.format(indent if i else '', k, v)
                    for i, (k, v) in enumerate(perm))


load_job = yatiml.load_function(Job, Color)
load_pipeline = yatiml.load_function(Pipeline, Job, Color)

# 1. plain mappings loaded as a class, every key order, block and flow
for pairs in (
        [('name', 'build'), ('retries', '2'), ('color', 'green')],
        [('name', 'build'), ('env', '{A: x, B: y}')],
        [('retries', '2'), ('color', 'green')],         # name is missing
        [('name', 'build'), ('retries', 'many')],       # wrong type
        ):
    check_group('key order', load_job,
                list(orders(pairs)) + list(orders(pairs, flow=True)))

# 2. a job that takes its attributes from the defaults with a merge key and
#    overrides some: the position of the << key must not matter
head = 'defaults: &d {name: default, retries: 3, color: green}\njobs:\n'
for pairs in (
        [('<<', '*d'), ('name', 'build')],              # exposes the slip
        [('<<', '*d'), ('name', 'build'), ('retries', '5')],
        [('<<', '*d')],
        [('<<', '*d'), ('env', '{A: x}')],
        [('<<', '*d'), ('name', '12')],                 # wrong type
        [('<<', '{retries: 4, color: green}'), ('name', 'build')],
        [('<<', '[{retries: 4}, *d]'), ('name', 'build')],
        ):
    texts = [head + '- ' + m for m in orders(pairs, indent='  ')]
    texts += [head + '- ' + m + '\n' for m in orders(pairs, flow=True)]
    check_group('key order with a merge key', load_pipeline, texts)

# 3. the same for the top-level mapping
base = '{retries: 3, color: green}'
for pairs in (
        [('<<', base), ('name', 'build')],
        [('<<', base), ('name', 'build'), ('retries', '5')],
        ):
    check_group('key order with a merge key, top level', load_job,
                list(orders(pairs)) + list(orders(pairs, flow=True)))

# 4. other invariances on a document with a merge key
doc = head + '- <<: *d\n  name: build\n- name: test\n  <<: *d\n'
variants = [
        ('Pipeline', load_pipeline),
        ('Pipeline plus an unrelated class',
            yatiml.load_function(Pipeline, Job, Color, Unrelated)),
        ]
ref = outcome(load_pipeline, doc)
out = outcome(variants[1][1], doc)
if not same(ref, out):
    failures.append('unrelated class registered: {} vs {}'.format(ref, out))
out = outcome(yatiml.load_function(PipelineAbstract, Job, Color), doc)
if ref[0] != out[0] or (
        ref[0] == 'value' and vars(ref[1]) != vars(out[1])):
    failures.append('List vs Sequence: {} vs {}'.format(ref, out))

# 5. untyped and dict loads (these were supported for merge keys before)
for load in (yatiml.load_function(),
             yatiml.load_function(Dict[str, Any]),          # type: ignore
             yatiml.load_function(Mapping[str, Any])):      # type: ignore
    check_group('merge key in a dict', load, [
        'a: &a {x: 1, y: 1}\nc:\n  <<: *a\n  y: 2\n',
        'a: &a {x: 1, y: 1}\nc:\n  y: 2\n  <<: *a\n',
        'a: &a {x: 1, y: 1}\nc: {<<: *a, y: 2}\n',
        '{a: &a {x: 1, y: 1}, c: {y: 2, <<: *a}}\n'])

if failures:
    print('FAIL: the outcome of a load changed although the document means'
          ' the same')
    for f in failures:
        print('  ' + f)
    sys.exit(1)
print('PASS')
