"""Demonstration for pair 1 (Constructor: inspect once, classify keys once).

Checks property C02 on concrete inputs: a document loads iff the documented
pipeline admits it, and the result equals the value obtained by calling the
constructors bottom-up, with the extra attributes arriving as an ordered
mapping of plain data in document order.

Run as
  cd /tmp/w5_C02 && PYTHONPATH=/tmp/w5_C02 /venv/bin/python demo.py
"""
import sys
from collections import OrderedDict
from typing import Any, Dict, List, Optional

import yatiml

print('yatiml imported from', yatiml.__file__)


class Rec:
    """Value semantics for the test classes."""
    def __eq__(self, other: Any) -> bool:
        return type(self) is type(other) and self.__dict__ == other.__dict__

    def __repr__(self) -> str:
        return '{}({})'.format(type(self).__name__, ', '.join(
            '{}={!r}'.format(k, v) for k, v in self.__dict__.items()))


class Plugin(Rec):
    """A class that takes extra attributes."""
    def __init__(
            self, name: str, enabled: bool = True,
            _yatiml_extra: Optional[OrderedDict] = None) -> None:
        self.name = name
        self.enabled = enabled
        self.extra = _yatiml_extra


class Point(Rec):
    """A class that does not take extra attributes."""
    def __init__(self, x: float, y: float = 0.0) -> None:
        self.x = x
        self.y = y


class Config(Rec):
    def __init__(self, origin: Point, plugins: List[Plugin]) -> None:
        self.origin = origin
        self.plugins = plugins


def od(*pairs: Any) -> OrderedDict:
    return OrderedDict(pairs)


failures = []   # type: List[str]


def same(got: Any, expected: Any) -> bool:
    """Equality that also looks at the order of extra attributes."""
    if got != expected:
        return False
    if isinstance(expected, Plugin):
        if not isinstance(got.extra, OrderedDict):
            return False
        return list(got.extra.items()) == list(expected.extra.items())
    if isinstance(expected, list):
        return all(same(g, e) for g, e in zip(got, expected))
    if isinstance(expected, dict):
        return (list(got.keys()) == list(expected.keys()) and all(
            same(got[k], expected[k]) for k in expected))
    if isinstance(expected, Config):
        return same(got.plugins, expected.plugins)
    return True


def check(name: str, load: Any, text: str, expected: Any) -> None:
    try:
        got = load(text)
    except yatiml.RecognitionError as e:
        if expected is yatiml.RecognitionError:
            return
        failures.append(
                '{}: expected {!r} but RecognitionError was raised: {}'.format(
                    name, expected, str(e).splitlines()[-1]))
        return
    except Exception as e:
        failures.append('{}: {} escaped: {}'.format(
            name, type(e).__name__, e))
        return
    if expected is yatiml.RecognitionError:
        failures.append(
                '{}: expected RecognitionError but got {!r}'.format(name, got))
    elif not same(got, expected):
        failures.append('{}: expected {!r} but got {!r}'.format(
            name, expected, got))


load_plugin = yatiml.load_function(Plugin)
load_point = yatiml.load_function(Point)
load_config = yatiml.load_function(Config, Point, Plugin)
load_plugins = yatiml.load_function(List[Plugin], Plugin)
load_plugin_map = yatiml.load_function(Dict[str, Plugin], Plugin)
load_points = yatiml.load_function(List[Point], Point)

# one object, extra attributes in document order, nested plain data
check('single object with extras', load_plugin,
      'zeta: 1\n'
      'name: a\n'
      'alpha: [1, two, {k: 3.0}]\n'
      'mid: {q: 1, p: 2}\n',
      Plugin('a', True, od(
          ('zeta', 1), ('alpha', [1, 'two', {'k': 3.0}]),
          ('mid', {'q': 1, 'p': 2}))))

check('single object, no extras', load_plugin,
      'name: a\nenabled: false\n', Plugin('a', False, od()))

check('extras are plain data', load_plugin,
      'name: a\nother: !Plugin {name: b}\n',
      Plugin('a', True, od(('other', {'name': 'b'}))))

# extras of objects that are attributes of another object
check('nested objects with extras', load_config,
      'origin: {x: 1.0}\n'
      'plugins:\n'
      '- {name: a, colour: red}\n'
      '- {name: b, enabled: false, size: 3, weight: 2.5}\n'
      '- {name: c}\n',
      Config(Point(1.0, 0.0), [
          Plugin('a', True, od(('colour', 'red'))),
          Plugin('b', False, od(('size', 3), ('weight', 2.5))),
          Plugin('c', True, od())]))

# the document itself is a list / a dict of objects with extras
check('list of objects, different extras', load_plugins,
      '- {name: a, colour: red}\n'
      '- {name: b, size: 3}\n',
      [Plugin('a', True, od(('colour', 'red'))),
       Plugin('b', True, od(('size', 3)))])

check('list of objects, last one without extras', load_plugins,
      '- {name: a, colour: red, size: 1}\n'
      '- {name: b}\n',
      [Plugin('a', True, od(('colour', 'red'), ('size', 1))),
       Plugin('b', True, od())])

check('list of objects, extras in different order', load_plugins,
      '- {size: 1, name: a, colour: red}\n'
      '- {colour: blue, name: b, size: 2}\n',
      [Plugin('a', True, od(('size', 1), ('colour', 'red'))),
       Plugin('b', True, od(('colour', 'blue'), ('size', 2)))])

check('dict of objects, different extras', load_plugin_map,
      'first: {name: a, colour: red}\n'
      'second: {name: b, enabled: false, size: 3}\n',
      {'first': Plugin('a', True, od(('colour', 'red'))),
       'second': Plugin('b', False, od(('size', 3)))})

# what the pipeline does not admit
check('unknown attribute without _yatiml_extra', load_point,
      'x: 1.0\nz: 2.0\n', yatiml.RecognitionError)
check('unknown attribute in a list item', load_points,
      '- {x: 1.0, z: 2.0}\n- {x: 1.0}\n', yatiml.RecognitionError)
check('missing required attribute', load_plugins,
      '- {name: a}\n- {colour: red}\n', yatiml.RecognitionError)
check('non-string key', load_plugin,
      'name: a\n1: b\n', yatiml.RecognitionError)
check('wrong type', load_plugins,
      '- {name: a, enabled: 1}\n', yatiml.RecognitionError)
check('list of points', load_points,
      '- {x: 1.0}\n- {x: 2.0, y: 3.0}\n', [Point(1.0, 0.0), Point(2.0, 3.0)])

if failures:
    print('FAIL')
    for failure in failures:
        print('  ' + failure)
    sys.exit(1)
print('PASS')
