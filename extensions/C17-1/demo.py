"""C17 demo for pair 1: unknown keys reported by the Constructor.

Checks, on concrete documents, that a RecognitionError cites a position
on the line of the corrupted node, of its key, or of the start of the
enclosing mapping, that an unknown or missing key is named, and that
every cited position lies inside the document.
"""
import enum
import re
import sys
from typing import Dict, List, Optional

import yatiml


class Color(enum.Enum):
    red = 1
    green = 2


class Point:
    def __init__(self, x: int, y: int, label: Optional[str] = None,
                 weight: float = 1.0) -> None:
        self.x, self.y, self.label, self.weight = x, y, label, weight


class Shape:
    def __init__(self, name: str, center: Point, color: Color,
                 tags: List[str], sizes: Dict[str, float],
                 note: Optional[str] = None) -> None:
        pass


class Drawing:
    def __init__(self, title: str, shapes: List[Shape],
                 scale: float = 1.0, author: Optional[str] = None) -> None:
        pass


load = yatiml.load_function(Drawing, Shape, Point, Color)

GOOD = '''\
title: Test
scale: 2.0
author: me
shapes:
  - name: a
    center:
      x: 1
      y: 2
    color: red
    tags: [p, q]
    sizes:
      w: 1.0
      h: 2.0
  - name: b
    center:
      x: 3
      y: 4
      label: hello
      weight: 2.5
    color: green
    note: second
    tags:
      - r
    sizes: {}
'''

POS = re.compile(r'line (\d+), column (\d+)')
failures = []


def line_of(doc: str, text: str) -> int:
    """1-based number of the first line containing text."""
    for i, line in enumerate(doc.splitlines()):
        if text in line:
            return i + 1
    raise AssertionError(text)


def check(desc, doc, allowed, names=()):
    nlines = len(doc.splitlines())
    try:
        load(doc)
    except yatiml.RecognitionError as e:
        msg = str(e)
    except Exception as e:     # noqa
        failures.append('{}: {} instead of RecognitionError: {}'.format(
            desc, type(e).__name__, e))
        return
    else:
        failures.append('{}: no error raised'.format(desc))
        return
    cited = [(int(li), int(co)) for li, co in POS.findall(msg)]
    if not cited:
        failures.append('{}: no position cited:\n{}'.format(desc, msg))
        return
    outside = [c for c in cited if not 1 <= c[0] <= nlines]
    if outside:
        failures.append('{}: cites {} outside the {}-line document'.format(
            desc, outside, nlines))
    if not any(li in allowed for li, _ in cited):
        failures.append(
                '{}: cites line(s) {} but the offending place is on one of'
                ' lines {}:\n{}'.format(
                    desc, sorted({li for li, _ in cited}), sorted(allowed),
                    msg))
    if cited[0][0] not in allowed:
        failures.append('{}: first position cited, line {}, is not one of'
                        ' {}'.format(desc, cited[0][0], sorted(allowed)))
    for name in names:
        if '"{}"'.format(name) not in msg:
            failures.append('{}: key "{}" is not named:\n{}'.format(
                desc, name, msg))


def corrupt(old, new):
    doc = GOOD.replace(old, new, 1)
    assert doc != GOOD
    return doc


load(GOOD)

# a corrupted scalar
doc = corrupt('y: 4', 'y: four')
check('scalar of wrong type', doc,
      {line_of(doc, 'y: four'), line_of(doc, 'x: 3')})

# a missing key
doc = corrupt('      y: 4\n', '')
check('missing key', doc, {line_of(doc, 'x: 3')}, ['y'])

# an unknown key as the last key of its mapping
doc = corrupt('weight: 2.5', 'weight: 2.5\n      depth: 7')
check('unknown key, last in mapping', doc,
      {line_of(doc, 'depth: 7'), line_of(doc, 'x: 3')}, ['depth'])

# an unknown key with other keys after it: optional key misspelt
doc = corrupt('label: hello', 'lable: hello')
check('unknown key, in the middle of the mapping', doc,
      {line_of(doc, 'lable: hello'), line_of(doc, 'x: 3')}, ['lable'])

# an unknown key that is the first key of a list item
doc = corrupt('  - name: b', '  - kind: round\n    name: b')
check('unknown key, first in mapping', doc,
      {line_of(doc, 'kind: round')}, ['kind'])

# an unknown key at the top level
doc = corrupt('author: me', 'autor: me')
check('unknown key, top level', doc,
      {line_of(doc, 'autor: me'), 1}, ['autor'])

# an unknown key in the middle of the first list item
doc = corrupt('    color: red', '    colour: blue\n    color: red')
check('unknown key, nested in the middle', doc,
      {line_of(doc, 'colour: blue'), line_of(doc, 'name: a')}, ['colour'])

# two unknown keys: the first one cited first, nothing outside the document
doc = corrupt('label: hello', 'lable: hello').replace(
        'weight: 2.5', 'wieght: 2.5')
check('two unknown keys', doc,
      {line_of(doc, 'lable: hello'), line_of(doc, 'x: 3')}, ['lable'])

# enum value that does not exist
doc = corrupt('color: green', 'color: blue')
check('unknown enum member', doc,
      {line_of(doc, 'color: blue'), line_of(doc, 'name: b')})

if failures:
    print('FAIL')
    for f in failures:
        print('-', f)
    sys.exit(1)
print('PASS')
