import math
import random
import sys
import traceback
from typing import Any, Dict, List, Optional

import yaml
import yatiml

FAILURES = []   # type: List[str]


def fail(msg: str) -> None:
    FAILURES.append(msg)


def compose(text: str) -> yatiml.Node:
    return yatiml.Node(yaml.compose(text, Loader=yaml.SafeLoader))


def same(a: Any, b: Any) -> bool:
    if isinstance(a, float) and isinstance(b, float):
        if math.isnan(a) and math.isnan(b):
            return True
    return type(a) == type(b) and a == b


# ---------------------------------------------------------------- ordered map

class Model:
    """What an ordered dictionary does with the same operations."""
    def __init__(self, pairs):
        self.items = list(pairs)

    def keys(self):
        return [k for k, _ in self.items]

    def index(self, key):
        ks = self.keys()
        return ks.index(key) if key in ks else None

    def set(self, key, value):
        i = self.index(key)
        if i is None:
            self.items.append((key, value))
        else:
            self.items[i] = (key, value)

    def remove(self, key):
        i = self.index(key)
        if i is not None:
            self.items.pop(i)

    def rename(self, key, new):
        i = self.index(key)
        if i is not None:
            self.items[i] = (new, self.items[i][1])


ALL_TYPES = [str, int, float, bool, None, list, dict]


def type_matches(value: Any, typ: Any) -> bool:
    if typ is None:
        return value is None
    if typ is bool:
        return isinstance(value, bool)
    if typ is int:
        return isinstance(value, int) and not isinstance(value, bool)
    return isinstance(value, typ)


def compare(node: yatiml.Node, model: Model, where: str,
            probe: List[str]) -> bool:
    """Compares everything observable; returns False on first mismatch."""
    got_keys = [k.value for k, _ in node.yaml_node.value]
    if got_keys != model.keys():
        fail('{}: key order is {}, an ordered dict has {}'.format(
            where, got_keys, model.keys()))
        return False
    for key in probe:
        present = key in model.keys()
        if node.has_attribute(key) != present:
            fail('{}: has_attribute({!r}) is {}, expected {}'.format(
                where, key, node.has_attribute(key), present))
            return False
        if present:
            want = dict(model.items)[key]
            got = node.get_attribute(key).get_value()
            if not same(got, want):
                fail('{}: get_attribute({!r}) gives {!r}, expected {!r}'
                     .format(where, key, got, want))
                return False
            for typ in ALL_TYPES:
                if node.has_attribute_type(key, typ) != type_matches(
                        want, typ):
                    fail('{}: has_attribute_type({!r}, {}) is wrong for'
                         ' value {!r}'.format(where, key, typ, want))
                    return False
        else:
            try:
                node.get_attribute(key)
                fail('{}: get_attribute({!r}) on an absent key did not'
                     ' raise'.format(where, key))
                return False
            except yatiml.SeasoningError:
                pass
            for typ in ALL_TYPES:
                try:
                    result = node.has_attribute_type(key, typ)  # type: Any
                except Exception as e:
                    result = '{} raised'.format(type(e).__name__)
                if result is not False:
                    fail('{}: has_attribute_type({!r}, {}) on an absent key'
                         ' should be False, but: {}'.format(
                             where, key, typ, result))
                    return False
    return True


def run_ops(start: Dict[str, Any], ops: List[tuple], label: str,
            probe_each_step: bool = True) -> None:
    text = yaml.safe_dump(start, sort_keys=False) if start else '{}'
    node = compose(text)
    model = Model(start.items())
    universe = sorted(set(
        list(start) + [op[1] for op in ops] +
        [op[2] for op in ops if op[0] == 'rename'] + ['absent']))
    done = []
    try:
        if probe_each_step and not compare(node, model, label + ' at start',
                                           universe):
            return
        for op in ops:
            done.append(op)
            where = '{} after {}'.format(label, done)
            if op[0] == 'set':
                node.set_attribute(op[1], op[2])
                model.set(op[1], op[2])
            elif op[0] == 'remove':
                node.remove_attribute(op[1])
                model.remove(op[1])
            elif op[0] == 'rename':
                node.rename_attribute(op[1], op[2])
                model.rename(op[1], op[2])
            elif op[0] == 'has':
                if node.has_attribute(op[1]) != (op[1] in model.keys()):
                    fail('{}: has_attribute({!r}) wrong'.format(where, op[1]))
                    return
            elif op[0] == 'get':
                if op[1] in model.keys():
                    got = node.get_attribute(op[1]).get_value()
                    want = dict(model.items)[op[1]]
                    if not same(got, want):
                        fail('{}: get_attribute({!r}) gives {!r}, expected'
                             ' {!r}'.format(where, op[1], got, want))
                        return
                else:
                    try:
                        node.get_attribute(op[1])
                        fail('{}: get_attribute of absent key did not raise'
                             .format(where))
                        return
                    except yatiml.SeasoningError:
                        pass
            elif op[0] == 'hastype':
                want_t = (op[1] in model.keys() and type_matches(
                    dict(model.items)[op[1]], op[2]))
                if node.has_attribute_type(op[1], op[2]) != want_t:
                    fail('{}: has_attribute_type({!r}, {}) is not {}'.format(
                        where, op[1], op[2], want_t))
                    return
            if probe_each_step:
                if not compare(node, model, where, universe):
                    return
        compare(node, model, '{} after {}'.format(label, done), universe)
    except Exception as e:
        fail('{} after {}: unexpected {}: {}'.format(
            label, done, type(e).__name__, e))


def random_ops(rng: random.Random, n: int) -> List[tuple]:
    keys = ['a', 'b', 'c', 'd', 'e', 'f']
    values = [0, 1, -7, 2.5, 'x', '', True, False, None, 'null', '12', 12,
              '1', '0', 'true', '2.5', 1.0]
    ops = []
    fresh = 0
    for _ in range(n):
        kind = rng.choice(
            ['set', 'set', 'remove', 'rename', 'has', 'get', 'hastype'])
        if kind == 'set':
            ops.append(('set', rng.choice(keys), rng.choice(values)))
        elif kind == 'rename':
            # new names are always fresh so that keys stay distinct
            fresh += 1
            ops.append(('rename', rng.choice(keys), 'n{}'.format(fresh)))
            keys.append('n{}'.format(fresh))
        elif kind == 'hastype':
            ops.append(('hastype', rng.choice(keys), rng.choice(ALL_TYPES)))
        else:
            ops.append((kind, rng.choice(keys)))
    return ops


def check_ordered_map(extra_sequences: List[tuple]) -> None:
    start = {'a': 1, 'b': 'two', 'c': 3.5, 'd': True, 'e': None}
    fixed = [
        ('overwrite keeps position',
         start, [('set', 'b', 5), ('set', 'a', 'x'), ('set', 'e', 1.5)]),
        ('new keys append',
         start, [('set', 'z', 1), ('set', 'y', 2), ('set', 'z', 3)]),
        ('absent keys ignored',
         start, [('remove', 'q'), ('rename', 'q', 'r'), ('has', 'q'),
                 ('get', 'q'), ('hastype', 'q', int)]),
        ('rename keeps position',
         start, [('rename', 'b', 'bb'), ('rename', 'a', 'aa'),
                 ('set', 'bb', 0), ('set', 'b', 9)]),
        ('remove then re-add',
         start, [('remove', 'a'), ('set', 'a', 2), ('remove', 'c'),
                 ('get', 'd'), ('get', 'e'), ('get', 'a')]),
        ('same text, other type',
         start, [('set', 'a', '1'), ('set', 'd', 'true'), ('set', 'e', 'null'),
                 ('set', 'c', '3.5'), ('set', 'a', 1), ('set', 'a', 1.0),
                 ('set', 'a', True), ('set', 'b', None), ('set', 'b', ''),
                 ('set', 'b', None)]),
        ('same value again',
         start, [('set', 'a', 1), ('set', 'b', 'two'), ('set', 'c', 3.5),
                 ('set', 'd', True), ('set', 'e', None)]),
        ('empty mapping', {}, [('has', 'a'), ('remove', 'a'), ('set', 'a', 1),
                               ('set', 'b', 2), ('remove', 'a'),
                               ('get', 'b')]),
        ]
    for label, st, ops in fixed + list(extra_sequences):
        run_ops(dict(st), ops, label)
        # and once more without looking in between, only at the end
        run_ops(dict(st), ops, label + ' (unobserved)', False)
    rng = random.Random(14)
    for i in range(300):
        ops = random_ops(rng, rng.randint(3, 14))
        run_ops(dict(start), ops, 'random #{}'.format(i),
                probe_each_step=(i % 2 == 0))
        if len(FAILURES) > 5:
            break


# ------------------------------------------------------- classification

def check_classification() -> None:
    cases = [
        ('42', 'scalar'), ('abc', 'scalar'), ('~', 'scalar'),
        ('""', 'scalar'), ('1.5', 'scalar'), ('yes', 'scalar'),
        ('{}', 'mapping'), ('a: 1', 'mapping'), ('[]', 'sequence'),
        ('- 1\n- 2', 'sequence'), ('- a: 1', 'sequence'),
        ('a: [1]', 'mapping'), ('!custom x', 'scalar'),
        ('!custom {a: 1}', 'mapping'), ('!custom [1]', 'sequence')]
    for text, kind in cases:
        n = compose(text)
        got = (n.is_scalar(), n.is_mapping(), n.is_sequence())
        want = (kind == 'scalar', kind == 'mapping', kind == 'sequence')
        if got != want:
            fail('classification of {!r}: (scalar, mapping, sequence) = {}'
                 .format(text, got))
    typed = [('42', int), ('abc', str), ('~', None), ('1.5', float),
             ('yes', bool), ('"1"', str), ('', None) ]
    for text, typ in typed:
        if text == '':
            continue
        n = compose(text)
        for t in (int, str, None, float, bool):
            if n.is_scalar(t) != (t == typ):
                fail('is_scalar({}) on {!r} is {}'.format(
                    t, text, n.is_scalar(t)))
    for text in ('{}', '[]'):
        n = compose(text)
        for t in (int, str, None, float, bool):
            if n.is_scalar(t):
                fail('is_scalar({}) true on {!r}'.format(t, text))


# --------------------------------------------------------------- scalars

def check_scalars() -> None:
    values = [None, 0, -3, 17, 10**30, 1.5, -0.0, 3.0, 1e20, 1e-7,
              float('inf'), float('-inf'), float('nan'), '', 'x', 'null',
              '12', 'true', 'multi\nline', True, False]
    starts = ['5', 'abc', '~', '1.5', 'no', '{a: 1}', '[1, 2]', '12', '"12"',
              '"true"', 'true', "''", 'null', '"null"', '17', '"x"', '.inf',
              '".inf"', '3.0', '"3.0"', '0', '"0"']
    for start in starts:
        for v in values:
            n = compose(start)
            try:
                n.set_value(v)
                got = n.get_value()
                if not same(got, v):
                    fail('set_value({!r}) on {!r}: get_value() gives {!r}'
                         .format(v, start, got))
                if not n.is_scalar(type(v)):
                    fail('set_value({!r}) on {!r}: is_scalar({}) is False'
                         .format(v, start, type(v)))
                if not n.is_scalar() or n.is_mapping() or n.is_sequence():
                    fail('set_value({!r}) on {!r}: not classified as scalar'
                         .format(v, start))
            except Exception as e:
                fail('set_value({!r}) on {!r}: unexpected {}: {}'.format(
                    v, start, type(e).__name__, e))
    parsed = ['0x1F', '1_000', '1:30', '.inf', '-.INF', '.NaN', 'Yes', 'off',
              'TRUE', '~', 'null', '0b101', '017', '+12', '-12', '1.5e3',
              '190:20:30.15', '"12"', "'yes'", '!!bool Yes', '!!str 12',
              '!!float 1', 'plain text', '1e3', '0', '0.0']
    for text in parsed:
        try:
            got = compose(text).get_value()
            want = yaml.safe_load(text)
            if not same(got, want):
                fail('get_value() on {!r} gives {!r}, a load gives {!r}'
                     .format(text, got, want))
        except Exception as e:
            fail('get_value() on {!r}: unexpected {}: {}'.format(
                text, type(e).__name__, e))


# ------------------------------------------------------ default removal

class Plain:
    def __init__(self, req: int, name: str = 'red', count: int = 7,
                 flag: bool = False, on: bool = True, score: float = 7.5,
                 opt: Optional[str] = None, items: Optional[List[int]] = None
                 ) -> None:
        pass


class Overridden(Plain):
    def __init__(self, req: int, name: str = 'red', count: int = 7,
                 flag: bool = False, on: bool = True, score: float = 7.5,
                 opt: Optional[str] = None, items: Optional[List[int]] = None
                 ) -> None:
        pass

    _yatiml_defaults = {'items': [], 'count': 8}    # type: Dict[str, Any]


def check_one_removal(cls: Any, text: str, want_keys: List[str],
                      label: str) -> None:
    n = compose(text)
    try:
        n.remove_attributes_with_default_values(cls)
    except Exception as e:
        fail('{}: remove_attributes_with_default_values({}) on {!r} raised'
             ' {}: {}'.format(label, cls.__name__, text, type(e).__name__, e))
        return
    got = [k.value for k, _ in n.yaml_node.value]
    if got != want_keys:
        fail('{}: remove_attributes_with_default_values({}) on {!r} leaves'
             ' {}, expected {}'.format(
                 label, cls.__name__, text, got, want_keys))


def check_default_removal() -> None:
    all_default = ('req: 7\nname: red\ncount: 7\nflag: false\non: true\n'
                   'score: 7.5\nopt: null\nitems: null\nother: 7\n')
    check_one_removal(Plain, all_default, ['req', 'other'], 'all default')
    check_one_removal(
            Overridden, all_default, ['req', 'count', 'items', 'other'],
            'overridden defaults')
    check_one_removal(
            Overridden, 'req: 1\ncount: 8\nitems: []\nopt: ~\n', ['req'],
            'overridden defaults')
    check_one_removal(
            Overridden, 'count: 7\nitems: [1]\nname: blue\n',
            ['count', 'items', 'name'], 'overridden defaults')
    none_default = ('name: blue\ncount: 8\nflag: true\non: false\n'
                    'score: 7.25\nopt: x\nitems: []\n')
    check_one_removal(
            Plain, none_default,
            ['name', 'count', 'flag', 'on', 'score', 'opt', 'items'],
            'no default')
    # other kinds of values never make it fail, and are kept
    odd = ('name: 7\ncount: red\nflag: abc\non: [true]\nscore: {a: 7.5}\n'
           'opt: []\nitems: {}\n')
    check_one_removal(
            Plain, odd,
            ['name', 'count', 'flag', 'on', 'score', 'opt', 'items'],
            'odd values')
    check_one_removal(
            Plain, 'name: null\ncount: ~\nflag: ~\nscore: ~\n',
            ['name', 'count', 'flag', 'score'], 'nulls for non-None')
    check_one_removal(
            Plain, 'count: 0x7\nscore: 7.5e+0\nflag: No\non: Yes\n', [],
            'yaml spellings')
    check_one_removal(
            Plain, 'count: 7.0\nscore: 7\nname: "red"\n', ['score'],
            'int and float')


def finish() -> None:
    print('yatiml imported from ' + yatiml.__file__)
    if FAILURES:
        print('FAIL')
        for f in FAILURES[:12]:
            print('  ' + f)
        if len(FAILURES) > 12:
            print('  ... and {} more'.format(len(FAILURES) - 12))
        sys.exit(1)
    print('PASS')
    sys.exit(0)


# --------------------------------------- absent keys, reported or ignored

def check_absent_keys() -> None:
    texts = ['{}', 'a: 1\nb: [1]\nc: {d: 2}\n', 'x: ~\n']
    for text in texts:
        n = compose(text)
        before = [k.value for k, _ in n.yaml_node.value]
        for key in ('missing', 'A', '', 'd'):
            try:
                if n.has_attribute(key):
                    fail('{!r}: has_attribute({!r}) is True'.format(
                        text, key))
            except Exception as e:
                fail('{!r}: has_attribute({!r}) raised {}: {}'.format(
                    text, key, type(e).__name__, e))
            for typ in ALL_TYPES:
                try:
                    if n.has_attribute_type(key, typ) is not False:
                        fail('{!r}: has_attribute_type({!r}, {}) is not'
                             ' False for an absent key'.format(
                                 text, key, typ))
                except Exception as e:
                    fail('{!r}: has_attribute_type({!r}, {}) on an absent'
                         ' key should be False, but raised {}: {}'.format(
                             text, key, typ, type(e).__name__, e))
            try:
                n.get_attribute(key)
                fail('{!r}: get_attribute({!r}) did not raise'.format(
                    text, key))
            except yatiml.SeasoningError:
                pass
            except Exception as e:
                fail('{!r}: get_attribute({!r}) raised {} instead of'
                     ' SeasoningError'.format(text, key, type(e).__name__))
            try:
                n.remove_attribute(key)
                n.rename_attribute(key, 'other')
            except Exception as e:
                fail('{!r}: removing/renaming absent {!r} raised {}: {}'
                     .format(text, key, type(e).__name__, e))
        after = [k.value for k, _ in n.yaml_node.value]
        if before != after:
            fail('{!r}: keys changed from {} to {} by operations on absent'
                 ' keys'.format(text, before, after))


if __name__ == '__main__':
    check_absent_keys()
    check_ordered_map([])
    check_classification()
    check_scalars()
    check_default_removal()
    finish()
