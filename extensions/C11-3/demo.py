"""C11 pair 3: dump functions keep nothing from one call to the next.

Run as
  cd /tmp/w5_C11 && PYTHONPATH=/tmp/w5_C11 /venv/bin/python \
      /tmp/r6_out/C11/3/demo.py
"""
import io
import sys
import threading
from typing import Any, Callable, List

import yaml
import yatiml

failures = []       # type: List[str]


def check(what: str, ok: bool, detail: str = '') -> None:
    if not ok:
        failures.append('{}{}'.format(what, ': ' + detail if detail else ''))


def outcome(func: Callable[..., Any], *args: Any, **kwargs: Any) -> str:
    """The result of a call, or the error it gave."""
    try:
        return repr(func(*args, **kwargs))
    except Exception as e:  # noqa
        return '{}({})'.format(type(e).__name__, e)


def to_stream(dump: Callable[..., None], obj: Any, **kwargs: Any) -> str:
    stream = io.StringIO()
    dump(obj, stream, **kwargs)
    return stream.getvalue()


class Setting:
    def __init__(self, name: str, values: List[int]) -> None:
        self.name = name
        self.values = values


class Config:
    def __init__(self, title: str, settings: List[Setting]) -> None:
        self.title = title
        self.settings = settings


class_dicts_before = [dict(c.__dict__) for c in (Setting, Config)]

dumps_json = yatiml.dumps_json_function(Config, Setting)
dumps_json_plain = yatiml.dumps_json_function()
dump_json = yatiml.dump_json_function(Config, Setting)
dumps = yatiml.dumps_function(Config, Setting)

config = Config('t', [Setting('a', [1, 2]), Setting('b', [])])

CASES = [
        ('dumps_json(config)', lambda: dumps_json(config),
         '{"title":"t","settings":[{"name":"a","values":[1,2]},'
         '{"name":"b","values":[]}]}'),
        ('dumps_json(config, indent=2)', lambda: dumps_json(config, indent=2),
         '{\n  "title": "t",\n  "settings": [\n    {\n      "name": "a",\n'
         '      "values": [\n        1,\n        2\n      ]\n    },\n'
         '    {\n      "name": "b",\n      "values": [\n        \n      ]\n'
         '    }\n  ]\n}\n'),
        ('dumps_json_plain({"x": 1})', lambda: dumps_json_plain({'x': 1}),
         '{"x":1}'),
        ('dumps_json_plain([[1], {"k": [true, null]}])',
         lambda: dumps_json_plain([[1], {'k': [True, None]}]),
         '[[1],{"k":[true,null]}]'),
        ('dumps_json_plain("s")', lambda: dumps_json_plain('s'), '"s"'),
        ('dump_json(config, stream)', lambda: to_stream(dump_json, config),
         '{"title":"t","settings":[{"name":"a","values":[1,2]},'
         '{"name":"b","values":[]}]}'),
        ('dump_json({"x": 2}, stream, indent=4)',
         lambda: to_stream(dump_json, {'x': 2}, indent=4),
         '{\n    "x": 2\n}\n'),
        ('a new dumps_json_function()({"y": [2]})',
         lambda: yatiml.dumps_json_function()({'y': [2]}), '{"y":[2]}'),
        ('dumps(config)', lambda: dumps(config),
         'title: t\nsettings:\n- name: a\n  values:\n  - 1\n  - 2\n'
         '- name: b\n  values: []\n'),
        ('yaml.safe_dump', lambda: yaml.safe_dump({'b': [1], 'a': 'yes'}),
         "a: 'yes'\nb:\n- 1\n"),
        ]


def check_all(when: str) -> None:
    for name, func, expected in CASES:
        res = outcome(func)
        check('{} {}'.format(name, when), res == repr(expected),
              'gave {}, expected {!r}'.format(res, expected))


# ---------------------------------------------------------------------
# 1. plain repeated use
# ---------------------------------------------------------------------
check_all('at the start')
check_all('when repeated')


# ---------------------------------------------------------------------
# 2. a concurrent dump in another thread
# ---------------------------------------------------------------------
class GateStream:
    """A stream that stops half way a document until it is told to go on."""
    def __init__(self) -> None:
        self.text = ''
        self.reached = threading.Event()
        self.go_on = threading.Event()

    def write(self, text: str) -> None:
        self.text += text
        if text == '"values"' and not self.reached.is_set():
            # inside the outer mapping, the list and the inner mapping
            self.reached.set()
            self.go_on.wait(30)


gate = GateStream()
thread_result = []      # type: List[str]
thread = threading.Thread(
        target=lambda: thread_result.append(
            outcome(dump_json, config, gate)))
thread.start()
check('the other thread got half way', gate.reached.wait(30))
check_all('while another thread is half way a JSON dump')
gate.go_on.set()
thread.join(30)
check('the dump in the other thread finished', thread_result == ['None'],
      repr(thread_result))
check('the dump in the other thread wrote the right thing',
      gate.text == CASES[0][2], 'it wrote {!r}'.format(gate.text))
check_all('after the threads')


# ---------------------------------------------------------------------
# 3. failed calls
# ---------------------------------------------------------------------
shared = [1, 2]
res = outcome(dumps_json_plain, {'a': shared, 'b': {'c': shared}})
check('a list that occurs twice is refused by the JSON functions',
      res == 'RuntimeError(Aliases are not supported by JSON)', res)
check_all('after a failed dumps_json call')

res = outcome(to_stream, dump_json, [config, [config]])
check('an object that occurs twice is refused by the JSON functions',
      res == 'RuntimeError(Aliases are not supported by JSON)', res)
check_all('after a failed dump_json call')


class FullStream:
    """A stream that fails after a few writes."""
    def __init__(self) -> None:
        self.count = 0

    def write(self, text: str) -> None:
        self.count += 1
        if self.count > 6:
            raise OSError('disk full')


res = outcome(dump_json, config, FullStream())
check('a failing stream', res == 'OSError(disk full)', res)
check_all('after a dump to a stream that failed')

res = outcome(dumps_json_plain, {'a': [Setting('x', [])]})
check('an unknown class', res.startswith('RepresenterError('), res)
check_all('after a dump of an unknown class')

# ---------------------------------------------------------------------
check('user classes unchanged',
      [dict(c.__dict__) for c in (Setting, Config)] == class_dicts_before)

if failures:
    print('FAIL')
    unique = []     # type: List[str]
    for f in failures:
        if f not in unique:
            unique.append(f)
    for f in unique[:12]:
        print('  ' + (f if len(f) < 600 else f[:600] + ' ...'))
    if len(unique) > 12:
        print('  ... and {} more'.format(len(unique) - 12))
    sys.exit(1)
print('PASS')
