"""C18 demo, pair 2: YAML merge keys (<<) are expanded before type checking.

Checks the property on concrete inputs: a document with anchors and
aliases must load to a value equal to that of the same document with
each alias replaced by a copy of the anchored node, must fail iff that
expanded document fails, and self-referential aliases must be rejected
with an error rather than by exhausting the stack.
"""
import sys
from typing import Any, Dict, List, Union

import yatiml

assert yatiml.__file__.startswith('/tmp/w5_C18/'), yatiml.__file__


class Eq:
    def __eq__(self, other):
        return type(self) is type(other) and self.__dict__ == other.__dict__

    def __repr__(self):
        return '{}({})'.format(type(self).__name__, self.__dict__)


class Server(Eq):
    def __init__(self, host: str, port: int = 80, tls: bool = False) -> None:
        self.host = host
        self.port = port
        self.tls = tls


class Cluster(Eq):
    def __init__(
            self, defaults: Server, servers: List[Server],
            limits: Dict[str, int]) -> None:
        self.defaults = defaults
        self.servers = servers
        self.limits = limits


load_any = yatiml.load_function()
load_dicts = yatiml.load_function(Dict[str, Dict[str, int]])
load_mixed = yatiml.load_function(
        Dict[str, Union[int, str, List[int]]])      # type: ignore
load_cluster = yatiml.load_function(Cluster, Server)

# (description, load function, document with aliases, expanded document)
CASES = [
    # plain anchors and aliases
    ('untyped, nested shared list',
        load_any,
        'a: &x [1, {b: 2}]\nb: *x\nc: [*x, *x]\n',
        'a: [1, {b: 2}]\nb: [1, {b: 2}]\nc: [[1, {b: 2}], [1, {b: 2}]]\n'),
    ('typed dict, shared scalar and list',
        load_mixed,
        'a: &x 1\nb: *x\nc: &l [1, 2]\nd: *l\n',
        'a: 1\nb: 1\nc: [1, 2]\nd: [1, 2]\n'),
    ('typed dict, shared value of a wrong type',
        load_mixed,
        'a: &x 1.5\nb: *x\n',
        'a: 1.5\nb: 1.5\n'),
    ('class, shared mapping',
        load_cluster,
        'defaults: &d {host: h, port: 1}\nservers: [*d, *d]\nlimits: {}\n',
        'defaults: {host: h, port: 1}\n'
        'servers: [{host: h, port: 1}, {host: h, port: 1}]\nlimits: {}\n'),
    # aliases used as the value of a merge key
    ('untyped, merge of an alias',
        load_any,
        'base: &b {x: 1}\nderived: {<<: *b, y: 2}\n',
        'base: {x: 1}\nderived: {<<: {x: 1}, y: 2}\n'),
    ('untyped, merge of an alias with an override',
        load_any,
        'base: &b {x: 1, y: 2}\nderived: {<<: *b, x: 9}\nsame: {<<: *b}\n',
        'base: {x: 1, y: 2}\nderived: {<<: {x: 1, y: 2}, x: 9}\n'
        'same: {<<: {x: 1, y: 2}}\n'),
    ('untyped, merge of a list of aliases',
        load_any,
        'a: &a {x: 1, y: 2}\nb: &b {y: 3, z: 4}\n'
        'c: {<<: [*a, *b], z: 5, w: 6}\n',
        'a: {x: 1, y: 2}\nb: {y: 3, z: 4}\n'
        'c: {<<: [{x: 1, y: 2}, {y: 3, z: 4}], z: 5, w: 6}\n'),
    ('untyped, chained merges',
        load_any,
        'a: &a {x: 1}\nb: &b {<<: *a, y: 2}\nc: {<<: *b, z: 3}\n',
        'a: {x: 1}\nb: {<<: {x: 1}, y: 2}\nc: {<<: {<<: {x: 1}, y: 2}, z: 3}\n'),
    ('typed dict, merge of an alias',
        load_dicts,
        'base: &b {x: 1}\nderived: {<<: *b, y: 2}\n',
        'base: {x: 1}\nderived: {<<: {x: 1}, y: 2}\n'),
    ('typed dict, merge of a list of aliases',
        load_dicts,
        'a: &a {x: 1, y: 2}\nb: &b {y: 3, z: 4}\nc: {<<: [*a, *b], w: 6}\n',
        'a: {x: 1, y: 2}\nb: {y: 3, z: 4}\n'
        'c: {<<: [{x: 1, y: 2}, {y: 3, z: 4}], w: 6}\n'),
    ('class, merge of the defaults into every server',
        load_cluster,
        'defaults: &d {host: none, port: 8080}\n'
        'servers:\n- {<<: *d, host: a}\n- {<<: *d, host: b, tls: true}\n'
        'limits: {}\n',
        'defaults: {host: none, port: 8080}\n'
        'servers:\n- {<<: {host: none, port: 8080}, host: a}\n'
        '- {<<: {host: none, port: 8080}, host: b, tls: true}\n'
        'limits: {}\n'),
    ('class, merge of an alias that lacks a required key',
        load_cluster,
        'defaults: {host: h}\nlimits: &l {n: 1}\nservers: [{<<: *l, port: 1}]\n',
        'defaults: {host: h}\nlimits: {n: 1}\n'
        'servers: [{<<: {n: 1}, port: 1}]\n'),
    ('untyped, merge of an alias to something that is not a mapping',
        load_any,
        'a: &a 3\nb: {<<: *a, x: 1}\n',
        'a: 3\nb: {<<: 3, x: 1}\n'),
    ]

CYCLES = [
    ('list containing itself', load_any, '&a [*a]\n'),
    ('mapping containing itself', load_any, '&a {k: *a}\n'),
    ('nested self-reference', load_any, 'a: &a [1, [*a]]\n'),
    ('mapping merging itself', load_any, '&a {<<: *a, x: 1}\n'),
    ('mapping merging itself, typed', load_dicts, 'a: &a {<<: *a, x: 1}\n'),
    ('mapping merging a list with itself', load_any,
        'a: &a {<<: [{y: 2}, *a], x: 1}\n'),
    ]


def outcome(load, text):
    try:
        return 'ok', load(text)
    except RecursionError:
        return 'stack', 'RecursionError'
    except Exception as e:
        return 'error', '{}: {}'.format(
                type(e).__name__, str(e).strip().splitlines()[-1])


problems = []

for desc, load, aliased, expanded in CASES:
    assert '&' not in expanded and '*' not in expanded
    got = outcome(load, aliased)
    want = outcome(load, expanded)
    if 'stack' in (got[0], want[0]):
        problems.append('{}: stack exhausted ({} / {})'.format(
            desc, got, want))
    elif got[0] != want[0]:
        problems.append(
                '{}: with aliases -> {!r}, expanded -> {!r}'.format(
                    desc, got, want))
    elif got[0] == 'ok' and got[1] != want[1]:
        problems.append(
                '{}: values differ: with aliases {!r}, expanded {!r}'.format(
                    desc, got[1], want[1]))

for desc, load, text in CYCLES:
    got = outcome(load, text)
    if got[0] != 'error' or not got[1].startswith('RecognitionError'):
        problems.append(
                '{}: expected a RecognitionError, got {!r}'.format(desc, got))

if problems:
    print('FAIL')
    for problem in problems:
        print(' -', problem)
    sys.exit(1)
print('PASS')
