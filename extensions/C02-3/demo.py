"""Demonstration for pair 3 (Constructor: keys named self / _yatiml_extra).

Checks property C02 on concrete inputs: after savourising, a class mapping
may have unknown attributes only if the class takes _yatiml_extra; the
result equals the value obtained by calling the constructors bottom-up, the
extra attributes arriving as an ordered mapping of plain data, mapping
order kept.

Run as
  cd /tmp/w5_C02 && PYTHONPATH=/tmp/w5_C02 /venv/bin/python demo.py
"""
import sys
from collections import OrderedDict
from typing import Any, Dict, List, Optional

import yatiml

print('yatiml imported from', yatiml.__file__)


class Rec:
    """Value semantics for the test classes."""
    def __eq__(self, other: Any) -> bool:
        return type(self) is type(other) and self.__dict__ == other.__dict__

    def __repr__(self) -> str:
        return '{}({})'.format(type(self).__name__, ', '.join(
            '{}={!r}'.format(k, v) for k, v in self.__dict__.items()))


class Sample(Rec):
    """A class that takes extra attributes."""
    def __init__(
            self, name: str, mass: float = 1.0,
            _yatiml_extra: Optional[OrderedDict] = None) -> None:
        self.name = name
        self.mass = mass
        self.extra = _yatiml_extra


class Strict(Rec):
    """A class that does not take extra attributes."""
    def __init__(self, name: str, mass: float = 1.0) -> None:
        self.name = name
        self.mass = mass


class Batch(Rec):
    def __init__(self, label: str, samples: List[Sample],
                 reference: Optional[Sample] = None) -> None:
        self.label = label
        self.samples = samples
        self.reference = reference


def od(*pairs: Any) -> OrderedDict:
    return OrderedDict(pairs)


failures = []   # type: List[str]


def same(got: Any, expected: Any) -> bool:
    """Equality that also looks at the order of mappings."""
    if got != expected:
        return False
    if isinstance(expected, Sample):
        if not isinstance(got.extra, OrderedDict):
            return False
        return same(dict(got.extra), dict(expected.extra))
    if isinstance(expected, Batch):
        return (same(got.samples, expected.samples)
                and same(got.reference, expected.reference))
    if isinstance(expected, list):
        return all(same(g, e) for g, e in zip(got, expected))
    if isinstance(expected, dict):
        return (list(got.keys()) == list(expected.keys()) and all(
            same(got[k], expected[k]) for k in expected))
    return True


def check(name: str, load: Any, text: str, expected: Any) -> None:
    try:
        got = load(text)
    except yatiml.RecognitionError as e:
        if expected is yatiml.RecognitionError:
            return
        failures.append(
                '{}: expected {!r} but RecognitionError was raised: {}'.format(
                    name, expected, str(e).splitlines()[-1]))
        return
    except Exception as e:
        failures.append('{}: {} escaped: {}'.format(
            name, type(e).__name__, e))
        return
    if expected is yatiml.RecognitionError:
        failures.append(
                '{}: expected RecognitionError but got {!r}'.format(name, got))
    elif not same(got, expected):
        failures.append(
                '{}: expected (mind the order)\n      {!r}\n    but got\n'
                '      {!r}'.format(name, expected, got))


load_sample = yatiml.load_function(Sample)
load_strict = yatiml.load_function(Strict)
load_batch = yatiml.load_function(Batch, Sample)
load_samples = yatiml.load_function(Dict[str, Sample], Sample)

# no extra attributes, one, two
check('no extras', load_sample, 'name: s\n', Sample('s', 1.0, od()))
check('one extra', load_sample,
      'colour: red\nname: s\nmass: 2.5\n',
      Sample('s', 2.5, od(('colour', 'red'))))
check('extras are plain data', load_sample,
      'name: s\nparent: !Sample {name: p, colour: blue}\n',
      Sample('s', 1.0, od(('parent', {'name': 'p', 'colour': 'blue'}))))

# many extra attributes: they arrive in the order of the document
check('ten extras, interleaved with the known attributes', load_sample,
      'zone: 4\n'
      'year: 2020\n'
      'name: s\n'
      'xray: true\n'
      'weight: 12.5\n'
      'vendor: acme\n'
      'mass: 3.0\n'
      'unit: kg\n'
      'tags: [a, b]\n'
      'site: {lat: 52.0, lon: 4.5}\n'
      'rack: null\n'
      'quality: good\n',
      Sample('s', 3.0, od(
          ('zone', 4), ('year', 2020), ('xray', True), ('weight', 12.5),
          ('vendor', 'acme'), ('unit', 'kg'), ('tags', ['a', 'b']),
          ('site', {'lat': 52.0, 'lon': 4.5}), ('rack', None),
          ('quality', 'good'))))

check('eight extras in alphabetical order', load_sample,
      'name: s\n'
      'a1: 1\nb2: 2\nc3: 3\nd4: 4\ne5: 5\nf6: 6\ng7: 7\nh8: 8\n',
      Sample('s', 1.0, od(
          ('a1', 1), ('b2', 2), ('c3', 3), ('d4', 4), ('e5', 5), ('f6', 6),
          ('g7', 7), ('h8', 8))))

check('objects with extras inside other objects', load_batch,
      'label: b\n'
      'samples:\n'
      '- {name: s1, p: 1, q: 2, r: 3, s: 4, t: 5, u: 6}\n'
      '- {u: 6, t: 5, s: 4, name: s2, r: 3, q: 2, p: 1}\n'
      'reference: {name: ref, kind: blank, lot: 7, mass: 0.5, shelf: c}\n',
      Batch('b', [
          Sample('s1', 1.0, od(
              ('p', 1), ('q', 2), ('r', 3), ('s', 4), ('t', 5), ('u', 6))),
          Sample('s2', 1.0, od(
              ('u', 6), ('t', 5), ('s', 4), ('r', 3), ('q', 2), ('p', 1)))],
          Sample('ref', 0.5, od(
              ('kind', 'blank'), ('lot', 7), ('shelf', 'c')))))

check('dict of objects with extras', load_samples,
      'zz: {name: s1, k9: 9, k8: 8, k7: 7, k6: 6, k5: 5}\n'
      'aa: {k1: 1, k2: 2, k3: 3, k4: 4, name: s2}\n',
      {'zz': Sample('s1', 1.0, od(
          ('k9', 9), ('k8', 8), ('k7', 7), ('k6', 6), ('k5', 5))),
       'aa': Sample('s2', 1.0, od(
           ('k1', 1), ('k2', 2), ('k3', 3), ('k4', 4)))})

# what the pipeline does not admit
check('unknown attribute without _yatiml_extra', load_strict,
      'name: s\ncolour: red\n', yatiml.RecognitionError)
check('key named self without _yatiml_extra', load_strict,
      'name: s\nself: 1\n', yatiml.RecognitionError)
check('key named _yatiml_extra without _yatiml_extra', load_strict,
      'name: s\n_yatiml_extra: {a: 1}\n', yatiml.RecognitionError)
check('missing required attribute', load_sample,
      'mass: 1.0\ncolour: red\n', yatiml.RecognitionError)
check('wrong type', load_sample,
      'name: s\nmass: heavy\n', yatiml.RecognitionError)
check('non-string key', load_sample,
      'name: s\n3: three\n', yatiml.RecognitionError)
check('strict class loads', load_strict,
      'name: s\nmass: 2.0\n', Strict('s', 2.0))

# Not counted: a key named self in a class that takes _yatiml_extra. By
# the property it is an unknown attribute like any other and goes to the
# extras; the original code raises a RecognitionError for it.
try:
    note = repr(load_sample('name: s\nself: 1\nother: 2\n'))
except yatiml.RecognitionError as e:
    note = 'RecognitionError: ' + str(e).splitlines()[-1]
print('note: key named self with _yatiml_extra gives', note)

if failures:
    print('FAIL')
    for failure in failures:
        print('  ' + failure)
    sys.exit(1)
print('PASS')
