#!/usr/bin/env python
"""Demonstration for property C16, pair 3.

C16 - UnknownNode.require_* accept exactly the nodes they describe:
each helper returns normally exactly when the wrapped node satisfies the
documented condition, raises RecognitionError otherwise, and never
modifies the node.

Every case below is (YAML text, helper, arguments, expected outcome), the
expected outcome ('ok' = returns normally, 'rec' = RecognitionError)
written down by hand from the documented condition.  Any other exception,
a wrong outcome, or a node that has changed is a failure.

Run as
  cd /tmp/w5_C16 && PYTHONPATH=/tmp/w5_C16 /venv/bin/python demo.py

Pair 3 (malformed scalars reported as RecognitionError): the targeted
cases are require_attribute_value() on an attribute that is not one of the
five plain scalar kinds at all (a list, a mapping, a timestamp, a custom
tag), e.g. require_attribute_value('l', 'x') on {l: [1, 2]}, which must raise
RecognitionError and nothing else.
"""
import sys
from datetime import date
from typing import Dict, List, Union

import yaml

import yatiml
from yatiml.helpers import UnknownNode
from yatiml.recognizer import Recognizer


class Pt:
    def __init__(self, x: int, y: int) -> None:
        self.x = x
        self.y = y


RECOGNIZER = Recognizer({'!Pt': Pt}, {})

DOC = '{k: v, n: 42, one: 1, f: 1.5, t: true, z: ~, l: [1, 2], m: {x: 1, y: 2}}'

OK, REC = 'ok', 'rec'

# cases marked with a trailing True are the ones aimed at this pair's slip
CASES = [
    # --- require_scalar -------------------------------------------------
    ('42', 'require_scalar', (), OK),
    ('42', 'require_scalar', (int,), OK),
    ('42', 'require_scalar', (str,), REC),
    ('42', 'require_scalar', (int, str), OK, False),
    ('42', 'require_scalar', (str, int), OK, False),
    ('42', 'require_scalar', (str, float, int), OK, False),
    ('42', 'require_scalar', (str, float), REC),
    ('42', 'require_scalar', (None,), REC),
    ('hello', 'require_scalar', (str,), OK),
    ('hello', 'require_scalar', (int, float), REC),
    ('hello', 'require_scalar', (int, float, str), OK, False),
    ('~', 'require_scalar', (), OK),
    ('~', 'require_scalar', (None,), OK),
    ('~', 'require_scalar', (type(None),), OK),
    ('~', 'require_scalar', (str, None), OK, False),
    ('true', 'require_scalar', (bool,), OK),
    ('true', 'require_scalar', (int,), REC),
    ('1.5', 'require_scalar', (float,), OK),
    ('1.5', 'require_scalar', (int, float), OK, False),
    ('2020-01-01', 'require_scalar', (), OK),
    ('2020-01-01', 'require_scalar', (date,), OK),
    ('2020-01-01', 'require_scalar', (str,), REC),
    ('[1, 2]', 'require_scalar', (), REC),
    ('[1, 2]', 'require_scalar', (int,), REC),
    ('[1, 2]', 'require_scalar', (int, str), REC),
    ('{a: 1}', 'require_scalar', (), REC),
    ('{a: 1}', 'require_scalar', (str,), REC),
    # --- require_mapping / require_sequence ------------------------------
    ('{a: 1}', 'require_mapping', (), OK),
    ('{}', 'require_mapping', (), OK),
    ('[1]', 'require_mapping', (), REC),
    ('x', 'require_mapping', (), REC),
    ('[1]', 'require_sequence', (), OK),
    ('[]', 'require_sequence', (), OK),
    ('{a: 1}', 'require_sequence', (), REC),
    ('x', 'require_sequence', (), REC),
    # --- require_attribute ------------------------------------------------
    (DOC, 'require_attribute', ('k',), OK),
    (DOC, 'require_attribute', ('l',), OK),
    (DOC, 'require_attribute', ('nope',), REC),
    (DOC, 'require_attribute', ('n', int), OK),
    (DOC, 'require_attribute', ('n', str), REC),
    (DOC, 'require_attribute', ('n', float), REC),
    (DOC, 'require_attribute', ('n', None), REC),
    (DOC, 'require_attribute', ('k', str), OK),
    (DOC, 'require_attribute', ('k', int), REC),
    (DOC, 'require_attribute', ('f', float), OK),
    (DOC, 'require_attribute', ('t', bool), OK),
    (DOC, 'require_attribute', ('t', yatiml.bool_union_fix), OK),
    (DOC, 'require_attribute', ('t', int), REC),
    (DOC, 'require_attribute', ('z', None), OK),
    (DOC, 'require_attribute', ('z', type(None)), OK),
    (DOC, 'require_attribute', ('z', int), REC),
    (DOC, 'require_attribute', ('nope', int), REC),
    (DOC, 'require_attribute', ('l', List[int]), OK),
    (DOC, 'require_attribute', ('l', List[str]), REC),
    (DOC, 'require_attribute', ('l', int), REC),
    (DOC, 'require_attribute', ('l', str), REC),
    (DOC, 'require_attribute', ('m', Pt), OK),
    (DOC, 'require_attribute', ('l', Pt), REC),
    (DOC, 'require_attribute', ('m', Dict[str, int]), OK),
    (DOC, 'require_attribute', ('m', Dict[str, str]), REC),
    (DOC, 'require_attribute', ('m', str), REC),
    (DOC, 'require_attribute', ('n', Union[int, str]), OK),
    (DOC, 'require_attribute', ('n', Union[str, float]), REC),
    (DOC, 'require_attribute', ('z', Union[int, None]), OK),
    ('{d: 2020-01-01}', 'require_attribute', ('d', date), OK),
    ('{d: 2020-01-01}', 'require_attribute', ('d', str), REC),
    # explicitly tagged collections are not scalars, whatever the tag says;
    # the loader's recogniser wants a ScalarNode for int, str, ...
    ('{a: !!int {x: 1}}', 'require_attribute', ('a',), OK),
    ('{a: !!int {x: 1}}', 'require_attribute', ('a', int), REC, False),
    ('{a: !!str [x, y]}', 'require_attribute', ('a', str), REC, False),
    ('{a: !!null []}', 'require_attribute', ('a', None), REC, False),
    ('{a: !!bool {}}', 'require_attribute', ('a', bool), REC, False),
    ('{a: !!str [x, y]}', 'require_attribute', ('a', List[str]), OK),
    ('{a: !!str 42}', 'require_attribute', ('a', str), OK),
    ('{a: !!str 42}', 'require_attribute', ('a', int), REC),
    ('[k, v]', 'require_attribute', ('k',), REC),
    ('[k, v]', 'require_attribute', ('k', str), REC),
    ('k', 'require_attribute', ('k',), REC),
    ('[[k, v]]', 'require_attribute', ('k',), REC),
    # --- require_attribute_value ------------------------------------------
    (DOC, 'require_attribute_value', ('k', 'v'), OK),
    (DOC, 'require_attribute_value', ('k', 'w'), REC),
    (DOC, 'require_attribute_value', ('n', 42), OK),
    (DOC, 'require_attribute_value', ('n', 43), REC),
    (DOC, 'require_attribute_value', ('n', '42'), REC),
    (DOC, 'require_attribute_value', ('n', 42.0), REC),
    (DOC, 'require_attribute_value', ('one', 1), OK),
    (DOC, 'require_attribute_value', ('one', True), REC),
    (DOC, 'require_attribute_value', ('one', 1.0), REC),
    (DOC, 'require_attribute_value', ('f', 1.5), OK),
    (DOC, 'require_attribute_value', ('f', 2.5), REC),
    (DOC, 'require_attribute_value', ('t', True), OK),
    (DOC, 'require_attribute_value', ('t', False), REC),
    (DOC, 'require_attribute_value', ('t', 1), REC),
    (DOC, 'require_attribute_value', ('t', 'true'), REC),
    (DOC, 'require_attribute_value', ('z', None), OK),
    (DOC, 'require_attribute_value', ('z', 0), REC),
    (DOC, 'require_attribute_value', ('z', ''), REC),
    (DOC, 'require_attribute_value', ('k', None), REC),
    (DOC, 'require_attribute_value', ('nope', 1), REC),
    (DOC, 'require_attribute_value', ('l', 'x'), REC, True),
    (DOC, 'require_attribute_value', ('l', 1), REC, True),
    (DOC, 'require_attribute_value', ('m', 'x'), REC, True),
    (DOC, 'require_attribute_value', ('m', None), REC, True),
    ('{d: 2020-01-01}', 'require_attribute_value', ('d', '2020-01-01'),
     REC, True),
    ('{p: !Pt {x: 1, y: 2}}', 'require_attribute_value', ('p', 'x'),
     REC, True),
    ('{s: !Custom text}', 'require_attribute_value', ('s', 'text'),
     REC, True),
    ('{n: 0x2A}', 'require_attribute_value', ('n', 42), OK),
    ('{n: 1_000}', 'require_attribute_value', ('n', 1000), OK),
    ('{f: .inf}', 'require_attribute_value', ('f', float('inf')), OK),
    ('{s: "42"}', 'require_attribute_value', ('s', '42'), OK),
    ('{s: "42"}', 'require_attribute_value', ('s', 42), REC),
    ('[k, v]', 'require_attribute_value', ('k', 'v'), REC),
    ('k', 'require_attribute_value', ('k', 'k'), REC),
    # --- require_attribute_value_not --------------------------------------
    (DOC, 'require_attribute_value_not', ('k', 'v'), REC),
    (DOC, 'require_attribute_value_not', ('k', 'w'), OK),
    (DOC, 'require_attribute_value_not', ('n', 42), REC),
    (DOC, 'require_attribute_value_not', ('n', 43), OK),
    (DOC, 'require_attribute_value_not', ('n', '42'), OK),
    (DOC, 'require_attribute_value_not', ('one', True), OK),
    (DOC, 'require_attribute_value_not', ('one', 1), REC),
    (DOC, 'require_attribute_value_not', ('t', 1), OK),
    (DOC, 'require_attribute_value_not', ('t', True), REC),
    (DOC, 'require_attribute_value_not', ('t', False), OK),
    (DOC, 'require_attribute_value_not', ('f', 1.5), REC),
    (DOC, 'require_attribute_value_not', ('z', None), REC),
    (DOC, 'require_attribute_value_not', ('z', 0), OK),
    (DOC, 'require_attribute_value_not', ('k', None), OK),
    (DOC, 'require_attribute_value_not', ('l', 'x'), OK),
    (DOC, 'require_attribute_value_not', ('m', None), OK),
    (DOC, 'require_attribute_value_not', ('nope', 1), REC),
    ('{d: 2020-01-01}', 'require_attribute_value_not', ('d', '2020-01-01'),
     OK),
    ('[k, v]', 'require_attribute_value_not', ('k', 'v'), REC),
    ('k', 'require_attribute_value_not', ('k', 'x'), REC),
]


def snapshot(node):
    """Everything about a node tree that a helper could change."""
    marks = tuple(
            None if m is None else (m.line, m.column)
            for m in (node.start_mark, node.end_mark))
    if isinstance(node, yaml.ScalarNode):
        return (
                'scalar', id(node), node.tag, node.value, node.style, marks)
    if isinstance(node, yaml.SequenceNode):
        return (
                'seq', id(node), node.tag, id(node.value), node.flow_style,
                marks, tuple(snapshot(n) for n in node.value))
    return (
            'map', id(node), node.tag, id(node.value), node.flow_style, marks,
            tuple((snapshot(k), snapshot(v)) for k, v in node.value))


# Inputs on which the ORIGINAL library already departs from C16 (ValueError
# instead of RecognitionError / a normal return).  They are reported for
# information only and do not affect the verdict; pair 3's commit fixes them.
INFORMATIONAL = [
    ('{n: !!int twelve}', 'require_attribute_value', ('n', 12), REC),
    ('{n: !!float 1.2.3}', 'require_attribute_value', ('n', 1.2), REC),
    ('{n: !!int twelve}', 'require_attribute_value_not', ('n', 12), OK),
]


def informational() -> None:
    for text, helper, args, expected in INFORMATIONAL:
        unode = UnknownNode(RECOGNIZER, yaml.compose(text))
        try:
            getattr(unode, helper)(*args)
            outcome = OK
        except yatiml.RecognitionError:
            outcome = REC
        except Exception as e:     # noqa
            outcome = 'raised {}'.format(type(e).__name__)
        print('  info: {}({}) on {}: C16 says {}, got {}'.format(
            helper, ', '.join(map(repr, args)), text, expected, outcome))


def main() -> int:
    if not yatiml.__file__.startswith('/tmp/w5_C16/'):
        print('FAIL: yatiml imported from {}, not from the worktree'.format(
            yatiml.__file__))
        return 1

    failures = []
    targeted_failures = 0
    for case in CASES:
        text, helper, args, expected = case[:4]
        targeted = len(case) > 4 and case[4]
        node = yaml.compose(text)
        before = snapshot(node)
        unode = UnknownNode(RECOGNIZER, node)
        try:
            result = getattr(unode, helper)(*args)
            outcome = OK if result is None else 'returned {!r}'.format(result)
        except yatiml.RecognitionError:
            outcome = REC
        except Exception as e:     # noqa: any other exception is wrong
            outcome = 'raised {}: {}'.format(
                    type(e).__name__, str(e).splitlines()[0][:60])

        problems = []
        if outcome != expected:
            problems.append('expected {}, got {}'.format(expected, outcome))
        if unode.yaml_node is not node or snapshot(node) != before:
            problems.append('the node was modified')
        if problems:
            failures.append('{}({}) on {}: {}{}'.format(
                helper, ', '.join(map(repr, args)), text,
                '; '.join(problems), '   <-- targeted' if targeted else ''))
            if targeted:
                targeted_failures += 1

    if failures:
        print('FAIL: {} of {} cases violate C16 ({} of them targeted)'.format(
            len(failures), len(CASES), targeted_failures))
        for f in failures:
            print('  ' + f)
        informational()
        return 1

    print('PASS: all {} cases behave as documented'.format(len(CASES)))
    informational()
    return 0


if __name__ == '__main__':
    sys.exit(main())
