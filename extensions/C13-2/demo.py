#!/usr/bin/env python3
"""C13 demo 2: a load does not depend on whether List, Sequence or
MutableSequence (Dict, Mapping or MutableMapping) is used in an annotation.

Every document is loaded with the same type written with each of the
interchangeable generic containers; the outcome (an equal value, or a
failure) must be the same for all of them. A few of the other C13
invariances are checked on the same documents.

Exits 0 and prints PASS if so, exits 1 and prints FAIL otherwise.
"""
import itertools
import sys
from typing import (
        Dict, List, Mapping, MutableMapping, MutableSequence, Optional,
        Sequence, Union)

import yatiml


SEQS = (List, Sequence, MutableSequence)
MAPS = (Dict, Mapping, MutableMapping)


class Base:
    def __eq__(self, other: object) -> bool:
        return (type(other).__name__ == type(self).__name__
                and vars(other) == vars(self))

    def __repr__(self) -> str:
        return '{}({})'.format(type(self).__name__, vars(self))


class Unrelated(Base):
    def __init__(self, q: int) -> None:
        self.q = q


def outcome(load, text):
    try:
        return ('value', load(text))
    except Exception as e:      # noqa
        return ('failure', type(e).__name__)


def same(o1, o2) -> bool:
    if o1[0] != o2[0]:
        return False
    return o1[0] == 'failure' or o1[1] == o2[1]


failures = []


def compare(what, variants, texts):
    """variants: list of (description, load function). All of them must
    give the same outcome on each text."""
    for text in texts:
        ref_desc, ref_load = variants[0]
        ref = outcome(ref_load, text)
        for desc, load in variants[1:]:
            out = outcome(load, text)
            if not same(ref, out):
                failures.append(
                        '{}, document {!r}:\n      {} -> {}\n      {} -> {}'
                        .format(what, text, ref_desc, ref, desc, out))
                break


def name(t) -> str:
    return str(t).replace('typing.', '')


# 1. top-level Union of two sequence types, all 9 spellings
seq_texts = ['[]\n', '[1, 2]\n', '[a, b]\n', '[1, a]\n', '- 1\n- 2\n',
             '!!seq []\n', '{}\n', 'null\n', '[[]]\n']
variants = []
for s1, s2 in itertools.product(SEQS, SEQS):
    type_ = Union[s1[int], s2[str]]     # type: ignore
    variants.append((name(type_), yatiml.load_function(type_)))
compare('Union of sequences', variants, seq_texts)

# 2. top-level Union of two mapping types, all 9 spellings
map_texts = ['{}\n', '{a: 1}\n', '{a: b}\n', '{a: 1, b: c}\n', 'a: 1\n',
             '!!map {}\n', '[]\n', 'null\n']
variants = []
for m1, m2 in itertools.product(MAPS, MAPS):
    type_ = Union[m1[str, int], m2[str, str]]       # type: ignore
    variants.append((name(type_), yatiml.load_function(type_)))
compare('Union of mappings', variants, map_texts)

# 3. as attributes of a class, optional, and nested in a container
variants = []
for seq, map_ in zip(SEQS, MAPS):
    ns = {'seq': seq, 'map_': map_, 'Union': Union, 'Optional': Optional}
    exec(
        'class Config(Base):\n'
        '    def __init__(\n'
        '            self, ports: Union[seq[int], seq[str]],\n'
        '            env: Optional[Union[map_[str, int], map_[str, str]]]'
        ' = None,\n'
        '            groups: Optional[map_[str, Union[seq[int], seq[str]]]]'
        ' = None\n'
        '            ) -> None:\n'
        '        self.ports = ports\n'
        '        self.env = env\n'
        '        self.groups = groups\n', dict(globals(), **ns), ns)
    variants.append((
        'Config with {} and {}'.format(name(seq), name(map_)),
        yatiml.load_function(ns['Config'])))
    variants.append((
        'Config with {} and {} plus an unrelated class'.format(
            name(seq), name(map_)),
        yatiml.load_function(ns['Config'], Unrelated)))
compare('class attributes', variants, [
    'ports: [80, 443]\n',
    'ports: [http]\nenv: {A: x}\n',
    'ports: []\n',
    'env: {}\nports: [1]\n',
    '{"ports": [], "env": {}, "groups": {"a": [], "b": [1], "c": ["x"]}}\n',
    'ports: []\ngroups:\n  a: []\n',
    'ports: [1, x]\n',
    'ports: {}\n',
    ])

# 4. bool_union_fix next to bool, with each of the containers
variants = []
for seq in SEQS:
    variants.append((
        name(seq) + ' of int or bool',
        yatiml.load_function(seq[Union[int, bool]])))       # type: ignore
    variants.append((
        name(seq) + ' of int, bool or bool_union_fix',
        yatiml.load_function(
            seq[Union[int, bool, yatiml.bool_union_fix]])))  # type: ignore
compare('bool_union_fix', variants, ['[]\n', '[1, true]\n', '[a]\n'])

if failures:
    print('FAIL: the outcome of a load changed when List/Sequence/'
          'MutableSequence or Dict/Mapping/MutableMapping were interchanged')
    for f in failures:
        print('  ' + f)
    sys.exit(1)
print('PASS')
