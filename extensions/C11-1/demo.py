"""C11 pair 1: creating and using yatiml load functions leaves PyYAML as is.

Run as
  cd /tmp/w5_C11 && PYTHONPATH=/tmp/w5_C11 /venv/bin/python \
      /tmp/r6_out/C11/1/demo.py
"""
import sys
import threading
from typing import Any, Dict, List, Union

import yaml
import yatiml
from yatiml.loader import Loader, set_document_type

failures = []       # type: List[str]


def check(what: str, ok: bool, detail: str = '') -> None:
    if not ok:
        failures.append('{}{}'.format(what, ': ' + detail if detail else ''))


# ---------------------------------------------------------------------
# PyYAML before any yatiml function exists
# ---------------------------------------------------------------------
TEXTS = [
        'yes', 'no', 'on', 'off', 'y', 'n', 'Yes', 'NO', 'On', 'OFF',
        'true', 'False', '1e3', '1E5', '1.5e3', '1.5e+3', '1.', '.5',
        '1_000.5', '190:20:30.15', '.inf', '-.INF', '.nan', '12', '0x1F',
        '1:30', 'null', '~', '2020-01-02', 'x: yes\ny: 1e3\nz: [on, 1.e2]\n']
VALUES = [
        'yes', 'no', 'on', 'y', 'true', '1e3', '1.5e3', '1.', '1_000.5',
        'plain', True, 1000.0, 1.5e300, {'a': 'off', 'b': ['1e3', 'No']}]


def resolver_snapshot(cls: Any) -> Dict[Any, Any]:
    return {
            first: [(tag, regex.pattern) for tag, regex in entries]
            for first, entries in cls.yaml_implicit_resolvers.items()}


def pyyaml_snapshot() -> Dict[str, Any]:
    return {
            'safe_load': [repr(yaml.safe_load(t)) for t in TEXTS],
            'safe_dump': [yaml.safe_dump(v) for v in VALUES],
            'SafeLoader resolvers': resolver_snapshot(yaml.SafeLoader),
            'SafeDumper resolvers': resolver_snapshot(yaml.SafeDumper),
            'Resolver resolvers': resolver_snapshot(yaml.resolver.Resolver),
            'SafeLoader constructors': sorted(
                map(str, yaml.SafeLoader.yaml_constructors)),
            'SafeDumper representers': sorted(
                map(str, yaml.SafeDumper.yaml_representers)),
            }


pyyaml_changed = []


def compare_pyyaml(before: Dict[str, Any], when: str) -> None:
    if pyyaml_changed:
        return      # reported already, at the first step that showed it
    after = pyyaml_snapshot()
    for key in before:
        if before[key] == after[key]:
            continue
        if key == 'safe_load':
            diffs = [
                    '{!r}: {} -> {}'.format(t, b, a)
                    for t, b, a in zip(TEXTS, before[key], after[key])
                    if a != b]
        elif key == 'safe_dump':
            diffs = [
                    '{!r}: {!r} -> {!r}'.format(v, b, a)
                    for v, b, a in zip(VALUES, before[key], after[key])
                    if a != b]
        elif key.endswith('resolvers'):
            diffs = ['patterns listed under ' + ''.join(sorted(
                    str(first) for first in before[key]
                    if before[key][first] != after[key].get(first)))]
        else:
            diffs = ['{} -> {}'.format(before[key], after[key])]
        pyyaml_changed.append(key)
        check('PyYAML {} changed {}'.format(key, when), False,
              '; '.join(diffs))


before = pyyaml_snapshot()

# what PyYAML (YAML 1.1) is known to do, so that a snapshot taken too late
# cannot hide anything
check('yaml.safe_load("yes") is True before', yaml.safe_load('yes') is True)
check('yaml.safe_load("1e3") is a str before', yaml.safe_load('1e3') == '1e3')
check('yaml.safe_dump("yes") quotes before',
      yaml.safe_dump('yes') == "'yes'\n")


# ---------------------------------------------------------------------
# create yatiml functions
# ---------------------------------------------------------------------
class Setting:
    def __init__(self, name: str, enabled: bool, weight: float) -> None:
        self.name = name
        self.enabled = enabled
        self.weight = weight


setting_dict_before = dict(Setting.__dict__)

load_any = yatiml.load_function()
compare_pyyaml(before, 'by creating a load function')

load_setting = yatiml.load_function(Setting)
load_bool = yatiml.load_function(bool)
load_float = yatiml.load_function(float)
load_mixed = yatiml.load_function(
        Dict[str, Union[str, bool, float]])     # type: ignore
dumps = yatiml.dumps_function(Setting)
compare_pyyaml(before, 'by creating more functions')


# ---------------------------------------------------------------------
# use them: YAML 1.2 floats and bools inside yatiml, repeatably
# ---------------------------------------------------------------------
def yatiml_results() -> List[str]:
    out = []
    for func, text in [
            (load_any, 'yes'), (load_any, 'on'), (load_any, 'n'),
            (load_any, 'true'), (load_any, '1e3'), (load_any, '1.5e3'),
            (load_any, '1_000.5'), (load_any, '190:20:30.15'),
            (load_any, 'x: yes\ny: 1e3\nz: [on, 1.e2, True]\n'),
            (load_bool, 'False'), (load_bool, 'yes'), (load_bool, 'on'),
            (load_float, '1E5'), (load_float, '.5'), (load_float, '1e3'),
            (load_float, '1_0.5'),
            (load_mixed, 'a: no\nb: TRUE\nc: 2e2\nd: 1:30.5\n'),
            (load_setting, 'name: yes\nenabled: true\nweight: 1e1\n'),
            (load_setting, 'name: x\nenabled: yes\nweight: 1e1\n'),
            ]:
        try:
            res = func(text)
            if isinstance(res, Setting):
                res = ('Setting', res.name, res.enabled, res.weight)
            out.append(repr(res))
        except yatiml.RecognitionError:
            out.append('RecognitionError')
    return out


expected = [
        "'yes'", "'on'", "'n'", 'True', '1000.0', '1500.0', "'1_000.5'",
        "'190:20:30.15'",
        "{'x': 'yes', 'y': 1000.0, 'z': ['on', 100.0, True]}",
        'False', 'RecognitionError', 'RecognitionError',
        '100000.0', '0.5', '1000.0', 'RecognitionError',
        "{'a': 'no', 'b': True, 'c': 200.0, 'd': '1:30.5'}",
        "('Setting', 'yes', True, 10.0)", 'RecognitionError']

first = yatiml_results()
check('yatiml load results', first == expected, '{} != {}'.format(
    first, expected))
compare_pyyaml(before, 'by using load functions')

# failed and successful calls in between do not matter
second = yatiml_results()
check('yatiml load results repeat', second == first)

# a function made later behaves like one made first
load_any2 = yatiml.load_function()
check('second untyped load function agrees',
      [load_any2(t) for t in ('yes', '1e3', 'off', 'True')] ==
      [load_any(t) for t in ('yes', '1e3', 'off', 'True')])

check('dumps', dumps(Setting('on', False, 1e3)) ==
      "name: 'on'\nenabled: false\nweight: 1000.0\n",
      repr(dumps(Setting('on', False, 1e3))))
compare_pyyaml(before, 'by dumping')


# the deprecated way, loader classes of the user's own (only scalar document
# types work there in the original)
class MyFloatLoader(Loader):
    pass


class MyStrLoader(Loader):
    pass


set_document_type(MyFloatLoader, float)
set_document_type(MyStrLoader, str)
old_style = [
        yaml.load('1e3', Loader=MyFloatLoader),
        yaml.load('yes', Loader=MyStrLoader),
        yaml.load('1e3', Loader=MyFloatLoader),
        yaml.load('Off', Loader=MyStrLoader)]
check('user loader classes', old_style == [1000.0, 'yes', 1000.0, 'Off'],
      repr(old_style))
try:
    yaml.load('yes', Loader=MyFloatLoader)
    check('user loader class rejects', False)
except yatiml.RecognitionError:
    pass
compare_pyyaml(before, 'by using a user-made Loader class')


# from several threads
def worker(results: List[Any], i: int) -> None:
    try:
        results[i] = yatiml_results()
    except Exception as e:  # noqa
        results[i] = e


thread_results = [None] * 8     # type: List[Any]
threads = [
        threading.Thread(target=worker, args=(thread_results, i))
        for i in range(8)]
for t in threads:
    t.start()
for t in threads:
    t.join()
check('results from threads', all(r == expected for r in thread_results))
compare_pyyaml(before, 'by loading from threads')

# PyYAML, spelled out
check('yaml.safe_load("yes") is True after', yaml.safe_load('yes') is True,
      repr(yaml.safe_load('yes')))
check('yaml.safe_load("1e3") is a str after', yaml.safe_load('1e3') == '1e3',
      repr(yaml.safe_load('1e3')))
check('yaml.safe_dump("yes") quotes after',
      yaml.safe_dump('yes') == "'yes'\n", repr(yaml.safe_dump('yes')))

# the user's class
check('user class untouched', dict(Setting.__dict__) == setting_dict_before)

if failures:
    print('FAIL')
    unique = []     # type: List[str]
    for f in failures:
        if f not in unique:
            unique.append(f)
    for f in unique[:12]:
        print('  ' + (f if len(f) < 600 else f[:600] + ' ...'))
    if len(unique) > 12:
        print('  ... and {} more'.format(len(unique) - 12))
    sys.exit(1)
print('PASS')
