"""C17 demo for pair 2: format_rec_error / Recognizer caches.

Loads a series of documents, each with one corrupted scalar or key, in
one process, and checks for each that the RecognitionError cites a
position on the line of the corrupted node, of its key, or of the start
of the enclosing mapping, names a missing key, and cites only positions
that lie inside the document at hand.
"""
import abc
import re
import sys
from typing import Dict, List, Optional, Union

import yatiml


class Shape(abc.ABC):
    def __init__(self, name: str) -> None:
        pass


class Circle(Shape):
    def __init__(self, name: str, radius: float) -> None:
        pass


class Square(Shape):
    def __init__(self, name: str, side: float) -> None:
        pass


class Point:
    def __init__(self, x: int, y: int, label: Optional[str] = None) -> None:
        pass


class Layer:
    def __init__(self, title: str, origin: Point, points: List[Point],
                 sizes: Dict[str, float], shapes: List[Shape],
                 depth: Union[int, str] = 0) -> None:
        pass


load_layer = yatiml.load_function(Layer, Point, Shape, Circle, Square)
load_point = yatiml.load_function(Point)

LAYER = '''\
title: Test
depth: deep
origin:
  x: 0
  y: 0
points:
  - x: 1
    y: 2
  - x: 3
    y: 4
    label: far
  - x: 5
    y: 6
sizes:
  w: 1.0
  h: 2.0
shapes:
  - name: a
    radius: 1.0
  - name: b
    side: 2.0
'''

POINT = '''\
x: 1
y: 2
label: p
'''

POS = re.compile(r'line (\d+), column (\d+)')
failures = []


def line_of(doc, text):
    for i, line in enumerate(doc.splitlines()):
        if text in line:
            return i + 1
    raise AssertionError(text)


def check(desc, load, doc, allowed, names=(), only_allowed=True):
    """Checks C17 for one document, returns the message."""
    nlines = len(doc.splitlines())
    try:
        load(doc)
    except yatiml.RecognitionError as e:
        msg = str(e)
    except Exception as e:     # noqa
        failures.append('{}: {} instead of RecognitionError: {}'.format(
            desc, type(e).__name__, e))
        return None
    else:
        failures.append('{}: no error raised'.format(desc))
        return None
    cited = [(int(li), int(co)) for li, co in POS.findall(msg)]
    if not cited:
        failures.append('{}: no position cited:\n{}'.format(desc, msg))
        return msg
    outside = [c for c in cited if not 1 <= c[0] <= nlines]
    if outside:
        failures.append(
                '{}: cites (line, column) {} which is outside the {}-line'
                ' document:\n{}'.format(desc, outside, nlines, msg))
    lines = sorted({li for li, _ in cited})
    if not any(li in allowed for li in lines):
        failures.append('{}: cites line(s) {}, none of which is one of {}'
                        .format(desc, lines, sorted(allowed)))
    if only_allowed and any(li not in allowed for li in lines):
        failures.append(
                '{}: cites line(s) {}, but only {} have to do with the'
                ' corrupted node:\n{}'.format(
                    desc, lines, sorted(allowed), msg))
    for name in names:
        if '"{}"'.format(name) not in msg:
            failures.append('{}: key "{}" is not named:\n{}'.format(
                desc, name, msg))
    return msg


def corrupt(base, old, new):
    doc = base.replace(old, new, 1)
    assert doc != base
    return doc


load_layer(LAYER)
load_point(POINT)

# 1. corrupted scalar far down a long document
doc1 = corrupt(LAYER, 'h: 2.0', 'h: high')
msg1 = check('long document, dict value of wrong type', load_layer, doc1,
             {line_of(doc1, 'h: high'), line_of(doc1, 'w: 1.0')})

# 2. a short document with a missing key, loaded after the long one
doc2 = corrupt(POINT, 'y: 2\n', '')
check('short document, missing key', load_point, doc2, {1}, ['y'])

# 3. a short document with a corrupted scalar
doc3 = corrupt(POINT, 'x: 1', 'x: one')
check('short document, scalar of wrong type', load_point, doc3, {1})

# 4. a class hierarchy: several alternatives are described, all of them
#    inside the document, one of them on the offending line
doc4 = corrupt(LAYER, 'radius: 1.0', 'radius: big')
check('long document, scalar in a derived class', load_layer, doc4,
      {line_of(doc4, 'radius: big'), line_of(doc4, 'name: a')},
      only_allowed=False)

# 5. a missing key in a list item of the long document
doc5 = corrupt(LAYER, '    y: 4\n', '')
check('long document, missing key in list item', load_layer, doc5,
      {line_of(doc5, 'x: 3')}, ['y'])

# 6. union attribute: both alternatives complain about the same node
doc6 = corrupt(LAYER, 'depth: deep', 'depth: [1]')
check('long document, union attribute', load_layer, doc6,
      {line_of(doc6, 'depth: [1]'), 1})

# 7. the short document once more
check('short document, missing key, again', load_point, doc2, {1}, ['y'])

# 8. the first document once more gives the very same message
msg8 = check('long document again', load_layer, doc1,
             {line_of(doc1, 'h: high'), line_of(doc1, 'w: 1.0')})
if msg1 != msg8:
    failures.append('the same document gave two different messages:\n{}\n'
                    '---\n{}'.format(msg1, msg8))

if failures:
    print('FAIL')
    for f in failures:
        print('-', f)
    sys.exit(1)
print('PASS')
