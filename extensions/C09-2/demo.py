"""C09 demo, pair 2: a plain scalar is a bool or a float only if ALL of
it is a YAML 1.2 bool or float; text that merely begins like one is a
string.

Run as
  cd /tmp/w5_C09 && PYTHONPATH=/tmp/w5_C09 /venv/bin/python demo.py
Prints PASS and exits 0 if the property holds, prints FAIL with the
offending inputs and exits 1 otherwise.
"""
import math
import sys
from typing import Any, Dict, List, Union

import yatiml

BOOLS = {
        'true': True, 'True': True, 'TRUE': True,
        'false': False, 'False': False, 'FALSE': False}
FLOATS = [
        '1.5', '1.', '.5', '-0.0', '+12.25', '1e3', '1E-3', '-1.5e+3',
        '1.e2', '6.02E23', '1e400', '.inf', '-.Inf', '+.INF', '.nan',
        '.NaN', '.NAN']
STRINGS = [
        'yes', 'no', 'on', 'off', 'Yes', 'NO', 'On', 'OFF', 'y', 'n',
        '1_000.5', '1:30.5', '1.2.3', 'trueish', 'tRue', 'truE', 'falsey',
        '.Nan', '.iNF', '1e', 'e3', '.e3', '.', '1.5kg', '1,5', 'inf',
        'nan',
        # begin like a bool or a float, but go on
        'true.', 'True story', 'TRUEST', 'false-positive', 'Falsehood',
        'FALSE1', '10.0.0.1', '1.5.', '1.e', '1.e+', '1e3x', '2e10-3',
        '-1.5-2', '+.5e1f', '3.14 is pi', '.inf2', '.Infinity', '-.INFO',
        '.nan0', '.NaN.', '0.1e-400km',
        # end like one, but do not begin like one
        'untrue', 'x1.5', '_.5', 'v1.0', 'e.inf', '..nan']

problems = []   # type: List[str]


def same(got: Any, want: Any) -> bool:
    if type(got) is not type(want):
        return False
    if isinstance(want, float):
        if math.isnan(want):
            return math.isnan(got)
        return got == want and math.copysign(1, got) == math.copysign(1, want)
    return bool(got == want)


def py_float(text: str) -> float:
    special = {'.inf': 'inf', '.nan': 'nan'}
    body = text.lstrip('+-').lower()
    if body in special:
        return float(text.replace(text.lstrip('+-'), special[body]))
    return float(text)


def expect(what: str, func: Any, text: str, want: Any) -> None:
    try:
        got = func(text)
    except Exception as e:
        problems.append('{}: {!r} raised {}: {}'.format(
            what, text, type(e).__name__, str(e).splitlines()[-1]))
        return
    if not same(got, want):
        problems.append('{}: {!r} gave {!r} ({}), expected {!r} ({})'.format(
            what, text, got, type(got).__name__, want, type(want).__name__))


def expect_error(what: str, func: Any, text: str) -> None:
    try:
        got = func(text)
    except yatiml.RecognitionError:
        return
    except Exception as e:
        problems.append('{}: {!r} raised {} rather than a'
                        ' RecognitionError'.format(
                            what, text, type(e).__name__))
        return
    problems.append('{}: {!r} was accepted and gave {!r}'.format(
        what, text, got))


load_any = yatiml.load_function()
load_bool = yatiml.load_function(bool)
load_float = yatiml.load_function(float)
load_str = yatiml.load_function(str)
load_union = yatiml.load_function(Union[bool, float, str])  # type: ignore

# the statement of the property, one scalar per document
for text, value in BOOLS.items():
    expect('untyped', load_any, text, value)
    expect('as bool', load_bool, text, value)
    expect('as union', load_union, text, value)
    expect_error('as float', load_float, text)
    expect_error('as str', load_str, text)

for text in FLOATS:
    expect('untyped', load_any, text, py_float(text))
    expect('as float', load_float, text, py_float(text))
    expect('as union', load_union, text, py_float(text))
    expect_error('as bool', load_bool, text)
    expect_error('as str', load_str, text)

for text in STRINGS:
    expect('untyped', load_any, text, text)
    expect('as str', load_str, text, text)
    expect('as union', load_union, text, text)
    expect_error('as bool', load_bool, text)
    expect_error('as float', load_float, text)

# the same in the places where scalars are usually found: in lists,
# as values and as keys of mappings, and as attributes of classes
for text in STRINGS:
    if ',' in text:
        continue
    expect('list item', load_any,
           '- 1.5\n- {}\n- true\n'.format(text), [1.5, text, True])
    expect('mapping value', load_any,
           'a: {}\nb: .5\n'.format(text), {'a': text, 'b': 0.5})
    expect('mapping key', load_any,
           '{}: FALSE\n'.format(text), {text: False})


class Reading:
    def __init__(self, name: str, value: float, valid: bool) -> None:
        self.name = name
        self.value = value
        self.valid = valid


load_reading = yatiml.load_function(Reading)
load_strs = yatiml.load_function(Dict[str, str])
for text in STRINGS:
    doc = 'name: {}\nvalue: 1e-3\nvalid: True\n'.format(text)
    try:
        reading = load_reading(doc)
        if not (same(reading.name, text) and same(reading.value, 0.001)
                and reading.valid is True):
            problems.append('attribute: {!r} gave {!r}'.format(
                doc, vars(reading)))
    except Exception as e:
        problems.append('attribute: {!r} raised {}: {}'.format(
            doc, type(e).__name__, str(e).splitlines()[-1]))
    expect_error('attribute', load_reading,
                 'name: x\nvalue: {}\nvalid: True\n'.format(text))
    expect_error('attribute', load_reading,
                 'name: x\nvalue: 1.0\nvalid: {}\n'.format(text))
    expect('str dict', load_strs, '{0}: {0}\n'.format(text), {text: text})

if problems:
    print('FAIL')
    for problem in problems:
        print('  ' + problem)
    sys.exit(1)
print('PASS')
