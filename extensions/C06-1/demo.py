import enum
import io
import sys
import tempfile
from collections import OrderedDict, UserString
from pathlib import Path

import yaml
import yatiml

FAILURES = []


def fail(label, msg):
    FAILURES.append((label, msg))
    print('  FAIL [{}]: {}'.format(label, msg))


def explicit_tags(text):
    """Explicit tags in the text, found by PyYAML's scanner."""
    return [t.value for t in yaml.scan(text)
            if isinstance(t, yaml.TagToken)]


def ordered(value):
    """Order-sensitive form of a plain parsed document."""
    if isinstance(value, dict):
        return ('map', [(ordered(k), ordered(v)) for k, v in value.items()])
    if isinstance(value, (list, tuple)):
        return ('seq', [ordered(v) for v in value])
    return (type(value).__name__, value)


def freeze(obj, seen=None):
    """Deep snapshot of an object graph (types, attributes, order)."""
    if seen is None:
        seen = {}
    if id(obj) in seen:
        return ('ref', seen[id(obj)])
    if isinstance(obj, (str, int, float, bool, type(None), bytes)):
        return (type(obj).__name__, obj)
    if isinstance(obj, enum.Enum):
        return ('enum', type(obj).__name__, obj.name)
    if isinstance(obj, Path):
        return ('path', type(obj).__name__, str(obj))
    seen[id(obj)] = len(seen)
    if isinstance(obj, dict):
        return (type(obj).__name__,
                [(freeze(k, seen), freeze(v, seen)) for k, v in obj.items()])
    if isinstance(obj, (list, tuple)):
        return (type(obj).__name__, [freeze(v, seen) for v in obj])
    if isinstance(obj, UserString):
        return ('userstring', type(obj).__name__, obj.data,
                sorted(k for k in vars(obj) if k != 'data'))
    return ('object', type(obj).__name__,
            [(k, freeze(v, seen)) for k, v in vars(obj).items()])


def check_dump(label, dumps, obj, expected, repeats=3, may_refuse=False):
    """Checks the statement of C06 for one dump function and object.

    dumps: callable object -> text
    expected: the projection, as plain dicts/lists/scalars (order matters)
    may_refuse: a RuntimeError instead of a text is acceptable (C06 is
            about the text that is produced, if any)
    """
    before = freeze(obj)
    try:
        texts = [dumps(obj) for _ in range(repeats)]
    except Exception as e:      # noqa
        if may_refuse and type(e) is RuntimeError:
            print('  note [{}]: refused with RuntimeError: {}'.format(
                label, e))
            if freeze(obj) != before:
                fail(label, 'object graph was modified by refused dump')
        else:
            fail(label, 'dump raised {}: {}'.format(type(e).__name__, e))
        return
    after = freeze(obj)

    if before != after:
        fail(label, 'object graph was modified by dumping')
    for i, text in enumerate(texts[1:], 2):
        if text != texts[0]:
            fail(label, 'dump #{} differs from dump #1: {!r} versus {!r}'
                 .format(i, texts[0], text))
            break
    for i, text in enumerate(texts, 1):
        if i > 1 and text == texts[0]:
            continue
        try:
            docs = list(yaml.safe_load_all(text))
            tags = explicit_tags(text)
        except yaml.YAMLError as e:
            fail(label, 'dump #{} is not well-formed YAML: {!r}: {}'.format(
                i, text, str(e).replace('\n', ' ')))
            continue
        if len(docs) != 1:
            fail(label, 'dump #{} has {} documents'.format(i, len(docs)))
            continue
        if tags:
            fail(label, 'dump #{} has explicit tags {}'.format(i, tags))
        if ordered(docs[0]) != ordered(expected):
            fail(label, 'dump #{} is not the projection:\n   text     {!r}\n'
                 '   parsed   {!r}\n   expected {!r}'.format(
                     i, text, docs[0], expected))


def to_file(dump):
    """Makes a text-returning function of a dump-to-sink function."""
    def dumps(obj):
        with tempfile.TemporaryDirectory() as d:
            target = Path(d) / 'out.yaml'
            dump(obj, target)
            by_path = target.read_text()
            dump(obj, str(target))
            by_name = target.read_text()
            stream = io.StringIO()
            dump(obj, stream)
            if not (by_path == by_name == stream.getvalue()):
                raise RuntimeError('sinks disagree: {!r} {!r} {!r}'.format(
                    by_path, by_name, stream.getvalue()))
            return by_path
    return dumps


def finish():
    if FAILURES:
        print('FAIL: {} check(s) failed: {}'.format(
            len(FAILURES), sorted(set(label for label, _ in FAILURES))))
        sys.exit(1)
    print('PASS')
    sys.exit(0)


# ---------------------------------------------------------------- inputs

class Plain:
    def __init__(self, zeta, alpha, mid=3):
        self.zeta = zeta
        self.alpha = alpha
        self.mid = mid


class Extensible:
    """Constructor parameters, then whatever else the YAML file had."""
    def __init__(self, name, _yatiml_extra, level=1):
        self.name = name
        self.level = level
        self._yatiml_extra = _yatiml_extra


class Colour(enum.Enum):
    red = 1
    no = 2


class Label(UserString):
    pass


class Base:
    def __init__(self, kind):
        self.kind = kind

    @classmethod
    def _yatiml_sweeten(cls, node):
        node.set_attribute('from_base', True)


class Derived(Base):
    def __init__(self, kind, size):
        super().__init__(kind)
        self.size = size

    @classmethod
    def _yatiml_sweeten(cls, node):
        node.rename_attribute('size', 'sz')


class Holder:
    def __init__(self, items, colour, where, label, table):
        self.items = items
        self.colour = colour
        self.where = where
        self.label = label
        self.table = table


CLASSES = (Plain, Extensible, Colour, Label, Base, Derived, Holder)


def inputs():
    ext1 = Extensible('first', OrderedDict([('zz', 1), ('bb', [1, 2])]), 7)
    ext2 = Extensible('second', OrderedDict([('q', 'x')]))
    ext1_p = {'name': 'first', 'level': 7, 'zz': 1, 'bb': [1, 2]}
    ext2_p = {'name': 'second', 'level': 1, 'q': 'x'}
    holder = Holder(
            [ext2, Plain(1, 2)], Colour.no, Path('/tmp/some where'),
            Label('a label'), {'k2': Colour.red, 'k1': [Label('x')]})
    holder_p = {
            'items': [ext2_p, {'zeta': 1, 'alpha': 2, 'mid': 3}],
            'colour': 'no', 'where': '/tmp/some where', 'label': 'a label',
            'table': {'k2': 'red', 'k1': ['x']}}
    return [
        ('plain', Plain('z', 'a'), {'zeta': 'z', 'alpha': 'a', 'mid': 3}),
        ('extensible', ext1, ext1_p),
        # a second object of a class that was dumped before
        ('extensible-again', ext2, ext2_p),
        ('extensible-empty', Extensible('third', OrderedDict()),
            {'name': 'third', 'level': 1}),
        ('enum', Colour.no, 'no'),
        ('string-like', Label('yes'), 'yes'),
        ('path', Path('rel/path'), 'rel/path'),
        ('sweetened', Derived('k', 4),
            {'kind': 'k', 'sz': 4, 'from_base': True}),
        ('nested', holder, holder_p),
        ('builtin', {'b': [3, 1, 2], 'a': {'y': None, 'x': 1.5}},
            {'b': [3, 1, 2], 'a': {'y': None, 'x': 1.5}}),
        ]


def main():
    print('yatiml from', yatiml.__file__)
    functions = [
        ('dumps', yatiml.dumps_function(*CLASSES)),
        ('dump', to_file(yatiml.dump_function(*CLASSES))),
        ('dumps_json', yatiml.dumps_json_function(*CLASSES)),
        ('dump_json', to_file(yatiml.dump_json_function(*CLASSES))),
        ]
    for fname, function in functions:
        for label, obj, expected in inputs():
            check_dump('{}:{}'.format(fname, label), function, obj, expected)

    # one dump function, many objects of the same class, each dumped once
    dumps = yatiml.dumps_function(*CLASSES)
    for i in range(4):
        extra = OrderedDict([('e{}'.format(i), i), ('d', -i)])
        obj = Extensible('n{}'.format(i), extra, i)
        check_dump('series:{}'.format(i), dumps, obj,
                   {'name': 'n{}'.format(i), 'level': i,
                    'e{}'.format(i): i, 'd': -i}, repeats=1)
    finish()


if __name__ == '__main__':
    main()
