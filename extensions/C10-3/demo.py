"""Demonstration for C10, pair 3.

Checks property C10 (seasoning and recognition hooks run once, own class
only, bases first) on concrete classes and documents:

  * _yatiml_savorize of the registered ancestors of C and of C itself, each
    exactly once, ancestors first, nobody else's (linear chain, hooks only in
    a base, unregistered base, diamond, several nodes per document, repeated
    loads, loaders with different registrations, enums, user strings);
  * after recognition, before the attribute type check and __init__;
  * _yatiml_recognize consulted only for the class whose body defines it;
  * _yatiml_sweeten by the same rule on dumping, on the node built from the
    object's attributes;
  * SeasoningError while savorizing comes out as RecognitionError.

Every hook records (kind, class whose body defines it, cls it was run as).
Prints PASS and exits 0 if all checks hold, prints FAIL plus the offending
records and exits 1 otherwise.

Run as:
  cd /tmp/w5_C10 && PYTHONPATH=/tmp/w5_C10 /venv/bin/python /tmp/r6_out/C10/3/demo.py

The slip of pair 3 (the set of classes done is not handed on when recursing
into the base classes while sweetening) is exposed by diamond(): dumping
D(B, C) with B(A) and C(A) runs A._yatiml_sweeten twice.
"""
import enum
import sys
from collections import UserString
from typing import Any, Callable, List, Tuple

import yatiml

FAILURES = []   # type: List[str]
CALLS = []      # type: List[Tuple[str, str, str]]


def check(label: str, got: Any, expected: Any) -> None:
    if got != expected:
        FAILURES.append('{}:\n      expected {}\n      got      {}'.format(
            label, expected, got))


def hook(kind: str, owner: str) -> classmethod:
    """Makes a recording hook; owner is the class whose body defines it."""
    def fn(cls: Any, node: Any) -> None:
        CALLS.append((kind, owner, cls.__name__))
    fn.__name__ = '_yatiml_' + kind
    return classmethod(fn)


def calls_of(fn: Callable[[], Any]) -> List[Tuple[str, str, str]]:
    del CALLS[:]
    fn()
    return list(CALLS)


def own(kind: str, *names: str) -> List[Tuple[str, str, str]]:
    """Expected record: each named class's own hook, run as that class."""
    return [(kind, n, n) for n in names]


# --------------------------------------------------------------------------
# 1. linear chain, every class registered, every class has its own hooks
# --------------------------------------------------------------------------
def linear_chain() -> None:
    class A:
        def __init__(self, x: int) -> None:
            self.x = x
        _yatiml_savorize = hook('savorize', 'A')
        _yatiml_sweeten = hook('sweeten', 'A')

    class B(A):
        _yatiml_savorize = hook('savorize', 'B')
        _yatiml_sweeten = hook('sweeten', 'B')

    class C(B):
        _yatiml_savorize = hook('savorize', 'C')
        _yatiml_sweeten = hook('sweeten', 'C')

    load = yatiml.load_function(C, B, A)
    dumps = yatiml.dumps_function(C, B, A)
    check('linear chain A<-B<-C, load C',
          calls_of(lambda: load('x: 1')), own('savorize', 'A', 'B', 'C'))
    check('linear chain A<-B<-C, load C a second time',
          calls_of(lambda: load('x: 2')), own('savorize', 'A', 'B', 'C'))
    check('linear chain A<-B<-C, dump C',
          calls_of(lambda: dumps(C(1))), own('sweeten', 'A', 'B', 'C'))
    check('linear chain A<-B<-C, dump C a second time',
          calls_of(lambda: dumps(C(2))), own('sweeten', 'A', 'B', 'C'))

    load_b = yatiml.load_function(B, A)
    check('linear chain, load B (C not registered)',
          calls_of(lambda: load_b('x: 1')), own('savorize', 'A', 'B'))

    # several nodes of the same class in one document
    load_list = yatiml.load_function(List[C], C, B, A)
    check('three C nodes in one document',
          calls_of(lambda: load_list('- x: 1\n- x: 2\n- x: 3\n')),
          own('savorize', 'A', 'B', 'C') * 3)
    check('three C objects in one dump',
          calls_of(lambda: dumps([C(1), C(2), C(3)])),
          own('sweeten', 'A', 'B', 'C') * 3)


# --------------------------------------------------------------------------
# 2. hooks defined in the base only: run once, as the base
# --------------------------------------------------------------------------
def inherited_hooks() -> None:
    class Base:
        def __init__(self, x: int) -> None:
            self.x = x
        _yatiml_savorize = hook('savorize', 'Base')
        _yatiml_sweeten = hook('sweeten', 'Base')

    class Mid(Base):
        pass

    class Leaf(Mid):
        _yatiml_savorize = hook('savorize', 'Leaf')
        _yatiml_sweeten = hook('sweeten', 'Leaf')

    load_mid = yatiml.load_function(Mid, Base)
    dumps = yatiml.dumps_function(Leaf, Mid, Base)
    check('Mid inherits Base.savorize, both registered: Base hook once',
          calls_of(lambda: load_mid('x: 1')), own('savorize', 'Base'))
    check('Mid inherits Base.sweeten, both registered: Base hook once',
          calls_of(lambda: dumps(Mid(1))), own('sweeten', 'Base'))

    load_leaf = yatiml.load_function(Leaf, Mid, Base)
    check('Leaf <- Mid (no hooks) <- Base, load Leaf',
          calls_of(lambda: load_leaf('x: 1')), own('savorize', 'Base', 'Leaf'))
    check('Leaf <- Mid (no hooks) <- Base, dump Leaf',
          calls_of(lambda: dumps(Leaf(1))), own('sweeten', 'Base', 'Leaf'))

    # Base is not registered: its hooks are nobody's business
    load_only_mid = yatiml.load_function(Mid)
    dumps_only_mid = yatiml.dumps_function(Mid)
    check('Mid registered, Base not: Base.savorize must not run',
          calls_of(lambda: load_only_mid('x: 1')), [])
    check('Mid registered, Base not: Base.sweeten must not run',
          calls_of(lambda: dumps_only_mid(Mid(1))), [])


# --------------------------------------------------------------------------
# 3. diamond: the shared base once, before both arms, the join last
# --------------------------------------------------------------------------
def diamond() -> None:
    class A:
        def __init__(self, x: int) -> None:
            self.x = x
        _yatiml_savorize = hook('savorize', 'A')
        _yatiml_sweeten = hook('sweeten', 'A')

    class B(A):
        _yatiml_savorize = hook('savorize', 'B')
        _yatiml_sweeten = hook('sweeten', 'B')

    class C(A):
        _yatiml_savorize = hook('savorize', 'C')
        _yatiml_sweeten = hook('sweeten', 'C')

    class D(B, C):
        _yatiml_savorize = hook('savorize', 'D')
        _yatiml_sweeten = hook('sweeten', 'D')

    load = yatiml.load_function(D, B, C, A)
    dumps = yatiml.dumps_function(D, B, C, A)
    check('diamond D(B, C), B(A), C(A), load D',
          calls_of(lambda: load('x: 1')), own('savorize', 'A', 'B', 'C', 'D'))
    check('diamond D(B, C), B(A), C(A), dump D',
          calls_of(lambda: dumps(D(1))), own('sweeten', 'A', 'B', 'C', 'D'))


# --------------------------------------------------------------------------
# 4. the same class in loaders that register different sets of classes
# --------------------------------------------------------------------------
def registration_is_per_loader() -> None:
    class Base:
        def __init__(self, x: int) -> None:
            self.x = x
        _yatiml_savorize = hook('savorize', 'Base')
        _yatiml_sweeten = hook('sweeten', 'Base')

    class Sub(Base):
        _yatiml_savorize = hook('savorize', 'Sub')
        _yatiml_sweeten = hook('sweeten', 'Sub')

    # first a loader that does not know Base, then one that does
    load_sub_only = yatiml.load_function(Sub)
    check('loader(Sub): only Sub.savorize',
          calls_of(lambda: load_sub_only('x: 1')), own('savorize', 'Sub'))
    load_both = yatiml.load_function(Sub, Base)
    check('loader(Sub, Base) made after loader(Sub) was used: Base then Sub',
          calls_of(lambda: load_both('x: 1')), own('savorize', 'Base', 'Sub'))
    check('loader(Sub) again: still only Sub.savorize',
          calls_of(lambda: load_sub_only('x: 1')), own('savorize', 'Sub'))

    dumps_sub_only = yatiml.dumps_function(Sub)
    check('dumper(Sub): only Sub.sweeten',
          calls_of(lambda: dumps_sub_only(Sub(1))), own('sweeten', 'Sub'))
    dumps_both = yatiml.dumps_function(Sub, Base)
    check('dumper(Sub, Base): Base then Sub',
          calls_of(lambda: dumps_both(Sub(1))), own('sweeten', 'Base', 'Sub'))

    # and the other way around, with fresh classes
    class Base2:
        def __init__(self, x: int) -> None:
            self.x = x
        _yatiml_savorize = hook('savorize', 'Base2')

    class Sub2(Base2):
        _yatiml_savorize = hook('savorize', 'Sub2')

    load_both2 = yatiml.load_function(Sub2, Base2)
    check('loader(Sub2, Base2): Base2 then Sub2',
          calls_of(lambda: load_both2('x: 1')),
          own('savorize', 'Base2', 'Sub2'))
    load_sub2_only = yatiml.load_function(Sub2)
    check('loader(Sub2) made after loader(Sub2, Base2) was used:'
          ' Base2 is not registered here, only Sub2.savorize',
          calls_of(lambda: load_sub2_only('x: 1')), own('savorize', 'Sub2'))


# --------------------------------------------------------------------------
# 5. after recognition, before the attribute type check and construction
# --------------------------------------------------------------------------
def timing() -> None:
    events = []     # type: List[str]

    class Base:
        def __init__(self, amount: int) -> None:
            events.append('init')
            self.amount = amount

        @classmethod
        def _yatiml_savorize(cls, node: yatiml.Node) -> None:
            events.append('savorize ' + cls.__name__)
            # the document says "qty"; the type check wants "amount"
            if node.has_attribute('qty'):
                node.rename_attribute('qty', 'amount')

    class Item(Base):
        @classmethod
        def _yatiml_recognize(cls, node: yatiml.UnknownNode) -> None:
            events.append('recognize ' + cls.__name__)
            node.require_attribute('qty')

        @classmethod
        def _yatiml_savorize(cls, node: yatiml.Node) -> None:
            events.append('savorize ' + cls.__name__)
            # Base has run already, so qty is gone
            if node.has_attribute('qty') or not node.has_attribute('amount'):
                events.append('Item.savorize ran before Base.savorize')

    load = yatiml.load_function(Item, Base)
    obj = load('qty: 3')
    check('recognize, then savorize bases first, then type check and init',
          events,
          ['recognize Item', 'savorize Base', 'savorize Item', 'init'])
    check('savorized value reached the object', obj.amount, 3)

    # the type check comes after, and sees the savorized node
    del events[:]
    try:
        load('qty: three')
        events.append('no error')
    except yatiml.RecognitionError:
        events.append('RecognitionError')
    check('type error is found after savorizing',
          events, ['recognize Item', 'savorize Base', 'savorize Item',
                   'RecognitionError'])


# --------------------------------------------------------------------------
# 6. _yatiml_recognize is consulted only for the class that defines it
# --------------------------------------------------------------------------
def recognize_own_class_only() -> None:
    seen = []       # type: List[str]

    class Base:
        def __init__(self, x: int) -> None:
            self.x = x

        @classmethod
        def _yatiml_recognize(cls, node: yatiml.UnknownNode) -> None:
            seen.append(cls.__name__)
            node.require_attribute('x', int)

    class Sub(Base):
        def __init__(self, x: int, y: int) -> None:
            super().__init__(x)
            self.y = y

    load_sub = yatiml.load_function(Sub, Base)
    obj = load_sub('x: 1\ny: 2\n')
    check('loading Sub: Base._yatiml_recognize is not consulted', seen, [])
    check('loading Sub gives a Sub', type(obj).__name__, 'Sub')

    # Sub is recognised by its constructor signature, so y is required
    del seen[:]
    try:
        load_sub('x: 1')
        result = 'loaded'
    except yatiml.RecognitionError:
        result = 'RecognitionError'
    check('Sub without y is rejected (Base hook not used for Sub)',
          (result, seen), ('RecognitionError', []))

    del seen[:]
    load_base = yatiml.load_function(Base, Sub)
    obj = load_base('x: 1')
    check('loading Base: hook consulted as Base only', seen, ['Base'])
    check('loading Base gives a Base', type(obj).__name__, 'Base')


# --------------------------------------------------------------------------
# 7. SeasoningError while savorizing surfaces as RecognitionError
# --------------------------------------------------------------------------
def seasoning_error() -> None:
    class Base:
        def __init__(self, x: int) -> None:
            self.x = x

        @classmethod
        def _yatiml_savorize(cls, node: yatiml.Node) -> None:
            CALLS.append(('savorize', 'Base', cls.__name__))
            if node.has_attribute('bad_base'):
                raise yatiml.SeasoningError('base is off')

    class Sub(Base):
        @classmethod
        def _yatiml_savorize(cls, node: yatiml.Node) -> None:
            CALLS.append(('savorize', 'Sub', cls.__name__))
            if node.has_attribute('bad_sub'):
                raise yatiml.SeasoningError('sub is off')

    load = yatiml.load_function(Sub, Base)

    def outcome(text: str) -> Tuple[str, bool]:
        try:
            load(text)
            return 'loaded', False
        except yatiml.RecognitionError as e:
            return 'RecognitionError', ' is off' in str(e)
        except yatiml.SeasoningError:
            return 'SeasoningError', False

    del CALLS[:]
    check('SeasoningError in own hook -> RecognitionError with message',
          outcome('x: 1\nbad_sub: 1\n'), ('RecognitionError', True))
    check('hooks run up to the failing one',
          list(CALLS), own('savorize', 'Base', 'Sub'))
    del CALLS[:]
    check('SeasoningError in base hook -> RecognitionError with message',
          outcome('x: 1\nbad_base: 1\n'), ('RecognitionError', True))
    check('derived hook not run after base hook failed',
          list(CALLS), own('savorize', 'Base'))
    del CALLS[:]


# --------------------------------------------------------------------------
# 8. enums and user-defined strings, own hooks
# --------------------------------------------------------------------------
def enums_and_strings() -> None:
    class Colour(enum.Enum):
        RED = 1
        _yatiml_savorize = hook('savorize', 'Colour')
        _yatiml_sweeten = hook('sweeten', 'Colour')

    class Name(UserString):
        _yatiml_savorize = hook('savorize', 'Name')
        _yatiml_sweeten = hook('sweeten', 'Name')

    check('enum load', calls_of(lambda: yatiml.load_function(Colour)('RED')),
          own('savorize', 'Colour'))
    check('enum dump',
          calls_of(lambda: yatiml.dumps_function(Colour)(Colour.RED)),
          own('sweeten', 'Colour'))
    check('user string load',
          calls_of(lambda: yatiml.load_function(Name)('abc')),
          own('savorize', 'Name'))
    check('user string dump',
          calls_of(lambda: yatiml.dumps_function(Name)(Name('abc'))),
          own('sweeten', 'Name'))


# --------------------------------------------------------------------------
# 9. sweeten works on the node built from the object's attributes
# --------------------------------------------------------------------------
def sweeten_node() -> None:
    class Base:
        def __init__(self, a: int, b: int) -> None:
            self.a = a
            self.b = b

        @classmethod
        def _yatiml_sweeten(cls, node: yatiml.Node) -> None:
            CALLS.append(('sweeten', 'Base', ','.join(
                k.value for k, _ in node.yaml_node.value)))
            node.rename_attribute('a', 'alpha')

    class Sub(Base):
        @classmethod
        def _yatiml_sweeten(cls, node: yatiml.Node) -> None:
            CALLS.append(('sweeten', 'Sub', ','.join(
                k.value for k, _ in node.yaml_node.value)))
            node.rename_attribute('b', 'beta')

    dumps = yatiml.dumps_function(Sub, Base)
    del CALLS[:]
    text = dumps(Sub(1, 2))
    check('sweeten sees the attributes, derived sees the base\'s work',
          list(CALLS), [('sweeten', 'Base', 'a,b'),
                        ('sweeten', 'Sub', 'alpha,b')])
    check('dumped text', text, 'alpha: 1\nbeta: 2\n')
    del CALLS[:]


def main() -> int:
    for part in (
            linear_chain, inherited_hooks, diamond,
            registration_is_per_loader, timing, recognize_own_class_only,
            seasoning_error, enums_and_strings, sweeten_node):
        try:
            part()
        except Exception as e:     # an unexpected crash is a failure too
            FAILURES.append('{}: unexpected {}: {}'.format(
                part.__name__, type(e).__name__, e))
    if FAILURES:
        print('FAIL')
        for f in FAILURES:
            print('  - ' + f)
        return 1
    print('PASS')
    return 0


if __name__ == '__main__':
    sys.exit(main())
