"""C07 demo for pair 3 (final_newline option for the JSON dump functions).

Checks the statement of C07 (strict JSON, same content as the JSON
projection, ASCII-only and whitespace-free by default, non-ASCII left
alone with ensure_ascii=False, round trip through the matching load
function) on concrete values, for every indent / ensure_ascii setting
and for dumps_json, dump_json to a stream and dump_json to a path.

It then checks that the statement also holds for calls made with
default options on a dumps_json / dump_json function that has been
called with the new final_newline option before (if the library has
that option; on the original code that part reduces to calling the
function several times). Using one dump function for several calls
with different options is what exposes the slip.

Run as:
  cd /tmp/w5_C07 && PYTHONPATH=/tmp/w5_C07 /venv/bin/python demo.py
"""
import datetime
import enum
import io
import json
import math
import os
import pathlib
import re
import sys
import tempfile
from typing import Any, Dict, List

import yatiml

FAILURES = []   # type: List[str]


def fail(msg: str) -> None:
    FAILURES.append(msg)
    if len(FAILURES) <= 8:
        print('FAIL:', msg if len(msg) < 600 else msg[:600] + ' ...')
    elif len(FAILURES) == 9:
        print('(further violations not shown)')


# ---------------------------------------------------------------- helpers

class Color(enum.Enum):
    RED = 1
    GREEN = 2


class Point:
    def __init__(self, x: float, y: float, label: str) -> None:
        self.x = x
        self.y = y
        self.label = label

    def __eq__(self, other: Any) -> bool:
        return (isinstance(other, Point) and self.x == other.x and
                self.y == other.y and self.label == other.label)


class Drawing:
    def __init__(self, name: str, points: List[Point],
                 tags: Dict[str, str]) -> None:
        self.name = name
        self.points = points
        self.tags = tags

    def __eq__(self, other: Any) -> bool:
        return (isinstance(other, Drawing) and self.name == other.name and
                self.points == other.points and self.tags == other.tags)


def projection(obj: Any) -> Any:
    """The JSON projection: YAML projection, dates as ISO strings."""
    if isinstance(obj, (Point, Drawing)):
        return {k: projection(v) for k, v in vars(obj).items()}
    if isinstance(obj, enum.Enum):
        return obj.name
    if isinstance(obj, dict):
        return {str(k): projection(v) for k, v in obj.items()}
    if isinstance(obj, (list, tuple)):
        return [projection(v) for v in obj]
    if isinstance(obj, datetime.datetime):
        return obj.isoformat(' ')
    if isinstance(obj, datetime.date):
        return obj.isoformat()
    if isinstance(obj, pathlib.PurePath):
        return str(obj)
    return obj


def same(a: Any, b: Any) -> bool:
    """Equality that tells 1 from 1.0 from True, and -0.0 from 0.0."""
    if type(a) is not type(b):
        return False
    if isinstance(a, dict):
        return (a.keys() == b.keys() and
                all(same(a[k], b[k]) for k in a))
    if isinstance(a, list):
        return len(a) == len(b) and all(same(x, y) for x, y in zip(a, b))
    if isinstance(a, float):
        return a == b and math.copysign(1.0, a) == math.copysign(1.0, b)
    return bool(a == b)


def strict_json(text: str) -> Any:
    """Parse strict RFC 8259 JSON, raise ValueError otherwise."""
    def no_constant(name: str) -> Any:
        raise ValueError('non-JSON constant {}'.format(name))

    def no_dupes(pairs: Any) -> Any:
        keys = [k for k, _ in pairs]
        if len(keys) != len(set(keys)):
            raise ValueError('duplicate keys')
        return dict(pairs)

    return json.loads(
            text, parse_constant=no_constant, object_pairs_hook=no_dupes)


_STRING_LITERAL = re.compile(r'"(?:[^"\\]|\\.)*"', re.DOTALL)


def strings_of(obj: Any) -> List[str]:
    if isinstance(obj, str):
        return [obj]
    if isinstance(obj, dict):
        return [s for k, v in obj.items()
                for s in strings_of(k) + strings_of(v)]
    if isinstance(obj, list):
        return [s for v in obj for s in strings_of(v)]
    return []


def printable_bmp(obj: Any) -> bool:
    return all(
            c.isprintable() and ord(c) <= 0xffff
            for s in strings_of(projection(obj)) for c in s)


INDENTS = [None, 0, 1, 2, 3, 4, 8, 9, 12]


def check_text(what: str, obj: Any, text: str, indent: Any,
               ensure_ascii: bool) -> None:
    what = '{} indent={} ensure_ascii={} on {!r}'.format(
            what, indent, ensure_ascii, obj)
    try:
        parsed = strict_json(text)
    except ValueError as e:
        fail('{}: output {!r} is not strict JSON ({})'.format(what, text, e))
        return
    expected = projection(obj)
    if not same(parsed, expected):
        fail('{}: output {!r} holds {!r}, expected {!r}'.format(
            what, text, parsed, expected))
    literals = _STRING_LITERAL.findall(text)
    if ensure_ascii:
        if not text.isascii():
            fail('{}: non-ASCII output {!r}'.format(what, text))
    else:
        for lit in literals:
            for m in re.finditer(r'(?<!\\)(?:\\\\)*\\u([0-9a-fA-F]{4})', lit):
                if int(m.group(1), 16) >= 0x80:
                    fail('{}: non-ASCII character escaped in {!r}'.format(
                        what, text))
        for s in strings_of(expected):
            for c in s:
                if ord(c) >= 0x80 and c not in text:
                    fail('{}: character {!r} not in output {!r}'.format(
                        what, c, text))
    if indent is None:
        outside = _STRING_LITERAL.sub('', text)
        if re.search(r'\s', outside):
            fail('{}: whitespace outside strings in {!r}'.format(what, text))


def check_value(obj: Any, *classes: Any, load_as: Any = None) -> None:
    """Checks the whole statement of C07 for one value."""
    dumps = yatiml.dumps_json_function(*classes)
    dump = yatiml.dump_json_function(*classes)
    for indent in INDENTS:
        for ensure_ascii in (True, False):
            kwargs = dict()     # type: Dict[str, Any]
            if indent is not None:
                kwargs['indent'] = indent
            if not ensure_ascii:
                kwargs['ensure_ascii'] = False
            try:
                text = dumps(obj, **kwargs)
            except Exception as e:
                fail('dumps_json indent={} ensure_ascii={} on {!r} raised'
                     ' {}: {}'.format(
                         indent, ensure_ascii, obj, type(e).__name__, e))
                continue
            check_text('dumps_json', obj, text, indent, ensure_ascii)

            # dump_json to a stream and to a file give the same
            try:
                stream = io.StringIO()
                dump(obj, stream, **kwargs)
                check_text('dump_json(stream)', obj, stream.getvalue(),
                           indent, ensure_ascii)
                with tempfile.TemporaryDirectory() as d:
                    path = pathlib.Path(d) / 'out.json'
                    dump(obj, path, **kwargs)
                    with path.open('r') as f:
                        check_text('dump_json(path)', obj, f.read(), indent,
                                   ensure_ascii)
                    if load_as is not None and printable_bmp(obj):
                        loaded = yatiml.load_function(load_as, *classes)(path)
                        if not same_obj(loaded, obj):
                            fail('load(dump_json(path)) indent={}'
                                 ' ensure_ascii={} on {!r} gave {!r}'.format(
                                     indent, ensure_ascii, obj, loaded))
            except Exception as e:
                fail('dump_json indent={} ensure_ascii={} on {!r} raised'
                     ' {}: {}'.format(
                         indent, ensure_ascii, obj, type(e).__name__, e))

            # round trip
            if load_as is not None and printable_bmp(obj):
                try:
                    loaded = yatiml.load_function(load_as, *classes)(text)
                except Exception as e:
                    fail('loading {!r} raised {}: {}'.format(
                        text, type(e).__name__, e))
                    continue
                if not same_obj(loaded, obj):
                    fail('load(dumps_json) indent={} ensure_ascii={} on {!r}'
                         ' gave {!r}'.format(
                             indent, ensure_ascii, obj, loaded))


def same_obj(a: Any, b: Any) -> bool:
    if isinstance(b, (Point, Drawing, enum.Enum)):
        return bool(a == b)
    return same(a, b)


def finish() -> None:
    if FAILURES:
        print('FAIL ({} violations of C07)'.format(len(FAILURES)))
        sys.exit(1)
    print('PASS')
    sys.exit(0)


# ------------------------------------------------------------------ cases

def has_final_newline_option() -> bool:
    try:
        yatiml.dumps_json_function()(1, final_newline=None)
    except TypeError:
        return False
    return True


def check_after_option(obj: Any, *classes: Any) -> None:
    """C07 for default calls that come after calls with the new option."""
    have_option = has_final_newline_option()
    for ensure_ascii in (True, False):
        kwargs = dict()     # type: Dict[str, Any]
        if not ensure_ascii:
            kwargs['ensure_ascii'] = False

        # to a string
        dumps = yatiml.dumps_json_function(*classes)
        check_text('dumps_json (first call)', obj, dumps(obj, **kwargs),
                   None, ensure_ascii)
        if have_option:
            for indent in (None, 2):
                for final_newline in (False, True):
                    text = dumps(obj, indent=indent, ensure_ascii=ensure_ascii,
                                 final_newline=final_newline)
                    # only validity and content, we asked for the whitespace
                    check_text(
                        'dumps_json final_newline={}'.format(final_newline),
                        obj, text, 'n/a' if indent is None else indent,
                        ensure_ascii)
        check_text('dumps_json (default, after final_newline=True)', obj,
                   dumps(obj, **kwargs), None, ensure_ascii)
        check_text('dumps_json (indent, after final_newline=True)', obj,
                   dumps(obj, indent=4, **kwargs), 4, ensure_ascii)

        # to a stream and to a file
        dump = yatiml.dump_json_function(*classes)
        with tempfile.TemporaryDirectory() as d:
            path = pathlib.Path(d) / 'out.json'
            if have_option:
                dump(obj, io.StringIO(), final_newline=True, **kwargs)
                dump(obj, path, final_newline=True, **kwargs)
            stream = io.StringIO()
            dump(obj, stream, **kwargs)
            check_text('dump_json(stream) (default, after final_newline=True)',
                       obj, stream.getvalue(), None, ensure_ascii)
            dump(obj, str(path), **kwargs)
            with path.open('r') as f:
                check_text(
                    'dump_json(path) (default, after final_newline=True)',
                    obj, f.read(), None, ensure_ascii)


if __name__ == '__main__':
    print('yatiml from', yatiml.__file__)

    # generic values
    check_value(
            {'a': 1, 'b': [1.5, 1e20, -0.0, True, None, 'x y'],
             'c': {'d': [], 'e': {}}}, load_as=Dict[str, Any])
    check_value(
            ['say "hi"', 'a\\b', 'é', '€', 'tab\there', '\U0001F600',
             '\x7f', ' ', ''], load_as=List[str])
    check_value({'k': datetime.date(2020, 2, 29),
                 'w': datetime.datetime(2021, 3, 4, 5, 6, 7),
                 'p': pathlib.Path('/a/b'), 't': (1, 2)})
    check_value([Color.RED, Color.GREEN, Color.RED], Color,
                load_as=List[Color])
    check_value(
            Drawing('d', [Point(1.0, 2.5, 'é'), Point(0.0, 1e-7, '')],
                    {'k': 'v'}), Drawing, Point, load_as=Drawing)

    # the same function object used with different options
    check_after_option({'x': 1})
    check_after_option([1, 'two', 3.0, None, {'k': 'é€'}])
    check_after_option('plain text')
    check_after_option(42)
    check_after_option(
            Drawing('d', [Point(1.0, 2.5, 'é')], {'k': 'v'}), Drawing, Point)

    # and everything still holds afterwards
    check_value({'a': [1, 2, {'b': None}], 'c': 'ü'}, load_as=Dict[str, Any])

    finish()
