#!/usr/bin/env python3
"""Checks property C15 of yatiml on concrete inputs.

C15: the structural seasoning transforms of yatiml.Node are inverse pairs,
produce exactly the documented shape, and are no-ops when not applicable.

Prints PASS and exits 0 if every check holds, prints FAIL with the list of
broken checks and exits 1 otherwise.
"""
import sys

import yaml
import yatiml

FAILURES = []


# ---------------------------------------------------------------- plumbing

def plain(node):
    """yaml.Node -> comparable plain data (keeps order, keeps tags)."""
    if isinstance(node, yaml.ScalarNode):
        return ('scalar', node.tag.split(':')[-1], node.value)
    if isinstance(node, yaml.SequenceNode):
        return ('seq', [plain(n) for n in node.value])
    if isinstance(node, yaml.MappingNode):
        return ('map', [(k.value, plain(v)) for k, v in node.value])
    raise TypeError(node)


def strip_marks(node):
    """Nodes made while dumping have no marks; imitate that."""
    node.start_mark = None
    node.end_mark = None
    if isinstance(node, yaml.SequenceNode):
        for n in node.value:
            strip_marks(n)
    elif isinstance(node, yaml.MappingNode):
        for k, v in node.value:
            strip_marks(k)
            strip_marks(v)
    return node


def make(text, marks=True):
    node = yaml.compose(text)
    if not marks:
        strip_marks(node)
    return yatiml.Node(node)


def S(value, tag='str'):
    return ('scalar', tag, value)


def check(name, cond, detail=''):
    if not cond:
        FAILURES.append('{}{}'.format(name, ': ' + detail if detail else ''))


def run(name, func):
    """Runs func, returns (exception or None)."""
    try:
        func()
        return None
    except Exception as e:      # noqa
        return e


# ------------------------------------------- independent model of the docs

def model_seq_to_map(items, key, val):
    out = []
    for kind, pairs in items:
        rest = [(n, v) for n, v in pairs if n != key]
        kv = dict(pairs)[key][2]
        if val is not None and len(rest) == 1 and rest[0][0] == val:
            out.append((kv, rest[0][1]))
        else:
            out.append((kv, ('map', rest)))
    return ('map', out)


def model_index_to_map(entries, key, val):
    out = []
    for name, (kind, pairs) in entries:
        rest = [(n, v) for n, v in pairs if n != key]
        if val is not None and len(rest) == 1 and rest[0][0] == val:
            out.append((name, rest[0][1]))
        else:
            out.append((name, ('map', rest)))
    return ('map', out)


def model_map_to_seq(entries, key, val):
    out = []
    for name, value in entries:
        if value[0] == 'map':
            pairs = [(n, v) for n, v in value[1] if n != key]
        else:
            pairs = [(val, value)]
        out.append(('map', pairs + [(key, S(name))]))
    return ('seq', out)


def model_map_to_index(entries, key, val):
    out = []
    for name, value in entries:
        if value[0] == 'map':
            pairs = list(value[1])
        elif val is not None:
            pairs = [(val, value)]
        else:
            out.append((name, value))
            continue
        out.append((name, ('map', pairs + [(key, S(name))])))
    return ('map', out)


def same_up_to_key_position(a, b, key):
    """Compares two collections of items, ignoring where `key` sits."""
    def norm(item):
        kind, pairs = item
        keyv = [v for n, v in pairs if n == key]
        rest = [(n, v) for n, v in pairs if n != key]
        return (kind, keyv, rest)
    if a[0] != b[0] or len(a[1]) != len(b[1]):
        return False
    if a[0] == 'seq':
        return [norm(i) for i in a[1]] == [norm(i) for i in b[1]]
    return [(n, norm(i)) for n, i in a[1]] == [(n, norm(i)) for n, i in b[1]]


# ------------------------------------------------------------------ inputs

# sequences of mappings with unique string keys; every item has the value
# attribute whenever one is named, and it never holds a mapping
SEQ_CASES = [
    ('two items, key first',
     'items:\n- {id: a, price: 1.0}\n- {id: b, price: 2.0, sale: true}\n',
     'id', 'price'),
    ('key in the middle',
     'items:\n- {price: 1, id: a, tags: [x, y]}\n- {price: 2, id: b}\n',
     'id', 'price'),
    ('key last, no value attribute',
     'items:\n- {descr: one, n: 1, id: a}\n- {descr: two, id: b}\n',
     'id', None),
    ('only the key',
     'items:\n- {id: a}\n- {id: b}\n', 'id', None),
    ('single item, null value',
     'items:\n- {name: x-y_z, v: null}\n', 'name', 'v'),
    ('value attribute holds a sequence',
     'items:\n- {id: a, v: [1, 2]}\n- {id: b, v: [], w: 0}\n', 'id', 'v'),
    ('empty sequence', 'items: []\n', 'id', None),
    ('empty sequence, value attribute', 'items: []\n', 'id', 'price'),
    ('other attributes around',
     'first: 1\nitems:\n- {id: a, price: 1}\nlast: {id: q}\n', 'id', 'price'),
]

# mappings of mappings, inner key attribute equal to the outer key
INDEX_CASES = [
    ('three employees',
     'items:\n  Mary: {name: Mary, role: Director}\n'
     '  Vishnu: {name: Vishnu, role: Sales}\n'
     '  Susan: {role: Engineering, name: Susan, hours: 32}\n',
     'name', 'role'),
    ('no value attribute',
     'items:\n  a: {id: a, x: 1}\n  b: {y: 2, id: b, z: 3}\n', 'id', None),
    ('sole remaining key is not the value attribute',
     'items:\n  a: {id: a, x: 1}\n  b: {id: b, price: 2}\n', 'id', 'price'),
    ('sole remaining key is not the value attribute, single entry',
     'items:\n  a: {id: a, descr: widget}\n', 'id', 'price'),
    ('only the key', 'items:\n  a: {id: a}\n', 'id', 'price'),
    ('empty mapping', 'items: {}\n', 'id', None),
    ('empty mapping, value attribute', 'items: {}\n', 'id', 'price'),
]

# mappings as a user would write them for the savorize direction
MAP_CASES = [
    ('mappings only',
     'items:\n  a: {descr: one, price: 1.0}\n  b: {price: 2.0}\n',
     'id', None),
    ('short and long mixed',
     'items:\n  a: Basic widget\n  b: {descr: Premium widget, price: 2.0}\n',
     'id', 'descr'),
    ('all short', 'items:\n  a: 1\n  b: 2\n  c: null\n', 'id', 'n'),
    ('empty mapping', 'items: {}\n', 'id', None),
    ('empty mapping, value attribute', 'items: {}\n', 'id', 'price'),
]


def items_of(node):
    return plain(node.yaml_node)[1]


def attr(node, name='items'):
    return dict(plain(node.yaml_node)[1])[name]


def others(node, name='items'):
    return [(n, v) for n, v in plain(node.yaml_node)[1] if n != name]


# ------------------------------------------------------------------ checks

def check_seq_cases(marks):
    m = 'marks' if marks else 'no marks'
    for title, text, key, val in SEQ_CASES:
        label = 'seq [{}; {}]'.format(title, m)
        node = make(text, marks)
        orig = attr(node)
        rest = others(node)
        err = run(label, lambda: node.seq_attribute_to_map(
            'items', key, val))
        if err is not None:
            check(label + ' seq_attribute_to_map raised', False, repr(err))
            continue
        got = attr(node)
        want = model_seq_to_map(orig[1], key, val)
        check(label + ' seq_attribute_to_map shape', got == want,
              'got {} expected {}'.format(got, want))
        check(label + ' other attributes untouched', others(node) == rest)

        err = run(label, lambda: node.map_attribute_to_seq(
            'items', key, val))
        if err is not None:
            check(label + ' map_attribute_to_seq raised', False, repr(err))
            continue
        back = attr(node)
        check(label + ' round trip seq->map->seq',
              same_up_to_key_position(orig, back, key),
              'got {} expected {}'.format(back, orig))


def check_index_cases(marks):
    m = 'marks' if marks else 'no marks'
    for title, text, key, val in INDEX_CASES:
        label = 'index [{}; {}]'.format(title, m)
        node = make(text, marks)
        orig = attr(node)
        err = run(label, lambda: node.index_attribute_to_map(
            'items', key, val))
        if err is not None:
            check(label + ' index_attribute_to_map raised', False, repr(err))
            continue
        got = attr(node)
        want = model_index_to_map(orig[1], key, val)
        check(label + ' index_attribute_to_map shape', got == want,
              'got {} expected {}'.format(got, want))

        err = run(label, lambda: node.map_attribute_to_index(
            'items', key, val))
        if err is not None:
            check(label + ' map_attribute_to_index raised', False, repr(err))
            continue
        back = attr(node)
        check(label + ' round trip index->map->index',
              same_up_to_key_position(orig, back, key),
              'got {} expected {}'.format(back, orig))


def check_map_cases(marks):
    m = 'marks' if marks else 'no marks'
    for title, text, key, val in MAP_CASES:
        label = 'map [{}; {}]'.format(title, m)
        node = make(text, marks)
        orig = attr(node)
        node.map_attribute_to_seq('items', key, val)
        got = attr(node)
        want = model_map_to_seq(orig[1], key, val)
        check(label + ' map_attribute_to_seq shape', got == want,
              'got {} expected {}'.format(got, want))

        node = make(text, marks)
        node.map_attribute_to_index('items', key, val)
        got = attr(node)
        want = model_map_to_index(orig[1], key, val)
        check(label + ' map_attribute_to_index shape', got == want,
              'got {} expected {}'.format(got, want))


NOOP_TEXT = (
    'scalar: 42\n'
    'text: some words\n'
    'nothing: null\n'
    'seq: [{id: a, x: 1}, {id: b, x: 2}]\n'
    'map: {a: {id: a, x: 1}, b: {id: b, x: 2}}\n')


def check_noops(marks):
    m = 'marks' if marks else 'no marks'
    transforms = [
        ('seq_attribute_to_map', ['missing', 'scalar', 'text', 'nothing',
                                  'map']),
        ('map_attribute_to_seq', ['missing', 'scalar', 'text', 'nothing',
                                  'seq']),
        ('index_attribute_to_map', ['missing', 'scalar', 'text', 'nothing',
                                    'seq']),
        ('map_attribute_to_index', ['missing', 'scalar', 'text', 'nothing',
                                    'seq']),
    ]
    for name, attrs in transforms:
        for attribute in attrs:
            for val in (None, 'x'):
                label = 'no-op [{}({!r}, "id", {!r}); {}]'.format(
                    name, attribute, val, m)
                node = make(NOOP_TEXT, marks)
                before = plain(node.yaml_node)
                err = run(label, lambda: getattr(node, name)(
                    attribute, 'id', val))
                check(label + ' raised', err is None, repr(err))
                check(label + ' changed the node',
                      plain(node.yaml_node) == before)


DUP_CASES = [
    ('duplicate in second item',
     'items:\n- {id: a, x: 1}\n- {id: a, x: 2}\n', None),
    ('duplicate in third item',
     'items:\n- {id: a, x: 1}\n- {id: b, x: 2}\n- {x: 3, id: a}\n', None),
    ('duplicate, value attribute',
     'items:\n- {id: a, x: 1}\n- {id: b, x: 2}\n- {id: b, x: 3}\n', 'x'),
]


def check_duplicates(marks):
    m = 'marks' if marks else 'no marks'
    for title, text, val in DUP_CASES:
        label = 'duplicates [{}; {}]'.format(title, m)
        # strict (also the default): SeasoningError
        for kwargs in ({}, {'strict': True}):
            node = make(text, marks)
            err = run(label, lambda: node.seq_attribute_to_map(
                'items', 'id', val, **kwargs))
            check(label + ' strict {} raises SeasoningError'.format(kwargs),
                  isinstance(err, yatiml.SeasoningError), repr(err))
        # not strict: silently nothing
        node = make(text, marks)
        before = plain(node.yaml_node)
        err = run(label, lambda: node.seq_attribute_to_map(
            'items', 'id', val, strict=False))
        check(label + ' strict=False does not raise', err is None, repr(err))
        check(label + ' strict=False leaves node unchanged',
              plain(node.yaml_node) == before,
              'got {}'.format(plain(node.yaml_node)))
    # unique keys never raise, whatever strict says
    for strict in (True, False):
        node = make('items:\n- {id: a, x: 1}\n- {id: b, x: 1}\n', marks)
        err = run('unique', lambda: node.seq_attribute_to_map(
            'items', 'id', 'x', strict=strict))
        check('unique keys, strict={}: no error'.format(strict), err is None,
              repr(err))
        check('unique keys, strict={}: converted'.format(strict),
              attr(node) == ('map', [('a', S('1', 'int')),
                                     ('b', S('1', 'int'))]))


def check_dashes_unders(marks):
    m = 'marks' if marks else 'no marks'
    text = ('plain: 1\nwith-dash: 2\nmore-than-one-dash: 3\n'
            'nested: {in-ner: 1, in_ner2: 2}\n"": 4\n"-": 5\n')
    node = make(text, marks)
    before = plain(node.yaml_node)
    node.dashes_to_unders_in_keys()
    mid = plain(node.yaml_node)
    check('dashes_to_unders_in_keys result [{}]'.format(m),
          [n for n, _ in mid[1]] == ['plain', 'with_dash',
                                     'more_than_one_dash', 'nested', '', '_'],
          str([n for n, _ in mid[1]]))
    check('dashes_to_unders_in_keys leaves values alone [{}]'.format(m),
          [v for _, v in mid[1]] == [v for _, v in before[1]])
    node.unders_to_dashes_in_keys()
    check('dashes->unders->dashes restores [{}]'.format(m),
          plain(node.yaml_node) == before)

    text = ('plain: 1\nwith_under: 2\nmore_than_one_under: 3\n'
            'nested: {in-ner: 1, in_ner2: 2}\n_: 5\n')
    node = make(text, marks)
    before = plain(node.yaml_node)
    node.unders_to_dashes_in_keys()
    mid = plain(node.yaml_node)
    check('unders_to_dashes_in_keys result [{}]'.format(m),
          [n for n, _ in mid[1]] == ['plain', 'with-under',
                                     'more-than-one-under', 'nested', '-'],
          str([n for n, _ in mid[1]]))
    check('unders_to_dashes_in_keys leaves values alone [{}]'.format(m),
          [v for _, v in mid[1]] == [v for _, v in before[1]])
    node.dashes_to_unders_in_keys()
    check('unders->dashes->unders restores [{}]'.format(m),
          plain(node.yaml_node) == before)

    node = make('{}\n', marks)
    node.dashes_to_unders_in_keys()
    node.unders_to_dashes_in_keys()
    check('empty mapping stays empty [{}]'.format(m),
          plain(node.yaml_node) == ('map', []))


def main():
    print('yatiml imported from', yatiml.__file__)
    for marks in (True, False):
        check_seq_cases(marks)
        check_index_cases(marks)
        check_map_cases(marks)
        check_noops(marks)
        check_duplicates(marks)
        check_dashes_unders(marks)
    extra_checks()
    if FAILURES:
        print('FAIL: {} check(s) of property C15 do not hold:'.format(
            len(FAILURES)))
        for f in FAILURES:
            print('  - ' + f)
        sys.exit(1)
    print('PASS')
    sys.exit(0)


# ------------------------------------------- specific to this pair of diffs

def extra_checks():
    """The short form only when the value attribute is the sole remaining key.

    An item that has exactly one attribute left after taking out the key,
    but a different one than the value attribute, must keep the long form.
    Otherwise the reverse transform puts the value back under the wrong
    name and the pair is no longer an inverse pair.
    """
    from typing import Dict

    # index_attribute_to_map: documented shape and round trip
    text = ('employees:\n'
            '  Mary: {name: Mary, role: Director}\n'
            '  Vishnu: {name: Vishnu, hours: 32}\n'
            '  Susan: {name: Susan, role: Engineering, hours: 40}\n')
    node = make(text)
    before = attr(node, 'employees')
    node.index_attribute_to_map('employees', 'name', 'role')
    got = attr(node, 'employees')
    want = ('map', [
        ('Mary', S('Director')),
        ('Vishnu', ('map', [('hours', S('32', 'int'))])),
        ('Susan', ('map', [('role', S('Engineering')),
                           ('hours', S('40', 'int'))]))])
    check('index_attribute_to_map("employees", "name", "role"): Vishnu has'
          ' hours but no role, so keeps the long form',
          got == want, 'got {}'.format(got))
    node.map_attribute_to_index('employees', 'name', 'role')
    back = attr(node, 'employees')
    check('index_attribute_to_map then map_attribute_to_index restores the'
          ' employees',
          same_up_to_key_position(before, back, 'name'),
          'got {} expected {}'.format(back, before))

    # seq_attribute_to_map: the original raises SeasoningError for an item
    # without the value attribute, which the fix turns into the long form;
    # either way it must never come out in the short form
    text = ('items:\n'
            '- {item_id: item1, price: 100.0}\n'
            '- {item_id: item2, description: Premium quality widget}\n')
    node = make(text)
    before = attr(node)
    err = run('seq', lambda: node.seq_attribute_to_map(
        'items', 'item_id', 'price'))
    if err is not None:
        check('seq_attribute_to_map with an item lacking the value'
              ' attribute: SeasoningError if anything',
              isinstance(err, yatiml.SeasoningError), repr(err))
    else:
        got = attr(node)
        want = ('map', [
            ('item1', S('100.0', 'float')),
            ('item2', ('map', [
                ('description', S('Premium quality widget'))]))])
        check('seq_attribute_to_map("items", "item_id", "price"): item2 has'
              ' a description but no price, so keeps the long form',
              got == want, 'got {}'.format(got))
        node.map_attribute_to_seq('items', 'item_id', 'price')
        back = attr(node)
        check('seq_attribute_to_map then map_attribute_to_seq restores the'
              ' items', same_up_to_key_position(before, back, 'item_id'),
              'got {} expected {}'.format(back, before))

    # the same seen through a dump and a load
    class Employee:
        def __init__(self, name: str, role: str = 'Staff',
                     hours: int = 40) -> None:
            self.name = name
            self.role = role
            self.hours = hours

        @classmethod
        def _yatiml_sweeten(cls, node: yatiml.Node) -> None:
            node.remove_attributes_with_default_values(cls)

    class Company:
        def __init__(self, employees: Dict[str, Employee]) -> None:
            self.employees = employees

        @classmethod
        def _yatiml_recognize(cls, node: yatiml.UnknownNode) -> None:
            node.require_attribute('employees')

        @classmethod
        def _yatiml_savorize(cls, node: yatiml.Node) -> None:
            node.map_attribute_to_index('employees', 'name', 'role')

        @classmethod
        def _yatiml_sweeten(cls, node: yatiml.Node) -> None:
            node.index_attribute_to_map('employees', 'name', 'role')

    load = yatiml.load_function(Company, Employee)
    dumps = yatiml.dumps_function(Company, Employee)

    company = Company({
        'Mary': Employee('Mary', 'Director'),
        'Vishnu': Employee('Vishnu', hours=32)})
    text = dumps(company)
    check('dumping a company',
          yaml.safe_load(text) == {'employees': {
              'Mary': 'Director', 'Vishnu': {'hours': 32}}},
          'got {}'.format(yaml.safe_load(text)))
    try:
        again = load(text)
        check('... and loading it again gives the same employees',
              {k: (e.name, e.role, e.hours)
               for k, e in again.employees.items()} == {
                   'Mary': ('Mary', 'Director', 40),
                   'Vishnu': ('Vishnu', 'Staff', 32)},
              'got {}'.format({k: (e.name, e.role, e.hours)
                               for k, e in again.employees.items()}))
    except Exception as e:      # noqa
        check('... and loading it again', False,
              '{}: {}'.format(type(e).__name__, ' '.join(str(e).split())))


if __name__ == '__main__':
    main()
