"""E13 accumulator provenance: what a locally built set / list holds, whatever the spelling.

    acc = set()                                   results = [F(t) for t in XS]
    for t in XS:                                  acc = set().union(*(ts for ts, _ in results))
        ts, r = F(t)                              errs = [r for ts, r in results if not ts]
        if not ts: errs.append(r)
        acc |= ts

Both columns give   acc  = UNION  F(<x>)[0]  for <x> in XS
                    errs = APPEND F(<x>)[1]  for <x> in XS  if not F(<x>)[0]

A contribution is (kind, element, source, condition) with the element and the condition written over the placeholder <x> for
"the current element of the source"; loop-local single bindings and tuple unpackings are substituted, `len(e) == 0` is `not e`.
Anything the analysis does not understand makes `contributions()` return None for that accumulator (the caller falls back to its
structural checks).
"""
import ast
from typing import Dict, List, Optional, Tuple

from .dtable import clone, subst
from .guards import norm, call_name

X = '‹x›'


class Contribution:
    def __init__(self, kind: str, elem: str, source: str, cond: Optional[str], whole: bool, node: ast.AST):
        self.kind, self.elem, self.source, self.cond, self.whole, self.node = kind, elem, source, cond, whole, node

    def key(self):
        return (self.kind, self.elem, self.source, self.cond, self.whole)

    def __repr__(self):
        return '%s %s for %s in %s%s%s' % (self.kind.upper(), self.elem, X, self.source, ' if ' + self.cond if self.cond else '',
                                           '' if self.whole else ' (the loop can stop early)')


def _canon_cond(e: ast.AST) -> ast.AST:
    class T(ast.NodeTransformer):
        def visit_Compare(self, n):
            self.generic_visit(n)
            if len(n.ops) == 1 and isinstance(n.left, ast.Call) and isinstance(n.left.func, ast.Name) and n.left.func.id == 'len' \
                    and len(n.left.args) == 1 and isinstance(n.comparators[0], ast.Constant):
                c, op = n.comparators[0].value, n.ops[0]
                arg = n.left.args[0]
                if (isinstance(op, ast.Eq) and c == 0) or (isinstance(op, ast.Lt) and c == 1) or (isinstance(op, ast.LtE) and c == 0):
                    return ast.UnaryOp(ast.Not(), arg)
                if (isinstance(op, ast.NotEq) and c == 0) or (isinstance(op, ast.Gt) and c == 0) or (isinstance(op, ast.GtE) and c == 1):
                    return arg
            return n
    return T().visit(clone(e))


def _text(e: ast.AST) -> str:
    return norm(_canon_cond(e))


class AccFlow:
    def __init__(self, fn_node: ast.AST, alpha=None):
        self.fn = fn_node
        self.alpha = alpha
        self.seqs: Dict[str, Tuple[ast.AST, str, Optional[ast.AST]]] = {}     # materialised list name -> (elem expr over X, source, cond)
        self.acc: Dict[str, Optional[List[Contribution]]] = {}
        self._scan(fn_node.body)

    # ---- helpers ----------------------------------------------------------------------------------------------------
    def _src(self, e: ast.AST) -> str:
        return self.alpha.text(e) if self.alpha is not None else norm(e)

    @staticmethod
    def _empty(e: ast.AST) -> Optional[str]:
        if isinstance(e, ast.Call) and isinstance(e.func, ast.Name) and e.func.id in ('set', 'list') and not e.args and not e.keywords:
            return e.func.id
        if isinstance(e, ast.List) and not e.elts:
            return 'list'
        return None

    def _elements(self, it: ast.AST, target: ast.AST):
        """(env for the target names, source text, inherited condition) of iterating `it` with `target`"""
        if isinstance(it, ast.Call) and isinstance(it.func, ast.Name) and it.func.id == 'enumerate' and len(it.args) == 1 \
                and isinstance(target, ast.Tuple) and len(target.elts) == 2:
            it, target = it.args[0], target.elts[1]
        base: ast.AST = ast.Name(X, ast.Load())
        source = None
        inherited = None
        if isinstance(it, ast.Name) and it.id in self.seqs:
            base, source, inherited = self.seqs[it.id]
        else:
            source = self._src(it)
        env = {}
        if isinstance(target, ast.Name):
            env[target.id] = base
        elif isinstance(target, ast.Tuple) and all(isinstance(t, ast.Name) for t in target.elts):
            for i, t in enumerate(target.elts):
                env[t.id] = ast.Subscript(clone(base), ast.Constant(i), ast.Load())
        else:
            return None
        return env, source, inherited

    # ---- statements -------------------------------------------------------------------------------------------------
    def _scan(self, stmts):
        for st in stmts:
            if isinstance(st, ast.Assign) and len(st.targets) == 1 and isinstance(st.targets[0], ast.Name):
                name, v = st.targets[0].id, st.value
                if self._empty(v):
                    if name in self.acc:
                        self.acc[name] = None           # re-initialised: not a simple accumulator
                    else:
                        self.acc[name] = []
                    continue
                got = self._comprehension(name, v, st)
                if got:
                    continue
                if name in self.acc:
                    # acc = acc | e   /  acc = acc.union(e) outside a loop: unsupported here
                    self.acc[name] = None
            elif isinstance(st, ast.For):
                self._loop(st)
            elif isinstance(st, (ast.If, ast.Try, ast.With)):
                # accumulators touched under a condition outside a loop are not simple
                for n in ast.walk(st):
                    tgt = self._write_target(n)
                    if tgt in self.acc:
                        self.acc[tgt] = None
            else:
                for n in ast.walk(st):
                    tgt = self._write_target(n)
                    if tgt in self.acc and not self._is_post_filter(st):
                        self.acc[tgt] = None

    @staticmethod
    def _is_post_filter(st) -> bool:
        return False

    @staticmethod
    def _write_target(n) -> Optional[str]:
        if isinstance(n, ast.AugAssign) and isinstance(n.target, ast.Name):
            return n.target.id
        if isinstance(n, ast.Call) and isinstance(n.func, ast.Attribute) and isinstance(n.func.value, ast.Name) \
                and n.func.attr in ('append', 'add', 'update', 'extend', 'insert', 'clear', 'pop'):
            return n.func.value.id
        return None

    def _comprehension(self, name: str, v: ast.AST, st) -> bool:
        # V = [E for T in XS if C]
        if isinstance(v, (ast.ListComp, ast.SetComp)) and len(v.generators) == 1 and not v.generators[0].is_async:
            g = v.generators[0]
            got = self._elements(g.iter, g.target)
            if got is None:
                return False
            env, source, inherited = got
            elem = subst(v.elt, env)
            cond = None
            conds = [subst(c, env) for c in g.ifs] + ([inherited] if inherited is not None else [])
            if conds:
                cond = conds[0] if len(conds) == 1 else ast.BoolOp(ast.And(), conds)
            self.seqs[name] = (elem, source, cond)
            kind = 'append' if isinstance(v, ast.ListComp) else 'add'
            self.acc[name] = [Contribution(kind, _text(elem), source, _text(cond) if cond is not None else None, True, st)]
            return True
        # V = set().union(*(E for T in XS))  /  set().union(*[..])
        if isinstance(v, ast.Call) and isinstance(v.func, ast.Attribute) and v.func.attr == 'union' and self._empty(v.func.value) == 'set' \
                and len(v.args) == 1 and isinstance(v.args[0], ast.Starred) and isinstance(v.args[0].value, (ast.GeneratorExp, ast.ListComp)) \
                and len(v.args[0].value.generators) == 1:
            ge = v.args[0].value
            g = ge.generators[0]
            got = self._elements(g.iter, g.target)
            if got is None:
                return False
            env, source, inherited = got
            conds = [subst(c, env) for c in g.ifs] + ([inherited] if inherited is not None else [])
            cond = None if not conds else conds[0] if len(conds) == 1 else ast.BoolOp(ast.And(), conds)
            self.acc[name] = [Contribution('union', _text(subst(ge.elt, env)), source, _text(cond) if cond is not None else None, True, st)]
            return True
        # V = {m for T in XS for m in E}
        if isinstance(v, ast.SetComp) and len(v.generators) == 2 and isinstance(v.elt, ast.Name) \
                and isinstance(v.generators[1].target, ast.Name) and v.generators[1].target.id == v.elt.id \
                and not v.generators[1].ifs:
            g = v.generators[0]
            got = self._elements(g.iter, g.target)
            if got is None:
                return False
            env, source, inherited = got
            conds = [subst(c, env) for c in g.ifs] + ([inherited] if inherited is not None else [])
            cond = None if not conds else conds[0] if len(conds) == 1 else ast.BoolOp(ast.And(), conds)
            self.acc[name] = [Contribution('union', _text(subst(v.generators[1].iter, env)), source,
                                           _text(cond) if cond is not None else None, True, st)]
            return True
        return False

    def _loop(self, lo: ast.For):
        got = self._elements(lo.iter, lo.target)
        touched = {self._write_target(n) for n in ast.walk(lo)} - {None}
        if got is None or lo.orelse:
            for t in touched:
                if t in self.acc:
                    self.acc[t] = None
            return
        env, source, inherited = got
        whole = not any(isinstance(n, (ast.Break, ast.Return)) for b in lo.body for n in ast.walk(b))

        def walk(stmts, env, conds):
            env = dict(env)
            for st in stmts:
                if isinstance(st, ast.Assign) and len(st.targets) == 1:
                    t = st.targets[0]
                    val = subst(st.value, env)
                    if isinstance(t, ast.Name):
                        if t.id in self.acc:
                            v0 = st.value
                            other = None
                            if isinstance(v0, ast.BinOp) and isinstance(v0.op, ast.BitOr):
                                if isinstance(v0.left, ast.Name) and v0.left.id == t.id:
                                    other = v0.right
                                elif isinstance(v0.right, ast.Name) and v0.right.id == t.id:
                                    other = v0.left
                            elif isinstance(v0, ast.Call) and isinstance(v0.func, ast.Attribute) and v0.func.attr == 'union' \
                                    and isinstance(v0.func.value, ast.Name) and v0.func.value.id == t.id and len(v0.args) == 1:
                                other = v0.args[0]
                            if other is not None:
                                self._add(t.id, 'union', subst(other, env), source, conds, inherited, whole, st)
                            else:
                                self.acc[t.id] = None
                            continue
                        env[t.id] = val
                        continue
                    if isinstance(t, ast.Tuple) and all(isinstance(x, ast.Name) for x in t.elts):
                        for i, x in enumerate(t.elts):
                            env[x.id] = ast.Subscript(clone(val), ast.Constant(i), ast.Load())
                        continue
                if isinstance(st, ast.If):
                    c = subst(st.test, env)
                    walk(st.body, env, conds + [c])
                    walk(st.orelse, env, conds + [ast.UnaryOp(ast.Not(), c)])
                    continue
                if isinstance(st, ast.AugAssign) and isinstance(st.target, ast.Name) and st.target.id in self.acc \
                        and isinstance(st.op, ast.BitOr):
                    self._add(st.target.id, 'union', subst(st.value, env), source, conds, inherited, whole, st)
                    continue
                if isinstance(st, ast.Expr) and isinstance(st.value, ast.Call) and isinstance(st.value.func, ast.Attribute) \
                        and isinstance(st.value.func.value, ast.Name) and st.value.func.value.id in self.acc \
                        and st.value.func.attr in ('append', 'add', 'update') and len(st.value.args) == 1 and not st.value.keywords:
                    kind = {'append': 'append', 'add': 'add', 'update': 'union'}[st.value.func.attr]
                    self._add(st.value.func.value.id, kind, subst(st.value.args[0], env), source, conds, inherited, whole, st)
                    continue
                if isinstance(st, ast.Assign) and len(st.targets) == 1 and isinstance(st.targets[0], ast.Name):
                    continue
                # anything else that writes an accumulator spoils it
                for n in ast.walk(st):
                    tgt = self._write_target(n)
                    if tgt in self.acc:
                        self.acc[tgt] = None
        walk(lo.body, env, [])

    def _add(self, name, kind, elem, source, conds, inherited, whole, node):
        if self.acc.get(name) is None:
            return
        cs = list(conds) + ([inherited] if inherited is not None else [])
        cond = None if not cs else cs[0] if len(cs) == 1 else ast.BoolOp(ast.And(), cs)
        self.acc[name].append(Contribution(kind, _text(elem), source, _text(cond) if cond is not None else None, whole, node))

    def contributions(self, name: str) -> Optional[List[Contribution]]:
        return self.acc.get(name)
