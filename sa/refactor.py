"""Behaviour-preserving source transformations (the must-stay-silent corpus of the self-test).

Every operator maps a module's source text to an equivalent module (same behaviour for every input);
a finding or an ANALYSIS-ERROR on such a variant is a false alarm of the checker, not a defect of yatiml.
Operators work on the syntax tree and re-emit the module with ast.unparse, so that every variant is also a
"reformatted" one (comments gone, parenthesisation and quoting normalised, line numbers moved).
"""
import ast
import copy
from typing import Callable, Dict, List, Optional, Set


def _scopes(tree: ast.AST):
    for n in ast.walk(tree):
        if isinstance(n, (ast.FunctionDef, ast.AsyncFunctionDef)):
            yield n


def _own_nodes(fn: ast.AST):
    """nodes of the function body that are not inside a nested def/class/lambda"""
    out = []
    stack = list(fn.body)
    while stack:
        n = stack.pop()
        out.append(n)
        for c in ast.iter_child_nodes(n):
            if isinstance(c, (ast.FunctionDef, ast.AsyncFunctionDef, ast.ClassDef, ast.Lambda)):
                continue
            stack.append(c)
    return out


def _nested_nodes(fn: ast.AST):
    out = []
    for n in ast.walk(fn):
        if n is fn:
            continue
        if isinstance(n, (ast.FunctionDef, ast.AsyncFunctionDef, ast.ClassDef, ast.Lambda)):
            out.extend(ast.walk(n))
    return out


def reformat(tree: ast.Module) -> ast.Module:
    return tree


def rename_locals(tree: ast.Module) -> ast.Module:
    """every plain local variable v of every function becomes v_rn (parameters, globals, closure variables kept)"""
    for fn in _scopes(tree):
        a = fn.args
        params = {x.arg for x in a.posonlyargs + a.args + a.kwonlyargs}
        if a.vararg:
            params.add(a.vararg.arg)
        if a.kwarg:
            params.add(a.kwarg.arg)
        own = _own_nodes(fn)
        declared = set()
        for n in own:
            if isinstance(n, (ast.Global, ast.Nonlocal)):
                declared.update(n.names)
        assigned: Set[str] = set()
        for n in own:
            if isinstance(n, ast.Name) and isinstance(n.ctx, (ast.Store, ast.Del)):
                assigned.add(n.id)
            elif isinstance(n, ast.ExceptHandler) and n.name:
                assigned.add(n.name)
        # names defined by nested def/class statements or imports are left alone
        for n in own:
            if isinstance(n, (ast.Import, ast.ImportFrom)):
                for al in n.names:
                    assigned.discard((al.asname or al.name).split('.')[0])
        nested_names = {n.id for n in _nested_nodes(fn) if isinstance(n, ast.Name)}
        targets = {v for v in assigned if v not in params and v not in declared and v not in nested_names
                   and not v.startswith('__')}
        for n in own:
            if isinstance(n, ast.Name) and n.id in targets:
                n.id = n.id + '_rn'
            elif isinstance(n, ast.ExceptHandler) and n.name in targets:
                n.name = n.name + '_rn'
    return tree


class _Cmp(ast.NodeTransformer):
    """comparison spellings"""

    def __init__(self, mode):
        self.mode = mode

    @staticmethod
    def _is_len(e):
        return isinstance(e, ast.Call) and isinstance(e.func, ast.Name) and e.func.id == 'len' and len(e.args) == 1

    def visit_Compare(self, n: ast.Compare):
        self.generic_visit(n)
        if len(n.ops) != 1:
            return n
        op, l, r = n.ops[0], n.left, n.comparators[0]
        if self.mode == 'len':
            if self._is_len(l) and isinstance(r, ast.Constant) and type(r.value) is int:
                if isinstance(op, ast.Eq) and r.value == 0:
                    return ast.UnaryOp(ast.Not(), l.args[0])
                if isinstance(op, ast.NotEq) and r.value == 1:
                    return ast.BoolOp(ast.Or(), [ast.Compare(copy.deepcopy(l), [ast.Eq()], [ast.Constant(0)]),
                                                 ast.Compare(copy.deepcopy(l), [ast.Gt()], [ast.Constant(1)])])
                if isinstance(op, ast.Eq) and r.value == 1:
                    return ast.UnaryOp(ast.Not(), ast.Compare(l, [ast.NotEq()], [ast.Constant(1)]))
                if isinstance(op, ast.Gt) and r.value == 0:
                    return ast.Compare(l, [ast.GtE()], [ast.Constant(1)])
                if isinstance(op, ast.Gt) and r.value == 1:
                    return ast.Compare(l, [ast.GtE()], [ast.Constant(2)])
            return n
        if self.mode == 'neg':
            neg = {ast.NotEq: ast.Eq, ast.IsNot: ast.Is, ast.NotIn: ast.In}
            if type(op) in neg:
                return ast.UnaryOp(ast.Not(), ast.Compare(l, [neg[type(op)]()], [r]))
            return n
        if self.mode == 'flip':
            # a == b  ->  b == a  for constants on the right (yoda), symmetric operators only
            if isinstance(op, (ast.Eq, ast.NotEq)) and isinstance(r, ast.Constant) and not isinstance(l, ast.Constant):
                return ast.Compare(r, [op], [l])
            return n
        return n


def len_spellings(tree):
    return _Cmp('len').visit(tree)


def negated_comparisons(tree):
    return _Cmp('neg').visit(tree)


def yoda_constants(tree):
    return _Cmp('flip').visit(tree)


class _SwapIf(ast.NodeTransformer):
    def visit_If(self, n: ast.If):
        self.generic_visit(n)
        if n.orelse and not (len(n.orelse) == 1 and isinstance(n.orelse[0], ast.If)):
            t = n.test
            if isinstance(t, ast.UnaryOp) and isinstance(t.op, ast.Not):
                nt = t.operand
            else:
                nt = ast.UnaryOp(ast.Not(), t)
            return ast.If(nt, n.orelse, n.body)
        return n

    def visit_IfExp(self, n: ast.IfExp):
        self.generic_visit(n)
        t = n.test
        nt = t.operand if isinstance(t, ast.UnaryOp) and isinstance(t.op, ast.Not) else ast.UnaryOp(ast.Not(), t)
        return ast.IfExp(nt, n.orelse, n.body)


def swap_if_else(tree):
    return _SwapIf().visit(tree)


class _Temp(ast.NodeTransformer):
    """return <call or tuple or binop>  ->  _rv = <expr>; return _rv"""

    def _block(self, stmts):
        out = []
        for s in stmts:
            if isinstance(s, ast.Return) and s.value is not None and isinstance(
                    s.value, (ast.Call, ast.Tuple, ast.BinOp, ast.BoolOp, ast.Compare, ast.Subscript)):
                out.append(ast.Assign([ast.Name('_rv', ast.Store())], s.value, lineno=0))
                out.append(ast.Return(ast.Name('_rv', ast.Load())))
            else:
                out.append(s)
        return out

    def generic_visit(self, node):
        super().generic_visit(node)
        for fld in ('body', 'orelse', 'finalbody'):
            v = getattr(node, fld, None)
            if isinstance(v, list) and v and isinstance(v[0], ast.stmt):
                setattr(node, fld, self._block(v))
        return node


def return_through_temp(tree):
    return _Temp().visit(tree)


class _Kw(ast.NodeTransformer):
    def visit_Call(self, n: ast.Call):
        self.generic_visit(n)
        if len(n.keywords) > 1 and all(k.arg is not None for k in n.keywords):
            n.keywords = list(reversed(n.keywords))
        return n


def reverse_keywords(tree):
    return _Kw().visit(tree)


class _Fmt(ast.NodeTransformer):
    """'...{}...'.format(a, b) with only positional auto-numbered fields -> f-string"""

    def visit_Call(self, n: ast.Call):
        self.generic_visit(n)
        f = n.func
        if (isinstance(f, ast.Attribute) and f.attr == 'format' and isinstance(f.value, ast.Constant)
                and isinstance(f.value.value, str) and not n.keywords
                and not any(isinstance(a, ast.Starred) for a in n.args)):
            s = f.value.value
            parts = s.split('{}')
            if len(parts) - 1 != len(n.args) or '{' in s.replace('{}', '') or '}' in s.replace('{}', ''):
                return n
            vals: List[ast.expr] = []
            for i, p in enumerate(parts):
                if p:
                    vals.append(ast.Constant(p))
                if i < len(n.args):
                    vals.append(ast.FormattedValue(n.args[i], -1, None))
            return ast.JoinedStr(vals)
        return n


def format_to_fstring(tree):
    return _Fmt().visit(tree)


class _Log(ast.NodeTransformer):
    def _block(self, stmts):
        out = [s for s in stmts if not (
            isinstance(s, ast.Expr) and isinstance(s.value, ast.Call) and isinstance(s.value.func, ast.Attribute)
            and isinstance(s.value.func.value, ast.Name) and s.value.func.value.id == 'logger')]
        return out or [ast.Pass()]

    def generic_visit(self, node):
        super().generic_visit(node)
        for fld in ('body', 'orelse', 'finalbody'):
            v = getattr(node, fld, None)
            if isinstance(v, list) and v and isinstance(v[0], ast.stmt):
                setattr(node, fld, self._block(v))
        return node


def drop_logging(tree):
    return _Log().visit(tree)


class _Isinst(ast.NodeTransformer):
    """isinstance(x, (A, B)) -> isinstance(x, A) or isinstance(x, B)"""

    def visit_Call(self, n: ast.Call):
        self.generic_visit(n)
        if (isinstance(n.func, ast.Name) and n.func.id == 'isinstance' and len(n.args) == 2
                and isinstance(n.args[1], ast.Tuple) and len(n.args[1].elts) > 1):
            return ast.BoolOp(ast.Or(), [ast.Call(ast.Name('isinstance', ast.Load()), [copy.deepcopy(n.args[0]), e], [])
                                         for e in n.args[1].elts])
        return n


def split_isinstance(tree):
    return _Isinst().visit(tree)


class _Elif(ast.NodeTransformer):
    """`if a: return X` followed by statements  ->  unchanged; `if a: A else: if b: ...` is the same tree as elif, so
    instead: add an explicit `else: pass` to every else-less if (a no-op that changes CFG shape)"""

    def visit_If(self, n: ast.If):
        self.generic_visit(n)
        if not n.orelse:
            n.orelse = [ast.Pass()]
        return n


def explicit_else_pass(tree):
    return _Elif().visit(tree)


class _CondTemp(ast.NodeTransformer):
    """if <test containing a call>:  ->  _cN = <test>; if _cN:   (statement-level ifs only, not elif arms)"""

    def __init__(self):
        self.n = 0

    def _block(self, stmts):
        out = []
        for s in stmts:
            if isinstance(s, ast.If) and any(isinstance(x, ast.Call) for x in ast.walk(s.test)) \
                    and not any(isinstance(x, (ast.NamedExpr, ast.Yield, ast.Await)) for x in ast.walk(s.test)):
                self.n += 1
                name = '_c%d' % self.n
                out.append(ast.Assign([ast.Name(name, ast.Store())], s.test, lineno=s.lineno))
                s.test = ast.Name(name, ast.Load())
            out.append(s)
        return out

    def generic_visit(self, node):
        super().generic_visit(node)
        for fld in ('body', 'orelse', 'finalbody'):
            v = getattr(node, fld, None)
            if isinstance(v, list) and v and isinstance(v[0], ast.stmt):
                if fld == 'orelse' and isinstance(node, ast.If) and len(v) == 1 and isinstance(v[0], ast.If):
                    continue        # an elif arm: its test must stay where it is
                setattr(node, fld, self._block(v))
        return node


def condition_through_temp(tree):
    return _CondTemp().visit(tree)


class _ElseAfterReturn(ast.NodeTransformer):
    """if c: <...; return/raise> else: B   ->   if c: <...; return/raise>; B"""

    @staticmethod
    def _leaves(stmts):
        if not stmts:
            return False
        last = stmts[-1]
        if isinstance(last, (ast.Return, ast.Raise, ast.Continue, ast.Break)):
            return True
        if isinstance(last, ast.If) and last.orelse:
            return _ElseAfterReturn._leaves(last.body) and _ElseAfterReturn._leaves(last.orelse)
        return False

    def _block(self, stmts):
        out = []
        for s in stmts:
            if isinstance(s, ast.If) and s.orelse and self._leaves(s.body):
                rest = s.orelse
                s.orelse = []
                out.append(s)
                out.extend(rest)
            else:
                out.append(s)
        return out

    def generic_visit(self, node):
        super().generic_visit(node)
        for fld in ('body', 'orelse', 'finalbody'):
            v = getattr(node, fld, None)
            if isinstance(v, list) and v and isinstance(v[0], ast.stmt):
                setattr(node, fld, self._block(v))
        return node


def drop_else_after_return(tree):
    return _ElseAfterReturn().visit(tree)


class _CompToLoop(ast.NodeTransformer):
    """v = [e for t in xs if c]  ->  v = []; for t in xs: if c: v.append(e)   (single generator, plain Name target of the
    assignment, list comprehensions only, v not mentioned in the comprehension)"""

    def _block(self, stmts):
        out = []
        for s in stmts:
            if isinstance(s, ast.Assign) and len(s.targets) == 1 and isinstance(s.targets[0], ast.Name) \
                    and isinstance(s.value, ast.ListComp) and len(s.value.generators) == 1 \
                    and not s.value.generators[0].is_async \
                    and not any(isinstance(x, ast.Name) and x.id == s.targets[0].id for x in ast.walk(s.value)):
                v = s.targets[0].id
                g = s.value.generators[0]
                body: list = [ast.Expr(ast.Call(ast.Attribute(ast.Name(v, ast.Load()), 'append', ast.Load()), [s.value.elt], []))]
                for c in reversed(g.ifs):
                    body = [ast.If(c, body, [])]
                out.append(ast.Assign([ast.Name(v, ast.Store())], ast.List([], ast.Load()), lineno=s.lineno))
                out.append(ast.For(g.target, g.iter, body, [], lineno=s.lineno))
            else:
                out.append(s)
        return out

    def generic_visit(self, node):
        super().generic_visit(node)
        for fld in ('body', 'orelse', 'finalbody'):
            v = getattr(node, fld, None)
            if isinstance(v, list) and v and isinstance(v[0], ast.stmt):
                setattr(node, fld, self._block(v))
        return node


def comprehension_to_loop(tree):
    return _CompToLoop().visit(tree)


def rename_private_params(tree: ast.Module) -> ast.Module:
    """parameters (other than self/cls) of functions whose name starts with an underscore and is not a dunder or a
    `_yatiml_*` hook get the suffix _p; keyword arguments at call sites of these functions follow"""
    renamed = {}
    for fn in _scopes(tree):
        if not fn.name.startswith('_') or (fn.name.startswith('__') and fn.name.endswith('__')) or fn.name.startswith('_yatiml'):
            continue
        a = fn.args
        ps = [x for x in a.posonlyargs + a.args + a.kwonlyargs if x.arg not in ('self', 'cls')]
        names = {x.arg for x in ps}
        if not names:
            continue
        nested = {n.id for n in _nested_nodes(fn) if isinstance(n, ast.Name)}
        names -= nested
        for x in ps:
            if x.arg in names:
                x.arg = x.arg + '_p'
        for n in _own_nodes(fn):
            if isinstance(n, ast.Name) and n.id in names:
                n.id = n.id + '_p'
        renamed.setdefault(fn.name, set()).update(names)
    for n in ast.walk(tree):
        if isinstance(n, ast.Call):
            f = n.func
            nm = f.attr if isinstance(f, ast.Attribute) else f.id if isinstance(f, ast.Name) else None
            if nm in renamed:
                for k in n.keywords:
                    if k.arg in renamed[nm]:
                        k.arg = k.arg + '_p'
    return tree


def add_logging(tree: ast.Module) -> ast.Module:
    """a logger.debug(...) line at the start of every function body (after the docstring) of modules that have a `logger`"""
    has_logger = any(isinstance(st, ast.Assign) and any(isinstance(t, ast.Name) and t.id == 'logger' for t in st.targets)
                     for st in tree.body)
    if not has_logger:
        return tree
    for fn in _scopes(tree):
        if fn.name in ('__call__',) and any(isinstance(x, (ast.Yield, ast.YieldFrom)) for x in ast.walk(fn)):
            pass
        call = ast.Expr(ast.Call(ast.Attribute(ast.Name('logger', ast.Load()), 'debug', ast.Load()),
                                 [ast.Constant('entering %s' % fn.name)], []))
        k = 1 if fn.body and isinstance(fn.body[0], ast.Expr) and isinstance(fn.body[0].value, ast.Constant) \
            and isinstance(fn.body[0].value.value, str) else 0
        fn.body.insert(k, call)
    return tree


class _SwapAssign(ast.NodeTransformer):
    """two adjacent `a = X; b = Y` (plain names, call-free right-hand sides, neither mentions the other's target) are swapped"""

    @staticmethod
    def _simple(s):
        return isinstance(s, ast.Assign) and len(s.targets) == 1 and isinstance(s.targets[0], ast.Name) \
            and not any(isinstance(x, (ast.Call, ast.Yield, ast.Await, ast.NamedExpr, ast.Lambda, ast.ListComp, ast.GeneratorExp,
                                       ast.SetComp, ast.DictComp)) for x in ast.walk(s.value))

    def _block(self, stmts):
        out = list(stmts)
        i = 0
        while i + 1 < len(out):
            a, b = out[i], out[i + 1]
            if self._simple(a) and self._simple(b):
                ta, tb = a.targets[0].id, b.targets[0].id
                na = {x.id for x in ast.walk(a.value) if isinstance(x, ast.Name)}
                nb = {x.id for x in ast.walk(b.value) if isinstance(x, ast.Name)}
                if ta != tb and ta not in nb and tb not in na:
                    out[i], out[i + 1] = b, a
                    i += 2
                    continue
            i += 1
        return out

    def generic_visit(self, node):
        super().generic_visit(node)
        for fld in ('body', 'orelse', 'finalbody'):
            v = getattr(node, fld, None)
            if isinstance(v, list) and v and isinstance(v[0], ast.stmt) and not isinstance(node, (ast.Module, ast.ClassDef)):
                setattr(node, fld, self._block(v))
        return node


def swap_independent_assignments(tree):
    return _SwapAssign().visit(tree)


class _Ann(ast.NodeTransformer):
    def visit_AnnAssign(self, n: ast.AnnAssign):
        self.generic_visit(n)
        if n.value is not None and isinstance(n.target, ast.Name) and n.simple:
            return ast.copy_location(ast.Assign([n.target], n.value), n)
        return n


def local_annotations_dropped(tree):
    for fn in _scopes(tree):
        fn.body = [_Ann().visit(st) for st in fn.body]
    return tree


OPERATORS: Dict[str, Callable[[ast.Module], ast.Module]] = {
    'reformat': reformat,
    'rename_locals': rename_locals,
    'len_spellings': len_spellings,
    'negated_comparisons': negated_comparisons,
    'yoda_constants': yoda_constants,
    'swap_if_else': swap_if_else,
    'return_through_temp': return_through_temp,
    'reverse_keywords': reverse_keywords,
    'format_to_fstring': format_to_fstring,
    'drop_logging': drop_logging,
    'split_isinstance': split_isinstance,
    'explicit_else_pass': explicit_else_pass,
    'condition_through_temp': condition_through_temp,
    'drop_else_after_return': drop_else_after_return,
    'comprehension_to_loop': comprehension_to_loop,
    'rename_private_params': rename_private_params,
    'add_logging': add_logging,
    'swap_independent_assignments': swap_independent_assignments,
    'local_annotations_dropped': local_annotations_dropped,
}


def apply(op: str, sources: Dict[str, str], only: Optional[str] = None) -> Dict[str, str]:
    """apply operator `op` to every yatiml module (or only to module `only`)"""
    out = dict(sources)
    f = OPERATORS[op]
    for mod, text in sources.items():
        if only is not None and mod != only:
            continue
        tree = ast.parse(text)
        tree = f(tree)
        ast.fix_missing_locations(tree)
        new = ast.unparse(tree)
        compile(new, mod, 'exec')
        out[mod] = new
    return out
