"""Self-test of the checkers (thorough tier) - both directions, in memory, on the *current* /repo sources.

 must fire  : (a) the corpus of single-point mutants (sa/selftest_corpus.json: mutants that the repository's 180 tests do not
              notice and that break the property; addressed structurally, see sa/mutate.py) and (b) the seeded changes under
              /verif/seeded (written by independent sub-agents) - the property's rules must report an unlisted finding on each;
 must stay
 silent     : the behaviour-preserving source transformations of sa/refactor.py and the hand-written behaviour-preserving
              refactorings under /verif/benign (written by independent sub-agents, each with an equivalence demonstration) -
              no finding, no analysis error.

A disagreement is a defect of the *checker*; it is reported as ANALYSIS-ERROR (exit 2), never as a violation of the property.
A corpus entry whose target construct no longer exists in /repo is counted as skipped.
"""
import importlib
import json
import os
import subprocess
import tempfile
from concurrent.futures import ProcessPoolExecutor
from typing import Dict, List, Tuple

from . import mutate, refactor, report
from .model import AnalysisError, Program, read_yaml_sources

HERE = os.path.dirname(os.path.abspath(__file__))
VERIF = os.path.dirname(HERE)
CORPUS = os.path.join(HERE, 'selftest_corpus.json')
SEEDED = os.path.join(VERIF, 'seeded')
BENIGN = os.path.join(VERIF, 'benign')


def _analyse(prop: str, sources: Dict[str, str]) -> Tuple[str, List[str]]:
    """('fired' | 'silent' | 'ae', details) of the property's rules on an in-memory variant"""
    known = report.load_known()
    try:
        P = Program(sources, read_yaml_sources())
        mod = importlib.import_module('sa.rules.' + prop.lower())
        ctx = report.Context(prop, P, 'quick')
        mod.run(ctx)
    except AnalysisError as e:
        return 'ae', [str(e)[:200]]
    except Exception as e:          # a crash of the checker on a variant is a checker defect too
        return 'ae', ['internal error %r' % e]
    fs = [f for f in ctx.findings() if report.match_known(f, known) is None]
    return ('fired' if fs else 'silent'), ['%s %s' % (f.rule, f.construct) for f in fs][:4]


def _apply_patch(sources: Dict[str, str], patch_path: str):
    with tempfile.TemporaryDirectory(prefix='sa-selftest.') as d:
        os.makedirs(os.path.join(d, 'yatiml'))
        for mod, text in sources.items():
            fn = '__init__.py' if mod == 'yatiml' else mod.split('.', 1)[1] + '.py'
            with open(os.path.join(d, 'yatiml', fn), 'w', encoding='utf-8') as fh:
                fh.write(text)
        r = subprocess.run(['patch', '-s', '-p1', '--no-backup-if-mismatch', '-i', patch_path], cwd=d, capture_output=True, text=True)
        if r.returncode != 0:
            return None
        out = {}
        for mod in sources:
            fn = '__init__.py' if mod == 'yatiml' else mod.split('.', 1)[1] + '.py'
            with open(os.path.join(d, 'yatiml', fn), encoding='utf-8') as fh:
                out[mod] = fh.read()
        return out


def _job(args):
    kind, ident, payload, prop, sources = args
    try:
        if kind == 'mutant':
            new = mutate.apply(sources[payload['module']], payload)
            if new is None:
                return kind, ident, 'skipped', ['target construct not found']
            variant = dict(sources)
            variant[payload['module']] = new
        elif kind in ('seed', 'benign'):
            variant = _apply_patch(sources, payload)
            if variant is None:
                return kind, ident, 'skipped', ['patch does not apply to the current tree']
        else:
            variant = refactor.apply(payload, sources)
    except Exception as e:
        return kind, ident, 'skipped', ['could not build the variant: %r' % e]
    st, det = _analyse(prop, variant)
    return kind, ident, st, det


def load_corpus() -> List[dict]:
    if not os.path.exists(CORPUS):
        return []
    with open(CORPUS) as fh:
        return json.load(fh)['must_fire']


def seeds_for(prop: str) -> List[Tuple[str, str]]:
    out = []
    if not os.path.isdir(SEEDED):
        return out
    for name in sorted(os.listdir(SEEDED)):
        mp = os.path.join(SEEDED, name, 'meta.json')
        pp = os.path.join(SEEDED, name, 'patch.diff')
        if not (os.path.exists(mp) and os.path.exists(pp)):
            continue
        with open(mp) as fh:
            meta = json.load(fh)
        if prop in meta.get('detected_by', {}):
            out.append((name, pp))
    return out


def run_for_property(prop: str, P, jobs: int = 16) -> dict:
    sources = {n: m.text for n, m in P.modules.items() if n == 'yatiml' or n.startswith('yatiml.')}
    work = []
    for d in load_corpus():
        if prop in d['props']:
            work.append(('mutant', '%s:%s:%s:%s#%d' % (d['module'], d['fn'], d['op'], d['src'][:50], d['nth']), d, prop, sources))
    for name, pp in seeds_for(prop):
        work.append(('seed', name, pp, prop, sources))
    for op in refactor.OPERATORS:
        work.append(('refactoring', op, op, prop, sources))
    if os.path.isdir(BENIGN):
        for name in sorted(os.listdir(BENIGN)):
            pp = os.path.join(BENIGN, name, 'patch.diff')
            if os.path.exists(pp):
                work.append(('benign', name, pp, prop, sources))
    res = []
    if work:
        with ProcessPoolExecutor(min(jobs, len(work))) as ex:
            res = list(ex.map(_job, work, chunksize=2))
    failed = []
    out = {'mutants': 0, 'mutants_fired': 0, 'seeds': 0, 'seeds_fired': 0, 'refactorings': 0, 'refactorings_silent': 0, 'benign': 0, 'benign_silent': 0,
           'skipped': [], 'failed': failed, 'sample_fired': []}
    for kind, ident, st, det in res:
        if st == 'skipped':
            out['skipped'].append('%s %s: %s' % (kind, ident, det[0]))
            continue
        if kind == 'mutant':
            out['mutants'] += 1
            if st == 'fired':
                out['mutants_fired'] += 1
                if len(out['sample_fired']) < 6:
                    out['sample_fired'].append('%s -> %s' % (ident, det[0]))
            else:
                failed.append('mutant not reported (%s): %s %s' % (st, ident, det[:1]))
        elif kind == 'seed':
            out['seeds'] += 1
            if st == 'fired':
                out['seeds_fired'] += 1
            else:
                failed.append('seeded change not reported (%s): %s %s' % (st, ident, det[:1]))
        elif kind == 'benign':
            out['benign'] += 1
            if st == 'silent':
                out['benign_silent'] += 1
            else:
                failed.append('false alarm on hand-written behaviour-preserving refactoring %s (%s): %s' % (ident, st, det[:2]))
        else:
            out['refactorings'] += 1
            if st == 'silent':
                out['refactorings_silent'] += 1
            else:
                failed.append('false alarm on behaviour-preserving transformation %s (%s): %s' % (ident, st, det[:2]))
    return out
