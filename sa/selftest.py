"""Self-tests of the checkers (thorough tier): filled in later."""


def run_for_property(prop, P):
    return {'mutants': 0, 'refactorings': 0, 'failed': []}
