"""CLI: /venv/bin/python -m sa.check <Cnn> [--tier quick|thorough] [--replay <file>]

Exit 0: no unlisted finding. Exit 1: `VIOLATION property=<id> replay=<path>` per unlisted finding.
Exit 2: `ANALYSIS-ERROR` - the analysis itself could not proceed (never a silent pass).
"""
import argparse
import importlib
import json
import os
import sys
import time
import traceback

from .model import AnalysisError, load_program, REPO
from . import report

PROPS = ['C%02d' % i for i in range(1, 19)]


def run_property(prop: str, tier: str, P=None, quiet=False):
    """returns (ctx, module)"""
    mod = importlib.import_module('sa.rules.%s' % prop.lower())
    if P is None:
        P = load_program()
    ctx = report.Context(prop, P, tier)
    try:
        mod.run(ctx)
    except AnalysisError as e:
        # A rule could not find its anchor. That is never a pass - but when the reason is visible and is itself a violation (a cache
        # that the memo analysis refuses to eliminate because it is unsound leaves the function in a shape no rule knows), say so:
        # the memo rule runs last in every property, so it is run here if the failing rule came first.  With an unlisted finding in
        # hand the check reports it (exit 1); without one the analysis error stands (exit 2).
        rid = 'R%s.M' % prop[1:]
        if not any(getattr(r_, 'rid', None) == rid for r_ in getattr(ctx, 'rules', [])):
            try:
                from .rules import memo_rules as M
                M.memo_sound(ctx, rid)
            except AnalysisError:
                pass
        known = report.load_known()
        if not any(report.match_known(f, known) is None for f in ctx.findings()):
            raise
        if not quiet:
            print('NOTE property=%s part of the analysis could not proceed (%s); the findings below were established before that' % (prop, e))
        ctx.partial = str(e)
    return ctx, mod


def main(argv=None):
    ap = argparse.ArgumentParser()
    ap.add_argument('prop')
    ap.add_argument('--tier', default=os.environ.get('VERIF_TIER', 'quick'))
    ap.add_argument('--replay', default=None)
    ap.add_argument('--json', action='store_true')
    a = ap.parse_args(argv)
    tier = a.tier if a.tier in ('quick', 'thorough') else 'quick'
    try:
        seed = int(os.environ.get('VERIF_SEED', '0'))
    except ValueError:
        seed = 0
    t0 = time.time()
    prop = a.prop
    if a.replay:
        with open(a.replay) as fh:
            r = json.load(fh)
        prop = r['property']
    try:
        ctx, mod = run_property(prop, tier)
        selftest = None
        if tier == 'thorough':
            from . import selftest as st
            selftest = st.run_for_property(prop, ctx.P)
    except AnalysisError as e:
        print('ANALYSIS-ERROR property=%s %s' % (prop, e))
        return 2
    except Exception as e:   # a bug in the checker is not a violation of the property
        traceback.print_exc()
        print('ANALYSIS-ERROR property=%s internal error: %r' % (prop, e))
        return 2

    known = report.load_known()
    findings = ctx.findings()
    if a.replay:
        findings = [f for f in findings if f.rule == r['rule'] and f.construct == r['construct']]
    unlisted = []
    listed = []
    for f in findings:
        k = report.match_known(f, known)
        if k is not None:
            listed.append((f, k))
        else:
            unlisted.append(f)
    for f, k in listed:
        print('KNOWN-FINDING: property=%s %s [%s %s at %s]' % (prop, k.get('what', f.message), f.rule, f.construct, f.loc))
    for i, f in enumerate(unlisted):
        p = report.write_replay(f, i)
        print('%s: %s %s: %s' % (f.loc, f.rule, f.construct, f.message))
        if f.witness is not None:
            print('    witness: %s' % (json.dumps(f.witness, default=str)[:400]))
        print('VIOLATION property=%s replay=%s' % (prop, p))

    total = sum(r.instances for r in ctx.rules)
    disch = sum(r.discharged for r in ctx.rules)
    rules_ev = [{'rule': r.rid, 'description': r.desc, 'instances': r.instances, 'discharged': r.discharged,
                 'findings': [f.as_dict() for f in r.findings], 'samples': r.samples,
                 **({'obligations': r.obligations} if tier == 'thorough' else {})} for r in ctx.rules]
    distinct = len({o for r in ctx.rules for o in r.obligations})
    meta = getattr(mod, 'META', {})
    level = meta.get('level', 'other')
    cov = {
        'explanation': meta.get('explanation', ''),
        'evaluations': total,
        'distinct_nontrivial': distinct,
        'rule': 'one evaluation = one statically checked obligation (rule instance at a specific construct of '
                '/repo); distinct = distinct obligation texts; none is trivial: each names a construct and a rule',
        'samples': [s for r in ctx.rules for s in r.samples][:12] or ['(none)'],
        'obligations': total,
        'discharged': disch,
        'known_findings_present': [{'rule': f.rule, 'construct': f.construct, 'what': k.get('what')} for f, k in listed],
        'unlisted_findings': [f.as_dict() for f in unlisted],
        'rules': rules_ev,
        'files': ctx.P.digests('yatiml'),
        'pyyaml_files': {k: v for k, v in ctx.P.digests('yaml').items()},
        'functions_in_model': sum(len(m.functions) for m in ctx.P.modules.values()),
        'notes': ctx.notes,
    }
    cov.update(ctx.extra)
    if level == 'proof':
        cov['checker_cmd'] = '/venv/bin/python -m sa.check %s --tier %s' % (prop, tier)
        cov['trusted_base'] = meta.get('trusted_base', [])
        if listed or unlisted:
            # not every obligation is discharged: do not present the run as a completed proof
            level = 'other'
    if selftest is not None:
        cov['selftest'] = selftest
    if not os.environ.get('VERIF_NO_EVIDENCE'):
        report.write_evidence(prop, tier, seed, level, cov, meta.get('assumptions', []), time.time() - t0,
                              len(unlisted))
    if not a.json:
        print('%s %s: %d rules, %d obligations, %d discharged, %d known findings, %d violations (%.2fs)'
              % (prop, tier, len(ctx.rules), total, disch, len(listed), len(unlisted), time.time() - t0))
    if selftest is not None and selftest.get('failed'):
        print('ANALYSIS-ERROR property=%s checker self-test failed: %s' % (prop, selftest['failed'][:5]))
        return 2
    return 1 if unlisted else 0


if __name__ == '__main__':
    sys.exit(main())
