"""E10 decision tables: what a (loop-free) function answers for each cell of a finite partition of its inputs.

A rule supplies an *oracle* that decides atomic conditions for the cell it is interested in (`tag == '...:int'` is true,
`default is True` is false, `isinstance(default, (int, float))` is true ...).  The function body is evaluated abstractly: locals
are substituted symbolically (so `spellings = _TRUE if .. else _FALSE; return text in spellings` yields `text in _TRUE` on the
path taken), boolean structure (`and`/`or`/`not`, conditional expressions, chained comparisons) is evaluated three-valued over
the oracle's answers, undecided branches fork.  The result is the list of possible outcomes (returned expression / raise) of
that cell - independent of how the branches are nested, merged, ordered or hidden behind early returns.

Nothing is executed; calls stay symbolic.  Loops, try and with statements are outside the subset (Unsupported).
"""
import ast
import copy
from typing import Callable, Dict, List, Optional, Tuple

from .guards import canon_atom, norm


class Unsupported(Exception):
    pass


def clone(n):
    """structural copy of a syntax tree: fields and positions only (the program model hangs `_parent` links on the nodes, which a
    deepcopy would follow through the whole module)"""
    if isinstance(n, list):
        return [clone(x) for x in n]
    if not isinstance(n, ast.AST):
        return n
    new = n.__class__()
    for f in n._fields:
        if hasattr(n, f):
            setattr(new, f, clone(getattr(n, f)))
    for a in ('lineno', 'col_offset', 'end_lineno', 'end_col_offset'):
        if hasattr(n, a):
            setattr(new, a, getattr(n, a))
    return new


class Outcome:
    def __init__(self, kind: str, value: Optional[ast.AST], conds: List[Tuple[str, bool]], node: Optional[ast.AST]):
        self.kind = kind            # 'return' | 'raise' | 'fall'
        self.value = value          # substituted expression (None for a bare return / fall-through)
        self.conds = conds          # undecided conditions taken on the way
        self.node = node

    def text(self) -> str:
        return norm(self.value) if self.value is not None else 'None'

    def __repr__(self):
        return '<%s %s | %s>' % (self.kind, self.text()[:60], self.conds)


class _Subst(ast.NodeTransformer):
    def __init__(self, env):
        self.env = env

    def visit_Name(self, n):
        if isinstance(n.ctx, ast.Load) and n.id in self.env:
            return clone(self.env[n.id])
        return n

    def visit_Lambda(self, n):
        return n

    def _comp(self, n):
        # comprehension targets shadow
        bound = {x.id for g in n.generators for x in ast.walk(g.target) if isinstance(x, ast.Name)}
        saved = {k: self.env[k] for k in bound if k in self.env}
        for k in saved:
            del self.env[k]
        self.generic_visit(n)
        self.env.update(saved)
        return n

    visit_ListComp = _comp
    visit_SetComp = _comp
    visit_DictComp = _comp
    visit_GeneratorExp = _comp


def subst(e: ast.AST, env: Dict[str, ast.AST]) -> ast.AST:
    return _Subst(env).visit(clone(e))


class Evaluator:
    def __init__(self, oracle: Callable[[ast.AST], Optional[bool]], max_paths: int = 64):
        self.oracle = oracle
        self.max_paths = max_paths
        self.outcomes: List[Outcome] = []

    # ---- three-valued truth ----------------------------------------------------------------------------------------
    def truth(self, e: ast.AST) -> Optional[bool]:
        if isinstance(e, ast.Constant):
            return bool(e.value)
        if isinstance(e, ast.UnaryOp) and isinstance(e.op, ast.Not):
            t = self.truth(e.operand)
            return None if t is None else not t
        if isinstance(e, ast.BoolOp):
            vals = [self.truth(v) for v in e.values]
            if isinstance(e.op, ast.And):
                if any(v is False for v in vals):
                    return False
                return True if all(v is True for v in vals) else None
            if any(v is True for v in vals):
                return True
            return False if all(v is False for v in vals) else None
        if isinstance(e, ast.IfExp):
            t = self.truth(e.test)
            if t is None:
                a, b = self.truth(e.body), self.truth(e.orelse)
                return a if a == b else None
            return self.truth(e.body if t else e.orelse)
        if isinstance(e, ast.Call) and isinstance(e.func, ast.Name) and e.func.id == 'bool' and len(e.args) == 1:
            return self.truth(e.args[0])
        if isinstance(e, ast.Compare) and len(e.ops) > 1:
            parts = []
            left = e.left
            for op, r in zip(e.ops, e.comparators):
                parts.append(ast.Compare(left, [op], [r]))
                left = r
            return self.truth(ast.BoolOp(ast.And(), parts))
        return self.oracle(e)

    def simplify(self, e: ast.AST) -> ast.AST:
        """resolve conditional expressions and boolean operators whose test the oracle decides"""
        ev = self

        class T(ast.NodeTransformer):
            def visit_IfExp(self, n):
                t = ev.truth(n.test)
                if t is None:
                    self.generic_visit(n)
                    return n
                return self.visit(n.body if t else n.orelse)

            def visit_BoolOp(self, n):
                self.generic_visit(n)
                keep = []
                for v in n.values:
                    t = ev.truth(v)
                    if isinstance(n.op, ast.And):
                        if t is False:
                            return ast.Constant(False)
                        if t is True:
                            continue
                    else:
                        if t is True:
                            return ast.Constant(True)
                        if t is False:
                            continue
                    keep.append(v)
                if not keep:
                    return ast.Constant(isinstance(n.op, ast.And))
                return keep[0] if len(keep) == 1 else ast.BoolOp(n.op, keep)
        return T().visit(clone(e))

    # ---- statements -----------------------------------------------------------------------------------------------------
    def run(self, fn_node: ast.AST) -> List[Outcome]:
        self.outcomes = []
        self._block(list(fn_node.body), {}, [], [])
        return self.outcomes

    def _block(self, stmts, env, conds, cont):
        """cont: statements to continue with after this block"""
        if len(self.outcomes) > self.max_paths:
            raise Unsupported('too many paths')
        for i, s in enumerate(stmts):
            rest = stmts[i + 1:]
            if isinstance(s, ast.Expr):
                continue
            if isinstance(s, ast.Pass):
                continue
            if isinstance(s, (ast.Assign, ast.AnnAssign)):
                tgts = s.targets if isinstance(s, ast.Assign) else [s.target]
                if isinstance(s, ast.AnnAssign) and s.value is None:
                    continue
                val = self.simplify(subst(s.value, env))
                for t in tgts:
                    if isinstance(t, ast.Name):
                        env = dict(env)
                        env[t.id] = val
                    elif isinstance(t, ast.Tuple) and isinstance(val, ast.Tuple) and len(t.elts) == len(val.elts) \
                            and all(isinstance(x, ast.Name) for x in t.elts):
                        env = dict(env)
                        for x, v in zip(t.elts, val.elts):
                            env[x.id] = v
                    else:
                        pass    # stores into attributes / items do not affect the locals
                continue
            if isinstance(s, ast.Return):
                v = self.simplify(subst(s.value, env)) if s.value is not None else None
                self.outcomes.append(Outcome('return', v, list(conds), s))
                return
            if isinstance(s, ast.Raise):
                v = subst(s.exc, env) if s.exc is not None else None
                self.outcomes.append(Outcome('raise', v, list(conds), s))
                return
            if isinstance(s, ast.If):
                test = subst(s.test, env)
                t = self.truth(test)
                if t is None:
                    txt = canon_atom(test)
                    self._block(list(s.body) + rest + cont, env, conds + [(txt[0], txt[1])], [])
                    self._block(list(s.orelse) + rest + cont, env, conds + [(txt[0], not txt[1])], [])
                else:
                    self._block(list(s.body if t else s.orelse) + rest + cont, env, conds, [])
                return
            if isinstance(s, (ast.FunctionDef, ast.ClassDef, ast.Import, ast.ImportFrom, ast.Assert, ast.Global, ast.Nonlocal)):
                continue
            if isinstance(s, ast.AugAssign):
                if isinstance(s.target, ast.Name):
                    env = dict(env)
                    env[s.target.id] = ast.BinOp(env.get(s.target.id, ast.Name(s.target.id, ast.Load())), s.op, subst(s.value, env))
                continue
            raise Unsupported('%s statement' % type(s).__name__)
        if cont:
            self._block(cont, env, conds, [])
        else:
            self.outcomes.append(Outcome('fall', None, list(conds), None))


def outcomes(fn_node: ast.AST, oracle: Callable[[ast.AST], Optional[bool]]) -> List[Outcome]:
    return Evaluator(oracle).run(fn_node)


def text_oracle(facts: Dict[str, bool]) -> Callable[[ast.AST], Optional[bool]]:
    """oracle from canonical atom texts: {'isclass(t)': True, 'x is None': False, ...}"""
    def o(e: ast.AST) -> Optional[bool]:
        t, pol = canon_atom(e)
        if t in facts:
            return facts[t] == pol
        return None
    return o


def truth_table(fn_node: ast.AST, atoms: List[str]) -> Dict[Tuple[bool, ...], Optional[bool]]:
    """answer (True/False/None=undetermined or not boolean) of a predicate function for every assignment of `atoms`"""
    import itertools
    out = {}
    for vals in itertools.product((False, True), repeat=len(atoms)):
        ev = Evaluator(text_oracle(dict(zip(atoms, vals))))
        res = set()
        for oc in ev.run(fn_node):
            if oc.kind == 'return' and oc.value is not None:
                res.add(ev.truth(oc.value))
            elif oc.kind == 'fall' or (oc.kind == 'return' and oc.value is None):
                res.add(False)      # None is falsy
            else:
                res.add(None)
        out[vals] = next(iter(res)) if len(res) == 1 else None
    return out
