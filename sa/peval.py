"""E7 constant folding, table extraction and a small partial evaluator.

The evaluator interprets the statement/expression subset in which PyYAML's registration sequences and
yatiml's resolver-patch methods are written, over *compile-time constant data* (the resolver tables
read from PyYAML's source). It is not an execution of the program on an input: no document, class or
user value is involved, and any construct outside the subset raises AnalysisError (exit 2).
Python reference semantics are kept (dicts/lists are shared by reference), so an in-place write to a
table that PyYAML's classes share is observable by comparing the class-level table before and after.
"""
import ast
import copy
from typing import Any, Dict, List, Optional, Tuple

from .model import AnalysisError, Program, FunctionInfo, ClassInfo


class Rx:
    """a compiled regular expression, as data"""

    def __init__(self, pattern: str, flags: int):
        self.pattern = pattern
        self.flags = flags

    def __eq__(self, o):
        return isinstance(o, Rx) and (self.pattern, self.flags) == (o.pattern, o.flags)

    def __hash__(self):
        return hash((self.pattern, self.flags))

    def __repr__(self):
        return 'Rx(%r, %d)' % (self.pattern[:30], self.flags)


class Opaque:
    def __init__(self, what=''):
        self.what = what

    def __repr__(self):
        return '<opaque %s>' % self.what


RE_FLAGS = {'X': 64, 'VERBOSE': 64, 'U': 32, 'UNICODE': 32, 'I': 2, 'IGNORECASE': 2, 'M': 8, 'MULTILINE': 8,
            'S': 16, 'DOTALL': 16, 'A': 256, 'ASCII': 256}


class _Return(Exception):
    def __init__(self, v):
        self.v = v


class _Break(Exception):
    pass


class _Continue(Exception):
    pass


class LocalFn:
    """a function defined inside the evaluated method (closure over the defining environment), or a lambda"""
    def __init__(self, params, body, env, is_lambda=False):
        self.params, self.body, self.env, self.is_lambda = params, body, env, is_lambda


class Obj:
    """an abstract instance with a class-level attribute fallback"""

    def __init__(self, cls_attrs: Dict[str, Any], methods):
        self.attrs: Dict[str, Any] = {}
        self.cls_attrs = cls_attrs
        self.methods = methods


class Evaluator:
    def __init__(self, unknown_call_ok: bool = True, max_steps: int = 200000):
        self.unknown_call_ok = unknown_call_ok
        self.steps = 0
        self.max_steps = max_steps

    # ---- expressions ----------------------------------------------------------------------------
    def ev(self, e: ast.AST, env: Dict[str, Any]):
        self.steps += 1
        if self.steps > self.max_steps:
            raise AnalysisError('partial evaluation does not terminate')
        m = getattr(self, 'e_' + type(e).__name__, None)
        if m is None:
            raise AnalysisError('partial evaluator: unsupported expression %s (line %s)'
                                % (type(e).__name__, getattr(e, 'lineno', '?')))
        return m(e, env)

    def e_Constant(self, e, env):
        return e.value

    def e_Name(self, e, env):
        if e.id in env:
            return env[e.id]
        if e.id in ('True', 'False', 'None'):
            return {'True': True, 'False': False, 'None': None}[e.id]
        # a module-level constant of the module the evaluated method lives in (a compiled pattern, a tag literal)
        mc = getattr(self, 'module_constants', None)
        if mc and e.id in mc and e.id not in getattr(self, '_resolving', set()):
            self._resolving = getattr(self, '_resolving', set()) | {e.id}
            try:
                v = self.ev(mc[e.id], {})
            except AnalysisError:
                v = Opaque(e.id)
            finally:
                self._resolving = self._resolving - {e.id}
            return v
        # a constant imported from another yatiml module
        mod = getattr(self, 'cur_module', None)
        P = getattr(self, 'program', None)
        if mod is not None and P is not None and e.id in mod.imports and mod.imports[e.id].startswith('yatiml'):
            m2, _, cname = mod.imports[e.id].rpartition('.')
            other = P.modules.get(m2)
            if other is not None and cname in other.constants and (m2, cname) not in getattr(self, '_resolving_x', set()):
                self._resolving_x = getattr(self, '_resolving_x', set()) | {(m2, cname)}
                saved = (getattr(self, 'module_constants', None), mod)
                self.module_constants, self.cur_module = other.constants, other
                try:
                    return self.ev(other.constants[cname], {})
                except AnalysisError:
                    return Opaque(e.id)
                finally:
                    self.module_constants, self.cur_module = saved
                    self._resolving_x = self._resolving_x - {(m2, cname)}
        return Opaque(e.id)

    def e_Tuple(self, e, env):
        return tuple(self.ev(x, env) for x in e.elts)

    def e_List(self, e, env):
        return [self.ev(x, env) for x in e.elts]

    def e_Set(self, e, env):
        return {self.ev(x, env) for x in e.elts}

    def e_Dict(self, e, env):
        return {self.ev(k, env): self.ev(v, env) for k, v in zip(e.keys, e.values)}

    def e_JoinedStr(self, e, env):
        raise AnalysisError('partial evaluator: f-strings unsupported')

    def e_BinOp(self, e, env):
        a, b = self.ev(e.left, env), self.ev(e.right, env)
        if isinstance(a, Opaque) or isinstance(b, Opaque):
            return Opaque('binop')
        if isinstance(e.op, ast.Add):
            return a + b
        if isinstance(e.op, ast.BitOr):
            return a | b
        if isinstance(e.op, ast.Mult):
            return a * b
        raise AnalysisError('partial evaluator: unsupported operator')

    def e_UnaryOp(self, e, env):
        v = self.ev(e.operand, env)
        if isinstance(e.op, ast.Not):
            return not self.truth(v)
        raise AnalysisError('partial evaluator: unsupported unary operator')

    def truth(self, v):
        if isinstance(v, Opaque):
            raise AnalysisError('partial evaluator: branch on a non-constant value (%s)' % v.what)
        return bool(v)

    def e_BoolOp(self, e, env):
        if isinstance(e.op, ast.And):
            v = True
            for x in e.values:
                v = self.ev(x, env)
                if not self.truth(v):
                    return v
            return v
        v = False
        for x in e.values:
            v = self.ev(x, env)
            if self.truth(v):
                return v
        return v

    def e_IfExp(self, e, env):
        return self.ev(e.body, env) if self.truth(self.ev(e.test, env)) else self.ev(e.orelse, env)

    def e_Compare(self, e, env):
        left = self.ev(e.left, env)
        for op, r in zip(e.ops, e.comparators):
            right = self.ev(r, env)
            if isinstance(left, Opaque) or isinstance(right, Opaque):
                raise AnalysisError('partial evaluator: comparison with a non-constant value')
            if isinstance(op, ast.Eq):
                ok = left == right
            elif isinstance(op, ast.NotEq):
                ok = left != right
            elif isinstance(op, ast.In):
                ok = left in right
            elif isinstance(op, ast.NotIn):
                ok = left not in right
            elif isinstance(op, ast.Is):
                ok = left is right
            elif isinstance(op, ast.IsNot):
                ok = left is not right
            else:
                raise AnalysisError('partial evaluator: unsupported comparison')
            if not ok:
                return False
            left = right
        return True

    def e_Attribute(self, e, env):
        # re.X and friends
        if isinstance(e.value, ast.Name) and e.value.id == 're' and e.attr in RE_FLAGS:
            return RE_FLAGS[e.attr]
        base = self.ev(e.value, env)
        if isinstance(base, Obj):
            if e.attr == '__dict__':
                return base.attrs
            if e.attr in base.attrs:
                return base.attrs[e.attr]
            if e.attr in base.cls_attrs:
                return base.cls_attrs[e.attr]
            return Opaque('attr ' + e.attr)
        return Opaque('attr ' + e.attr)

    def e_Subscript(self, e, env):
        base = self.ev(e.value, env)
        if isinstance(base, Opaque):
            return Opaque('subscript')
        if isinstance(e.slice, ast.Slice):
            lo = self.ev(e.slice.lower, env) if e.slice.lower else None
            hi = self.ev(e.slice.upper, env) if e.slice.upper else None
            return base[lo:hi]
        idx = self.ev(e.slice, env)
        try:
            return base[idx]
        except Exception as ex:
            raise AnalysisError('partial evaluator: subscript failed: %r' % ex)

    def _comp(self, gens, env, emit):
        def rec(i, env2):
            if i == len(gens):
                emit(env2)
                return
            g = gens[i]
            for item in self.iterate(self.ev(g.iter, env2)):
                env3 = dict(env2)
                self.assign(g.target, item, env3)
                if all(self.truth(self.ev(c, env3)) for c in g.ifs):
                    rec(i + 1, env3)
        rec(0, dict(env))

    def e_ListComp(self, e, env):
        out = []
        self._comp(e.generators, env, lambda en: out.append(self.ev(e.elt, en)))
        return out

    def e_DictComp(self, e, env):
        out = {}
        def emit(en):
            out[self.ev(e.key, en)] = self.ev(e.value, en)
        self._comp(e.generators, env, emit)
        return out

    def e_GeneratorExp(self, e, env):
        return self.e_ListComp(e, env)

    def iterate(self, v):
        if isinstance(v, Opaque):
            raise AnalysisError('partial evaluator: iteration over a non-constant value (%s)' % v.what)
        if isinstance(v, dict):
            return list(v.keys())
        return list(v)

    def e_Call(self, e, env):
        f = e.func
        args = [self.ev(a, env) for a in e.args if not isinstance(a, ast.Starred)]
        kw = {k.arg: self.ev(k.value, env) for k in e.keywords if k.arg}
        if isinstance(f, ast.Attribute):
            if isinstance(f.value, ast.Name) and f.value.id == 're' and f.attr == 'compile':
                if not args or not isinstance(args[0], str):
                    raise AnalysisError('partial evaluator: re.compile of a non-constant pattern')
                fl = args[1] if len(args) > 1 else kw.get('flags', 0)
                return Rx(args[0], fl)
            # super().__init__(...) and the like
            if isinstance(f.value, ast.Call) and isinstance(f.value.func, ast.Name) and f.value.func.id == 'super':
                return Opaque('super call')
            recv = self.ev(f.value, env)
            if isinstance(recv, Obj):
                name = f.attr
                if name.startswith('__') and not name.endswith('__'):
                    pass
                if name in recv.methods:
                    return self.call_method(recv, recv.methods[name], args, kw)
                return Opaque('method ' + name)
            if isinstance(recv, Opaque):
                return Opaque('call on ' + recv.what)
            return self.builtin_method(recv, f.attr, args, kw)
        if isinstance(f, ast.Name):
            n = f.id
            if n == 'dict':
                return dict(*args, **kw)
            if n == 'list':
                return list(*[self.iterate(a) if not isinstance(a, str) else a for a in args])
            if n == 'tuple':
                return tuple(*[self.iterate(a) for a in args])
            if n == 'set':
                return set(*[self.iterate(a) for a in args])
            if n == 'len':
                return len(args[0])
            if n == 'sorted':
                return sorted(args[0])
            if n in ('str', 'bool', 'int'):
                if any(isinstance(a, Opaque) for a in args):
                    return Opaque(n)
                return {'str': str, 'bool': bool, 'int': int}[n](*args)
            if n == 'enumerate':
                return list(enumerate(self.iterate(args[0]), *args[1:]))
            if n in ('any', 'all'):
                vals = [self.truth(v) for v in self.iterate(args[0])]
                return any(vals) if n == 'any' else all(vals)
            if n == 'reversed':
                return list(reversed(self.iterate(args[0])))
            if n == 'range':
                if any(isinstance(a, Opaque) for a in args):
                    raise AnalysisError('partial evaluator: range over a non-constant value')
                return list(range(*args))
            if n in ('min', 'max', 'sum') and args and not any(isinstance(a, Opaque) for a in args):
                return {'min': min, 'max': max, 'sum': sum}[n](*args)
            if n == 'zip':
                return list(zip(*[self.iterate(a) for a in args]))
            if n == 'isinstance':
                return Opaque('isinstance')
            if n == 'cast' and len(args) == 2:
                return args[1]
            if n == 'vars' and len(args) == 1 and isinstance(args[0], Obj):
                return args[0].attrs
            if n == 'hasattr' and len(args) == 2 and isinstance(args[0], Obj) and isinstance(args[1], str):
                return args[1] in args[0].attrs or args[1] in args[0].cls_attrs or args[1] in args[0].methods
            if n == 'getattr' and len(args) >= 2 and isinstance(args[0], Obj) and isinstance(args[1], str):
                o = args[0]
                if args[1] in o.attrs:
                    return o.attrs[args[1]]
                if args[1] in o.cls_attrs:
                    return o.cls_attrs[args[1]]
                return args[2] if len(args) == 3 else Opaque('getattr')
            if n == 'setattr' and len(args) == 3 and isinstance(args[0], Obj) and isinstance(args[1], str):
                args[0].attrs[args[1]] = args[2]
                return None
            if n in env and isinstance(env[n], FunctionInfo):
                return self.call_function(env[n], args, kw, env)
            if n in env and isinstance(env[n], LocalFn):
                return self.call_local(env[n], args, kw)
            fi = self.resolve_function(n)
            if fi is not None:
                return self.call_function(fi, args, kw, env)
            return Opaque('call ' + n)
        return Opaque('call')

    def builtin_method(self, recv, name, args, kw):
        ok = {
            dict: {'items', 'keys', 'values', 'get', 'copy', 'setdefault', 'update', 'pop', 'clear'},
            list: {'append', 'extend', 'copy', 'insert', 'pop', 'remove', 'index', 'clear', 'reverse'},
            str: {'startswith', 'endswith', 'lower', 'upper', 'format', 'replace', 'join', 'split'},
            tuple: {'index', 'count'},
            set: {'add', 'discard', 'update', 'copy'},
        }
        for t, names in ok.items():
            if isinstance(recv, t):
                if name not in names:
                    raise AnalysisError('partial evaluator: unsupported method %s.%s' % (t.__name__, name))
                r = getattr(recv, name)(*args, **kw)
                if name in ('items', 'keys', 'values'):
                    return list(r)
                return r
        if isinstance(recv, Rx):
            return Opaque('regex method')
        raise AnalysisError('partial evaluator: method %s on unsupported value %r' % (name, type(recv).__name__))

    # ---- statements -----------------------------------------------------------------------------
    def assign(self, target, value, env):
        if isinstance(target, ast.Name):
            env[target.id] = value
        elif isinstance(target, (ast.Tuple, ast.List)):
            vals = self.iterate(value)
            if len(vals) != len(target.elts):
                raise AnalysisError('partial evaluator: unpacking mismatch')
            for t, v in zip(target.elts, vals):
                self.assign(t, v, env)
        elif isinstance(target, ast.Attribute):
            base = self.ev(target.value, env)
            if isinstance(base, Obj):
                base.attrs[target.attr] = value
            elif isinstance(base, Opaque):
                pass
            else:
                raise AnalysisError('partial evaluator: attribute store on %r' % type(base).__name__)
        elif isinstance(target, ast.Subscript):
            base = self.ev(target.value, env)
            if isinstance(base, Opaque):
                return
            if isinstance(target.slice, ast.Slice):
                lo = self.ev(target.slice.lower, env) if target.slice.lower else None
                hi = self.ev(target.slice.upper, env) if target.slice.upper else None
                base[lo:hi] = self.iterate(value)
                return
            idx = self.ev(target.slice, env)
            base[idx] = value
        else:
            raise AnalysisError('partial evaluator: unsupported assignment target')

    def run(self, stmts, env):
        for st in stmts:
            self.steps += 1
            if self.steps > self.max_steps:
                raise AnalysisError('partial evaluation does not terminate')
            if isinstance(st, ast.Assign):
                v = self.ev(st.value, env)
                for t in st.targets:
                    self.assign(t, v, env)
            elif isinstance(st, ast.AnnAssign):
                if st.value is not None:
                    self.assign(st.target, self.ev(st.value, env), env)
            elif isinstance(st, ast.AugAssign):
                cur = self.ev(st.target, env)
                v = self.ev(st.value, env)
                if isinstance(st.op, ast.Add):
                    if isinstance(cur, list):
                        cur.extend(v)
                        nv = cur
                    else:
                        nv = cur + v
                else:
                    raise AnalysisError('partial evaluator: unsupported augmented assignment')
                self.assign(st.target, nv, env)
            elif isinstance(st, ast.Expr):
                if isinstance(st.value, ast.Constant):
                    continue
                self.ev(st.value, env)
            elif isinstance(st, ast.If):
                if self.truth(self.ev(st.test, env)):
                    self.run(st.body, env)
                else:
                    self.run(st.orelse, env)
            elif isinstance(st, ast.For):
                broke = False
                for item in self.iterate(self.ev(st.iter, env)):
                    self.assign(st.target, item, env)
                    try:
                        self.run(st.body, env)
                    except _Break:
                        broke = True
                        break
                    except _Continue:
                        continue
                if not broke:
                    self.run(st.orelse, env)
            elif isinstance(st, ast.Return):
                raise _Return(self.ev(st.value, env) if st.value else None)
            elif isinstance(st, ast.Break):
                raise _Break()
            elif isinstance(st, ast.Continue):
                raise _Continue()
            elif isinstance(st, ast.Pass):
                pass
            elif isinstance(st, ast.Delete):
                for t in st.targets:
                    if isinstance(t, ast.Subscript):
                        base = self.ev(t.value, env)
                        if isinstance(t.slice, ast.Slice):
                            lo = self.ev(t.slice.lower, env) if t.slice.lower else None
                            hi = self.ev(t.slice.upper, env) if t.slice.upper else None
                            del base[lo:hi]
                        else:
                            del base[self.ev(t.slice, env)]
                    elif isinstance(t, ast.Name):
                        env.pop(t.id, None)
                    else:
                        raise AnalysisError('partial evaluator: unsupported del')
            elif isinstance(st, ast.FunctionDef):
                a_ = st.args
                if not (a_.vararg or a_.kwarg or a_.kwonlyargs or a_.posonlyargs):
                    env[st.name] = LocalFn([x.arg for x in a_.args], st.body, env)
            elif isinstance(st, (ast.ClassDef, ast.Import, ast.ImportFrom, ast.Assert)):
                pass
            else:
                raise AnalysisError('partial evaluator: unsupported statement %s (line %s)'
                                    % (type(st).__name__, getattr(st, 'lineno', '?')))

    def e_Lambda(self, e, env):
        a_ = e.args
        if a_.vararg or a_.kwarg or a_.kwonlyargs or a_.posonlyargs:
            return Opaque('lambda')
        return LocalFn([x.arg for x in a_.args], e.body, env, is_lambda=True)

    def call_local(self, fn: LocalFn, args, kw):
        env = dict(fn.env)
        env.update(zip(fn.params, args))
        env.update(kw)
        if fn.is_lambda:
            return self.ev(fn.body, env)
        try:
            self.run(fn.body, env)
        except _Return as r:
            return r.v
        return None

    def resolve_function(self, name: str):
        """a module-level function of the yatiml module being evaluated, or one it imports from another yatiml module"""
        mod = getattr(self, 'cur_module', None)
        if mod is None:
            return None
        fi = mod.functions.get(name)
        if fi is not None and fi.cls is None and fi.parent is None:
            return fi
        target = mod.imports.get(name)
        P = getattr(self, 'program', None)
        if target and P is not None and target.startswith('yatiml'):
            m2, _, fn_name = target.rpartition('.')
            other = P.modules.get(m2)
            if other is not None:
                fi = other.functions.get(fn_name)
                if fi is not None and fi.cls is None and fi.parent is None:
                    return fi
        return None

    def call_method(self, obj: Obj, fi: FunctionInfo, args, kw):
        if fi.module.name.startswith('yatiml'):
            self.module_constants = fi.module.constants
            self.cur_module = fi.module
        params = [a.arg for a in fi.node.args.args]
        env: Dict[str, Any] = {params[0]: obj} if params else {}
        for p, a in zip(params[1:], args):
            env[p] = a
        env.update(kw)
        try:
            self.run(fi.node.body, env)
        except _Return as r:
            return r.v
        return None

    def call_function(self, fi: FunctionInfo, args, kw, outer_env):
        params = [a.arg for a in fi.node.args.args]
        env = dict(zip(params, args))
        env.update(kw)
        saved = (getattr(self, 'module_constants', None), getattr(self, 'cur_module', None))
        if fi.module.name.startswith('yatiml'):
            self.module_constants, self.cur_module = fi.module.constants, fi.module
        try:
            self.run(fi.node.body, env)
        except _Return as r:
            return r.v
        finally:
            self.module_constants, self.cur_module = saved
        return None


# ---- table extraction from PyYAML's source ---------------------------------------------------------------

def implicit_resolver_table(P: Program) -> Dict[Any, List[Tuple[str, Rx]]]:
    """Replay the module-level `Resolver.add_implicit_resolver(tag, re.compile(..), first)` sequence of
    yaml/resolver.py with the semantics of BaseResolver.add_implicit_resolver (read from the same file)."""
    m = P.module('yaml.resolver')
    check_resolver_model(P)
    table: Dict[Any, List[Tuple[str, Rx]]] = {}
    ev = Evaluator()
    n = 0
    for st in m.tree.body:
        if isinstance(st, ast.Expr) and isinstance(st.value, ast.Call):
            c = st.value
            if isinstance(c.func, ast.Attribute) and c.func.attr == 'add_implicit_resolver' \
                    and isinstance(c.func.value, ast.Name) and c.func.value.id == 'Resolver':
                if len(c.args) != 3:
                    raise AnalysisError('unexpected add_implicit_resolver call shape in yaml/resolver.py')
                tag, rx, first = (ev.ev(a, {}) for a in c.args)
                if not isinstance(tag, str) or not isinstance(rx, Rx):
                    raise AnalysisError('non-constant implicit resolver registration in yaml/resolver.py')
                if first is None:
                    first = [None]
                for ch in first:
                    table.setdefault(ch, []).append((tag, rx))
                n += 1
    if n < 5:
        raise AnalysisError('implicit resolver registrations not found in yaml/resolver.py')
    return table


_RESOLVE_FACTS = [
    "self.yaml_implicit_resolvers.get('', [])",
    'self.yaml_implicit_resolvers.get(value[0], [])',
    'self.yaml_implicit_resolvers.get(None, [])',
    'regexp.match(value)',
    'resolvers + wildcard_resolvers',
]


def check_resolver_model(P: Program):
    """The model of `resolve` used by the language computations (bucket of the first character, then the
    None bucket, first `match` wins, default str) is validated against the source of BaseResolver.resolve."""
    f = P.func('yaml.resolver:BaseResolver.resolve')
    src = ast.unparse(f.node)
    for fact in _RESOLVE_FACTS:
        if fact not in src:
            raise AnalysisError('yaml.resolver.BaseResolver.resolve no longer has the modelled shape: %s' % fact)
    g = P.func('yaml.resolver:BaseResolver.add_implicit_resolver')
    gs = ast.unparse(g.node)
    for fact in ("cls.yaml_implicit_resolvers.setdefault(ch, []).append((tag, regexp))", 'first = [None]',
                 "not 'yaml_implicit_resolvers' in cls.__dict__"):
        if fact not in gs:
            raise AnalysisError('yaml.resolver.BaseResolver.add_implicit_resolver changed shape: %s' % fact)


def dict_literal(e: ast.AST, ev: Optional[Evaluator] = None):
    return (ev or Evaluator()).ev(e, {})
