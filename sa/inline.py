"""Canonical decomposition: the rules were written against the function decomposition of the pinned tree
(sa/known_functions.json).  Before analysis every yatiml module is brought back to that decomposition:

 * R  a listed function that is missing is looked for among the new functions of the same module (same class first): the most
      similar body wins (difflib ratio >= 0.55, unique) and the function is renamed back, together with every reference;
 * I  every *other* new private function / method (an extracted helper) is inlined at its call sites:
        - `return h(args)`                      -> body of h (returns stay returns)
        - `x = h(args)` / `h(args)` / `x: T = ..` -> body of h with `return e` turned into `x = e` (`pass`), the remainder of h
                                                   nested into else-branches (early returns / guard clauses are structured away)
        - a call inside an expression           -> only when h is `return <expr>` (after docstring and logging)
        - `for v in h(args): BODY`              -> when h is a generator whose yields are statements: BODY replaces each yield
      Parameters are bound by assignment to fresh locals (plain names, attributes and constants are substituted directly when the
      helper never re-binds the parameter); locals of the helper get a unique suffix.  A helper all of whose call sites were
      inlined is removed.  Recursive helpers, helpers with returns inside loops/try/with, *args/**kwargs and decorated helpers are
      left alone.

Nothing here changes behaviour: it is extract-method run backwards.  Whatever cannot be inlined is simply left in place.
"""
import ast
import copy
import difflib
import json
import os
from typing import Dict, List, Optional, Set, Tuple

HERE = os.path.dirname(os.path.abspath(__file__))
_known_cache = None


def baseline_bodies(modname: str) -> Dict[str, str]:
    return known_functions().get(modname, {}).get('bodies', {})


def known_functions() -> Dict[str, dict]:
    global _known_cache
    if _known_cache is None:
        p = os.path.join(HERE, 'known_functions.json')
        if os.path.exists(p):
            with open(p) as fh:
                _known_cache = json.load(fh)['modules']
        else:
            _known_cache = {}
    return _known_cache


ALIASES: Dict[int, Dict[str, str]] = {}      # id(module tree) -> {qualname of the pinned tree: where that function lives now}
PROTECTED: Dict[int, set] = {}               # names of moved functions: they keep their identity and are not inlined
EXTERNAL: Dict[str, Dict[str, ast.AST]] = {}  # yatiml module -> its new module-level functions (step H: inlined where imported)


def collect_external_helpers(trees: Dict[str, ast.Module]) -> None:
    """step H, program level: the module-level functions that the pinned tree does not have (new helpers, public or private) are
    made available to the inliner of every module that imports them"""
    EXTERNAL.clear()
    known = known_functions()
    for mod, tree in trees.items():
        k = set(known.get(mod, {}).get('functions', []))
        out = {}
        for q, fn, cls, _ in _scopes(tree):
            if '.' in q or cls is not None or q in k or isinstance(fn, ast.AsyncFunctionDef):
                continue
            if fn.name.startswith('_yatiml') or fn.name in PROTECTED.get(id(tree), ()):
                continue
            if _Inliner._eligible(fn):
                out[fn.name] = fn
        EXTERNAL[mod] = out


class NotInlinable(Exception):
    pass


def _is_doc_or_log(st: ast.stmt) -> bool:
    if isinstance(st, ast.Expr) and isinstance(st.value, ast.Constant) and isinstance(st.value.value, str):
        return True
    if isinstance(st, ast.Expr) and isinstance(st.value, ast.Call) and isinstance(st.value.func, ast.Attribute) \
            and isinstance(st.value.func.value, ast.Name) and st.value.func.value.id in ('logger', 'logging'):
        return True
    return False


def _scopes(tree: ast.Module):
    """(qualname, FunctionDef, enclosing ClassDef or None, container list holding the def)"""
    out = []

    def walk(body, prefix, cls):
        for st in body:
            if isinstance(st, (ast.FunctionDef, ast.AsyncFunctionDef)):
                q = prefix + st.name
                out.append((q, st, cls, body))
                walk(st.body, q + '.', None)
            elif isinstance(st, ast.ClassDef):
                walk(st.body, prefix + st.name + '.', st)
            elif isinstance(st, (ast.If, ast.Try, ast.With, ast.For, ast.While)):
                for fld in ('body', 'orelse', 'finalbody'):
                    walk(getattr(st, fld, []) or [], prefix, cls)
                for h in getattr(st, 'handlers', []) or []:
                    walk(h.body, prefix, cls)
    walk(tree.body, '', None)
    return out


def _similarity(a: str, b: str) -> float:
    """similarity of two function bodies as token sequences (difflib's character matcher with its junk heuristic is useless on texts
    of a few hundred characters)"""
    import re as _re
    ta, tb = _re.findall(r'\w+|[^\w\s]', a), _re.findall(r'\w+|[^\w\s]', b)
    return difflib.SequenceMatcher(None, ta, tb, autojunk=False).ratio()


def _body_text(fn: ast.AST, own_name: str) -> str:
    body = [st for st in fn.body if not _is_doc_or_log(st)]
    t = '\n'.join(ast.unparse(st) for st in body)
    return t.replace(own_name, '<self-name>')


def _mangled(cls_name: Optional[str], name: str) -> List[str]:
    out = [name]
    if cls_name and name.startswith('__') and not name.endswith('__'):
        out.append('_%s%s' % (cls_name.lstrip('_'), name))
    return out


def _rename_everywhere(tree: ast.Module, old: str, new: str, cls_name: Optional[str]):
    olds = set(_mangled(cls_name, old))
    for n in ast.walk(tree):
        if isinstance(n, ast.Name) and n.id in olds:
            n.id = new
        elif isinstance(n, ast.Attribute) and n.attr in olds:
            n.attr = new
        elif isinstance(n, (ast.FunctionDef, ast.AsyncFunctionDef)) and n.name in olds:
            n.name = new


def restore_renamed(tree: ast.Module, modname: str, baseline: Optional[Dict[str, str]] = None) -> List[str]:
    """step R; returns a log of what was renamed"""
    known = known_functions().get(modname)
    log: List[str] = []
    if not known:
        return log
    scopes = _scopes(tree)
    have = {q for q, _, _, _ in scopes}
    missing = [q for q in known['functions'] if q not in have]
    new = [(q, fn, cls) for q, fn, cls, _ in scopes if q not in known['functions']]
    if not missing or not new:
        return log
    ref = baseline or baseline_bodies(modname)
    used = set()
    protected = set()
    # similarity is judged on bodies in which hoisted module constants (`_NULL_TAG`) are back in place as literals
    simtext = {}
    try:
        from .normalize import propagate_module_constants
        shadow = propagate_module_constants(copy.deepcopy(tree))
        simtext = {q2: _body_text(f2, f2.name) for q2, f2, _, _ in _scopes(shadow)}
    except Exception:           # pragma: no cover
        simtext = {}
    for q in missing:
        want = ref.get(q)
        if want is None:
            continue
        parent_q = q.rsplit('.', 1)[0] if '.' in q else ''
        best, best_r, second = None, 0.0, 0.0
        # a missing closure can only have been called from the function it was defined in
        parent_fn = [f for q2, f, _, _ in scopes if q2 == parent_q]
        called_in_parent = set()
        for pf in parent_fn:
            for n in ast.walk(pf):
                if isinstance(n, ast.Call):
                    called_in_parent.add(n.func.id if isinstance(n.func, ast.Name) else n.func.attr if isinstance(n.func, ast.Attribute) else '')
        for nq, fn, cls in new:
            if nq in used:
                continue
            r = _similarity(want, simtext.get(nq) or _body_text(fn, fn.name))
            if parent_fn and any(fn.name == c or c.endswith(fn.name) for c in called_in_parent):
                r += 0.15          # ... and this candidate is called from there
            if (nq.rsplit('.', 1)[0] if '.' in nq else '') == parent_q:
                r += 0.05          # same class / same enclosing function
            if r > best_r:
                best, second, best_r = (nq, fn, cls), best_r, r
            elif r > second:
                second = r
        if best is not None and best_r >= 0.55 and best_r - second >= 0.1:
            nq, fn, cls = best
            used.add(nq)
            old_name = q.rsplit('.', 1)[-1]
            if (nq.rsplit('.', 1)[0] if '.' in nq else '') == parent_q:
                _rename_everywhere(tree, fn.name, old_name, cls.name if cls is not None else None)
                log.append('%s: %s was renamed to %s (similarity %.2f) - analysed under its old name' % (modname, q, nq, best_r))
            elif _bring_home(tree, q, nq, fn, cls, known.get('params', {}).get(q)):
                log.append('%s: %s was moved to %s (similarity %.2f) - analysed at its old place' % (modname, q, nq, best_r))
                protected.add(fn.name)
            else:
                log.append('%s: %s now lives at %s (similarity %.2f)' % (modname, q, nq, best_r))
                ALIASES.setdefault(id(tree), {})[q] = nq
                protected.add(fn.name)
    # by elimination: a listed function that is still missing, whose pinned callers now call exactly one function that the pinned
    # tree does not have (in the scope where the missing one lived), is that function under a new name - whatever its body has
    # become (constants hoisted into another module, loops turned into comprehensions)
    sources = known.get('sources', {})
    scopes = _scopes(tree)
    have = {q for q, _, _, _ in scopes}
    for q in [m for m in missing if m not in have]:
        old_name = q.rsplit('.', 1)[-1]
        parent_q = q.rsplit('.', 1)[0] if '.' in q else ''
        callers = []
        for k, src in sources.items():
            if k == q:
                continue
            try:
                kt = ast.parse(src)
            except SyntaxError:
                continue
            if any(isinstance(c, ast.Call) and ((isinstance(c.func, ast.Attribute) and c.func.attr in _mangled(parent_q or None, old_name))
                                                or (isinstance(c.func, ast.Name) and c.func.id == old_name)) for c in ast.walk(kt)):
                callers.append(k)
        if not callers:
            continue
        cur = {q2: f2 for q2, f2, _, _ in scopes}
        if not all(k in cur for k in callers):
            continue
        cands = []
        for nq, fn, cls in new:
            if nq in used or nq in have and nq in known['functions']:
                continue
            nparent = nq.rsplit('.', 1)[0] if '.' in nq else ''
            # same scope, or a private method that became a private module-level function
            if nparent != parent_q and not (nparent == '' and '.' not in parent_q and parent_q and old_name.startswith('_')
                                            and fn.name.startswith('_')):
                continue
            names = set(_mangled(cls.name if cls is not None else None, fn.name))
            if all(any(isinstance(c, ast.Call) and ((isinstance(c.func, ast.Attribute) and c.func.attr in names)
                                                    or (isinstance(c.func, ast.Name) and c.func.id in names))
                       for c in ast.walk(cur[k])) for k in callers):
                cands.append((nq, fn, cls))
        if len(cands) != 1:
            continue
        nq, fn, cls = cands[0]
        # the callers must not have gained other new callees that could equally be it: the candidate is unique by construction;
        # arity must agree
        old_params = known.get('params', {}).get(q)
        if (nq.rsplit('.', 1)[0] if '.' in nq else '') != parent_q:
            if _bring_home(tree, q, nq, fn, cls, old_params):
                used.add(nq)
                protected.add(fn.name)
                log.append('%s: %s was moved to %s (the only new function its callers %s call in its place) - analysed at its '
                           'old place' % (modname, q, nq, sorted(callers)))
            continue
        if old_params is not None and len(old_params) != len(fn.args.args):
            continue
        used.add(nq)
        _rename_everywhere(tree, fn.name, old_name, cls.name if cls is not None else None)
        log.append('%s: %s was renamed to %s (the only new function its callers %s call in its place) - analysed under its old name'
                   % (modname, q, nq, sorted(callers)))
    PROTECTED[id(tree)] = protected
    return log


def restore_private_properties(tree: ast.Module, modname: str) -> List[str]:
    """step Y: a private read-only property whose getter is one `return <expression over fields of self>` - the fields assigned
    only in `__init__` (set once), or other such properties - is not a unit of its own in the pinned decomposition:
      * if the pinned `__init__` assigns an attribute of that name, the attribute is assigned again, right after the last of the
        fields it is computed from (`self._kv_sep = ': ' if self._requested_indent is not None else ':'`);
      * otherwise every read `self._p` in the methods of the class is the expression."""
    log: List[str] = []
    known = known_functions().get(modname, {})
    sources = known.get('sources', {})
    for cls in [c for c in tree.body if isinstance(c, ast.ClassDef)]:
        methods = [m for m in cls.body if isinstance(m, ast.FunctionDef)]
        init = next((m for m in methods if m.name == '__init__'), None)
        if init is None or not init.args.args:
            continue
        iself = init.args.args[0].arg
        names = [m.name for m in methods]

        def simple(e) -> bool:
            return all(isinstance(n, (ast.Attribute, ast.Name, ast.Constant, ast.Compare, ast.BoolOp, ast.IfExp, ast.UnaryOp, ast.Not,
                                      ast.And, ast.Or, ast.Is, ast.IsNot, ast.Eq, ast.NotEq, ast.Load, ast.Lt, ast.Gt, ast.LtE, ast.GtE,
                                      ast.In, ast.NotIn)) for n in ast.walk(e))
        props = {}
        for m in methods:
            if len(m.decorator_list) == 1 and isinstance(m.decorator_list[0], ast.Name) and m.decorator_list[0].id == 'property' \
                    and m.name.startswith('_') and not m.name.endswith('__') and names.count(m.name) == 1 and len(m.args.args) == 1:
                body = [st for st in m.body if not _is_doc_or_log(st)]
                if len(body) == 1 and isinstance(body[0], ast.Return) and body[0].value is not None and simple(body[0].value):
                    sn = m.args.args[0].arg
                    if all(n.id == sn for n in ast.walk(body[0].value) if isinstance(n, ast.Name)):
                        props[m.name] = (m, body[0].value, sn)
        if not props:
            continue
        mangled = {nm: set(_mangled(cls.name, nm)) for nm in props}
        # stores of attributes anywhere in the module
        stores = {}
        for n in ast.walk(tree):
            if isinstance(n, ast.Attribute) and isinstance(n.ctx, (ast.Store, ast.Del)):
                stores.setdefault(n.attr, []).append(n)
        init_top_stores = {}
        for k, st in enumerate(init.body):
            if isinstance(st, (ast.Assign, ast.AnnAssign)):
                for t in (st.targets if isinstance(st, ast.Assign) else [st.target]):
                    if isinstance(t, ast.Attribute) and isinstance(t.value, ast.Name) and t.value.id == iself:
                        init_top_stores.setdefault(t.attr, []).append(k)

        def set_once(attr) -> bool:
            return attr in init_top_stores and len(stores.get(attr, [])) == len(init_top_stores[attr]) == 1
        pinned_init = sources.get('%s.__init__' % cls.name, '')
        done = True
        resolved = {}
        while done:
            done = False
            for nm, (m, expr, sn) in list(props.items()):
                if nm in resolved:
                    continue
                fields = {n.attr for n in ast.walk(expr) if isinstance(n, ast.Attribute)}
                if any(stores.get(x) for x in mangled[nm]):
                    continue
                if not all(set_once(f) or any(f in mangled[r_] for r_ in resolved) for f in fields):
                    continue
                # expand reads of already resolved properties
                e2 = copy.deepcopy(expr)

                class _Exp(ast.NodeTransformer):
                    def visit_Attribute(self, n):
                        self.generic_visit(n)
                        for r_, (re_, rs_) in resolved.items():
                            if n.attr in mangled[r_] and isinstance(n.value, ast.Name) and n.value.id == sn and isinstance(n.ctx, ast.Load):
                                class _S(ast.NodeTransformer):
                                    def visit_Name(self, x):
                                        return ast.Name(sn, ast.Load()) if x.id == rs_ else x
                                return _S().visit(copy.deepcopy(re_))
                        return n
                e2 = _Exp().visit(e2)
                resolved[nm] = (e2, sn)
                done = True
        for nm, (e2, sn) in resolved.items():
            m = props[nm][0]
            fields = {n.attr for n in ast.walk(e2) if isinstance(n, ast.Attribute)}
            if not all(set_once(f) for f in fields):
                continue
            as_attribute = any(('self.%s =' % x) in pinned_init or ('self.%s:' % x) in pinned_init for x in mangled[nm])

            def inst(selfn):
                class _S(ast.NodeTransformer):
                    def visit_Name(self, x):
                        return ast.Name(selfn, ast.Load()) if x.id == sn else x
                return _S().visit(copy.deepcopy(e2))
            if as_attribute:
                after = max(init_top_stores[f][0] for f in fields) if fields else len(init.body) - 1
                # nothing between may already read it: it is assigned as early as its inputs allow
                st = ast.Assign([ast.Attribute(ast.Name(iself, ast.Load()), nm, ast.Store())], inst(iself), None)
                ast.copy_location(st, init.body[after])
                init.body.insert(after + 1, st)
                for f in init_top_stores:
                    init_top_stores[f] = [k + 1 if k > after else k for k in init_top_stores[f]]
                cls.body.remove(m)
                log.append('%s: property %s.%s is the attribute __init__ assigns again' % (modname, cls.name, nm))
            else:
                ok = True
                sites = []
                for g in [x for x in cls.body if isinstance(x, ast.FunctionDef) and x is not m]:
                    gself = g.args.args[0].arg if g.args.args else None
                    for n in ast.walk(g):
                        if isinstance(n, ast.Attribute) and n.attr in mangled[nm]:
                            if not (isinstance(n.value, ast.Name) and n.value.id == gself and isinstance(n.ctx, ast.Load)):
                                ok = False
                            sites.append((g, n, gself))
                outside = [n for n in ast.walk(tree) if isinstance(n, ast.Attribute) and n.attr in mangled[nm]
                           and not any(n is x for _, x, _ in sites) and not any(n is y for y in ast.walk(m))]
                if not ok or outside:
                    continue
                for g, n, gself in sites:
                    new = inst(gself)
                    for par in ast.walk(g):
                        for fld, val in ast.iter_fields(par):
                            if val is n:
                                setattr(par, fld, new)
                            elif isinstance(val, list):
                                for i_, x in enumerate(val):
                                    if x is n:
                                        val[i_] = new
                cls.body.remove(m)
                log.append('%s: property %s.%s is read as its expression (%d site(s))' % (modname, cls.name, nm, len(sites)))
    if log:
        ast.fix_missing_locations(tree)
    return log


def restore_instance_methods(tree: ast.Module, modname: str) -> List[str]:
    """step P, first part: a pinned private instance method that does not use its instance any more and was made a @staticmethod
    (called as `Class.__m(..)` or `self.__m(..)`) becomes the instance method again: `self` is put back in front, and every call
    site - all of them must sit in methods of the same class, or in the method itself - is made through the caller's own `self`."""
    log: List[str] = []
    frozen = known_functions().get(modname, {}).get('params', {})
    for q, fn, cls, _ in _scopes(tree):
        if q not in frozen or not isinstance(fn, ast.FunctionDef) or cls is None or not frozen[q] or frozen[q][0] != 'self':
            continue
        if not any(isinstance(d, ast.Name) and d.id == 'staticmethod' for d in fn.decorator_list) or len(fn.decorator_list) != 1:
            continue
        name = fn.name
        if not name.startswith('_') or (name.startswith('__') and name.endswith('__')):
            continue
        if any(x.arg == 'self' for x in fn.args.args) or any(isinstance(n, ast.Name) and n.id == 'self' for n in ast.walk(fn)):
            continue
        names = set(_mangled(cls.name, name))
        methods = [m for m in cls.body if isinstance(m, (ast.FunctionDef, ast.AsyncFunctionDef))]
        in_method = {}
        for m in methods:
            for n in ast.walk(m):
                in_method[id(n)] = m
        sites, ok = [], True
        for c in ast.walk(tree):
            if isinstance(c, ast.Attribute) and c.attr in names:
                m = in_method.get(id(c))
                if m is None or not isinstance(c.value, ast.Name):
                    ok = False
                    break
                if m is fn:
                    selfn = 'self'
                else:
                    if any(isinstance(d, ast.Name) and d.id in ('staticmethod', 'classmethod') for d in m.decorator_list) or not m.args.args:
                        ok = False
                        break
                    selfn = m.args.args[0].arg
                if c.value.id not in (selfn, cls.name):
                    ok = False
                    break
                sites.append((c, selfn))
            elif isinstance(c, ast.Name) and c.id in names:
                ok = False
                break
        if not ok:
            continue
        for c, selfn in sites:
            c.value = ast.copy_location(ast.Name(selfn, ast.Load()), c.value)
        fn.args.args.insert(0, ast.arg('self', None))
        fn.decorator_list = []
        log.append('%s: %s is an instance method again (was made a static method; called through the caller\'s self)' % (modname, q))
    if log:
        ast.fix_missing_locations(tree)
    return log


def restore_projected_parameters(tree: ast.Module, modname: str) -> List[str]:
    """step P, between: a pinned private method lost exactly one pinned parameter D and gained exactly one new parameter R, and every
    call site outside the method binds R to one and the same attribute path of a plain name (`dumper.yaml_representers`) while the
    method's own recursive calls hand R on unchanged: R is the projection `D.path` computed by the callers.  The method takes D
    again and reads `D.path` where it read R (R must not be rebound); outside callers pass the base object."""
    log: List[str] = []
    frozen = known_functions().get(modname, {}).get('params', {})
    for q, fn, cls, _ in _scopes(tree):
        if q not in frozen or not isinstance(fn, ast.FunctionDef) or cls is None:
            continue
        name = fn.name
        if not name.startswith('_') or (name.startswith('__') and name.endswith('__')):
            continue
        a = fn.args
        if a.vararg or a.kwarg or a.posonlyargs or a.kwonlyargs or fn.decorator_list:
            continue
        now = [x.arg for x in a.args]
        old = frozen[q]
        lost = [p_ for p_ in old if p_ not in now]
        gained = [p_ for p_ in now if p_ not in old]
        if len(lost) != 1 or len(gained) != 1 or not now or now[0] != old[0]:
            continue
        D, R = lost[0], gained[0]
        nd = len(a.defaults)
        if R in now[len(now) - nd:]:
            continue
        if any(isinstance(n, ast.Name) and n.id == R and not isinstance(n.ctx, ast.Load) for n in ast.walk(fn)) \
                or any(isinstance(n, ast.Name) and n.id == D for n in ast.walk(fn)) \
                or any(isinstance(n, (ast.FunctionDef, ast.Lambda)) and n is not fn for n in ast.walk(fn)):
            continue
        names = set(_mangled(cls.name, name))
        inside = {id(n) for n in ast.walk(fn)}
        pos = now.index(R) - 1
        sites, ok = [], True
        for c in ast.walk(tree):
            if isinstance(c, ast.Call) and isinstance(c.func, ast.Attribute) and c.func.attr in names:
                if any(isinstance(x, ast.Starred) for x in c.args) or any(k.arg is None for k in c.keywords):
                    ok = False
                    break
                arg = c.args[pos] if pos < len(c.args) else next((k.value for k in c.keywords if k.arg == R), None)
                if arg is None:
                    ok = False
                    break
                sites.append((c, arg, id(c) in inside))
        if not ok or not sites:
            continue
        paths = set()
        for c, arg, rec in sites:
            if rec:
                if not (isinstance(arg, ast.Name) and arg.id == R):
                    ok = False
            else:
                base = arg
                while isinstance(base, ast.Attribute):
                    base = base.value
                if not (isinstance(arg, ast.Attribute) and isinstance(base, ast.Name)):
                    ok = False
                else:
                    paths.add(ast.unparse(arg)[len(base.id):])
        if not ok or len(paths) != 1 or not any(not rec for _, _, rec in sites):
            continue
        path = paths.pop()
        expr = ast.parse(D + path, mode='eval').body

        class _Sub(ast.NodeTransformer):
            def visit_Name(self, n):
                return copy.deepcopy(expr) if n.id == R and isinstance(n.ctx, ast.Load) else n
        # recursive sites first get the plain name back (they are inside the body that is rewritten next)
        for c, arg, rec in sites:
            if rec:
                arg.id = '__projected__'
        fn.body = [_Sub().visit(st) for st in fn.body]
        for n in ast.walk(fn):
            if isinstance(n, ast.Name) and n.id == '__projected__':
                n.id = D
        for c, arg, rec in sites:
            if not rec:
                base = arg
                while isinstance(base, ast.Attribute):
                    base = base.value
                new = ast.copy_location(ast.Name(base.id, ast.Load()), arg)
                if pos < len(c.args):
                    c.args[pos] = new
                else:
                    for k in c.keywords:
                        if k.arg == R:
                            k.value = new
            for k in c.keywords:
                if k.arg == R:
                    k.arg = D
        for x in a.args:
            if x.arg == R:
                x.arg = D
        log.append('%s: %s takes %s again and reads %s%s itself (the callers handed that in as %s)' % (modname, q, D, D, path, R))
    if log:
        ast.fix_missing_locations(tree)
    return log


def restore_parameter_order(tree: ast.Module, modname: str) -> List[str]:
    """step P: a pinned *private* function whose parameters were re-ordered, or that was given additional parameters (state that used
    to be parked on self handed in instead), gets its pinned parameters back in their pinned positions, the new ones after them;
    the positional arguments of its call sites in the module move along.  Rules address parameters by their pinned position."""
    log: List[str] = []
    known = known_functions().get(modname, {})
    frozen = known.get('params', {})
    for q, fn, cls, _ in _scopes(tree):
        if q not in frozen or not isinstance(fn, ast.FunctionDef):
            continue
        name = fn.name
        if not name.startswith('_') or (name.startswith('__') and name.endswith('__')):
            continue
        a = fn.args
        if a.vararg or a.kwarg or a.posonlyargs or a.kwonlyargs:
            continue
        now = [x.arg for x in a.args]
        old = frozen[q]
        if now == old or not set(old) <= set(now) or len(set(now)) != len(now):
            continue
        new = list(old) + [p_ for p_ in now if p_ not in old]
        if new == now:
            continue
        # defaults: only when the defaulted parameters stay a suffix with the same values
        nd = len(a.defaults)
        dflt = dict(zip(now[len(now) - nd:], a.defaults))
        if dflt and new[len(new) - len(dflt):] != [p_ for p_ in new if p_ in dflt]:
            continue
        perm = [now.index(p_) for p_ in new]
        by_name = {x.arg: x for x in a.args}
        is_method = cls is not None and not any(isinstance(d, ast.Name) and d.id == 'staticmethod' for d in fn.decorator_list)
        off = 1 if is_method else 0
        if is_method and new[0] != now[0]:
            continue
        # call sites
        sites = []
        ok = True
        for c in ast.walk(tree):
            if not isinstance(c, ast.Call):
                continue
            f_ = c.func
            nm = f_.attr if isinstance(f_, ast.Attribute) else f_.id if isinstance(f_, ast.Name) else None
            if nm is None or not (nm == name or (cls is not None and nm == '_%s%s' % (cls.name.lstrip('_'), name))):
                continue
            if any(isinstance(x, ast.Starred) for x in c.args) or any(k.arg is None for k in c.keywords):
                ok = False
                break
            sites.append(c)
        if not ok:
            continue
        for c in sites:
            given = {}
            for i, x in enumerate(c.args):
                if i + off < len(now):
                    given[now[i + off]] = x
            kw = {k.arg: k for k in c.keywords}
            new_args, stop = [], False
            for p_ in new[off:]:
                if p_ in given and not stop:
                    new_args.append(given.pop(p_))
                else:
                    stop = True         # from here on by keyword
                    if p_ in given:
                        kw[p_] = ast.keyword(p_, given.pop(p_))
            c.args = new_args
            c.keywords = [kw[k_] for k_ in kw]
        a.args = [by_name[p_] for p_ in new]
        a.defaults = [dflt[p_] for p_ in new if p_ in dflt]
        log.append('%s: %s takes (%s) again (was (%s))' % (modname, q, ', '.join(new), ', '.join(now)))
    if log:
        ast.fix_missing_locations(tree)
    return log


def restore_state_parameters(tree: ast.Module, modname: str) -> List[str]:
    """step P, second half: an additional trailing parameter of a pinned private method that every call site binds to the same
    attribute path of the receiver (`self.__attr_index(a, self.yaml_node)`, the receiver being a plain name) and that the body
    never rebinds is that state read inside again.  Runs after step P proper and once more after normalisation (which may only
    then have turned a local alias `pairs = self.yaml_node.value` at the call site back into the attribute path)."""
    log: List[str] = []
    frozen = known_functions().get(modname, {}).get('params', {})
    for q, fn, cls, _ in _scopes(tree):
        if q not in frozen or not isinstance(fn, ast.FunctionDef) or cls is None:
            continue
        name = fn.name
        if not name.startswith('_') or (name.startswith('__') and name.endswith('__')):
            continue
        if any(isinstance(d, ast.Name) and d.id in ('staticmethod', 'classmethod') for d in fn.decorator_list):
            continue
        a = fn.args
        if a.vararg or a.kwarg or a.posonlyargs or a.kwonlyargs or a.defaults:
            continue
        now = [x.arg for x in a.args]
        old = frozen[q]
        if now[:len(old)] != old or len(now) == len(old):
            continue
        sites = []
        ok = True
        for c in ast.walk(tree):
            if not isinstance(c, ast.Call):
                continue
            f_ = c.func
            nm = f_.attr if isinstance(f_, ast.Attribute) else f_.id if isinstance(f_, ast.Name) else None
            if nm is None or not (nm == name or nm == '_%s%s' % (cls.name.lstrip('_'), name)):
                continue
            if any(isinstance(x, ast.Starred) for x in c.args) or any(k.arg is None for k in c.keywords):
                ok = False
                break
            sites.append(c)
        if not ok or not sites:
            continue
        selfn = now[0]
        for p_ in now[len(old):]:
            cur = [x.arg for x in a.args]
            pos = cur.index(p_) - 1
            texts, good = set(), True
            for c in sites:
                arg = c.args[pos] if pos < len(c.args) else next((k.value for k in c.keywords if k.arg == p_), None)
                recv = c.func.value if isinstance(c.func, ast.Attribute) else None
                if arg is None or not isinstance(recv, ast.Name):
                    good = False
                    break
                base = arg
                while isinstance(base, ast.Attribute):
                    base = base.value
                if not (isinstance(arg, ast.Attribute) and isinstance(base, ast.Name) and base.id == recv.id):
                    good = False
                    break
                texts.add(ast.unparse(arg)[len(recv.id):])
            rebound = any(isinstance(n, ast.Name) and n.id == p_ and not isinstance(n.ctx, ast.Load) for n in ast.walk(fn)) \
                or any(isinstance(n, (ast.FunctionDef, ast.Lambda)) and n is not fn for n in ast.walk(fn))
            if not good or len(texts) != 1 or rebound:
                continue
            path = texts.pop()          # '.yaml_node'
            expr = ast.parse(selfn + path, mode='eval').body

            class _Sub(ast.NodeTransformer):
                def visit_Name(self, n):
                    return copy.deepcopy(expr) if n.id == p_ and isinstance(n.ctx, ast.Load) else n
            fn.body = [_Sub().visit(st) for st in fn.body]
            for c in sites:
                if pos < len(c.args):
                    del c.args[pos]
                else:
                    c.keywords = [k for k in c.keywords if k.arg != p_]
            a.args = [x for x in a.args if x.arg != p_]
            log.append('%s: %s reads %s%s itself again (every call site handed it in as %s)' % (modname, q, selfn, path, p_))
    if log:
        ast.fix_missing_locations(tree)
    return log


def restore_renamed_attributes(tree: ast.Module, modname: str) -> List[str]:
    """step A: private instance attributes.  The frozen `__init__` of a class says `self._x = <e>`; if `_x` does not occur in the
    module any more and the `__init__` of today binds a new private attribute to the same expression, that attribute is `_x` under
    another name: it is renamed back throughout the module."""
    known = known_functions().get(modname)
    log: List[str] = []
    if not known or 'sources' not in known:
        return log
    all_attrs = {n.attr for n in ast.walk(tree) if isinstance(n, ast.Attribute)}
    for c in [c for c in tree.body if isinstance(c, ast.ClassDef)]:
        src = known['sources'].get('%s.__init__' % c.name)
        init = next((m for m in c.body if isinstance(m, ast.FunctionDef) and m.name == '__init__'), None)
        if src is None or init is None:
            continue

        def inits(fn):
            out = []
            selfn = fn.args.args[0].arg if fn.args.args else 'self'
            for st in ast.walk(fn):
                if isinstance(st, ast.Assign) and len(st.targets) == 1 and isinstance(st.targets[0], ast.Attribute) \
                        and isinstance(st.targets[0].value, ast.Name) and st.targets[0].value.id == selfn:
                    out.append((st.targets[0].attr, ast.unparse(st.value)))
            return out
        try:
            old = inits(ast.parse(src).body[0])
        except SyntaxError:
            continue
        new = inits(init)
        old_names = {a for a, _ in old}
        gone = [(a, e) for a, e in old if a not in all_attrs and a.startswith('_') and not a.startswith('__')]
        fresh = [(a, e) for a, e in new if a not in old_names and a.startswith('_') and not a.startswith('__')]
        for a, e in gone:
            cands = [b for b, e2 in fresh if e2 == e]
            same_old = [x for x, e2 in gone if e2 == e]
            if not cands or len(cands) != len(same_old):
                continue
            b = cands[same_old.index(a)]
            for n in ast.walk(tree):
                if isinstance(n, ast.Attribute) and n.attr == b:
                    n.attr = a
            fresh = [(x, e2) for x, e2 in fresh if x != b]
            log.append('%s: attribute %s.%s was renamed to %s - analysed under its old name' % (modname, c.name, a, b))
    return log


def _bring_home(tree: ast.Module, q: str, nq: str, fn: ast.AST, cls: Optional[ast.ClassDef], old_params: Optional[List[str]]) -> bool:
    """A listed function was found in another scope of the same module (closure -> module level / private method, method ->
    module level).  A copy under the old name is put back where it was and the calls there are turned back; True on success."""
    old_name = q.rsplit('.', 1)[-1]
    parent_q = q.rsplit('.', 1)[0] if '.' in q else ''
    scopes = _scopes(tree)
    new_is_method = cls is not None
    names = set(_mangled(cls.name if cls is not None else None, fn.name))
    g = copy.deepcopy(fn)
    g.name = old_name
    g.decorator_list = [d for d in g.decorator_list if not (isinstance(d, ast.Name) and d.id in ('staticmethod', 'classmethod'))]
    static = len(g.decorator_list) != len(fn.decorator_list)
    if g.decorator_list:
        return False

    def is_call_of_new(c: ast.Call) -> bool:
        f = c.func
        if isinstance(f, ast.Name) and f.id in names and not new_is_method:
            return True
        if isinstance(f, ast.Attribute) and f.attr in names and new_is_method and isinstance(f.value, ast.Name):
            return True
        return False
    parent_fn = next((f2 for q2, f2, _, _ in scopes if q2 == parent_q), None)
    parent_cls = next((c for c in ast.walk(tree) if isinstance(c, ast.ClassDef) and c.name == parent_q), None) if parent_fn is None else None
    if parent_fn is not None:
        # the old place is inside a function: a closure
        if new_is_method and not static:
            selfn = g.args.args[0].arg if g.args.args else None
            pself = parent_fn.args.args[0].arg if parent_fn.args.args else None
            if selfn is None:
                return False
            used = any(isinstance(n, ast.Name) and n.id == selfn for st in g.body for n in ast.walk(st))
            if used and selfn != pself:
                return False
            g.args.args = g.args.args[1:]
        for c in ast.walk(g):
            if isinstance(c, ast.Call) and is_call_of_new(c):
                c.func = ast.copy_location(ast.Name(old_name, ast.Load()), c.func)
        hit = False
        for c in ast.walk(parent_fn):
            if isinstance(c, ast.Call) and is_call_of_new(c):
                c.func = ast.copy_location(ast.Name(old_name, ast.Load()), c.func)
                hit = True
        if not hit:
            return False
        i = 1 if parent_fn.body and _is_doc_or_log(parent_fn.body[0]) else 0
        parent_fn.body.insert(i, g)
        ast.fix_missing_locations(tree)
        return True
    if parent_cls is not None and not new_is_method:
        # the old place is a method of a class, the new one a module-level function
        had_self = bool(old_params) and old_params[0] in ('self', 'cls')
        if had_self and not (g.args.args and g.args.args[0].arg in ('self', 'cls')):
            g.args.args.insert(0, ast.arg('self', None))
        if not had_self:
            g.decorator_list = [ast.Name('staticmethod', ast.Load())]

        def fix(node, selfn):
            for c in ast.walk(node):
                if isinstance(c, ast.Call) and is_call_of_new(c):
                    c.func = ast.copy_location(ast.Attribute(ast.Name(selfn, ast.Load()), old_name, ast.Load()), c.func)
        for st in tree.body:
            if st is not parent_cls and any(isinstance(c, ast.Call) and is_call_of_new(c) for c in ast.walk(st) if st is not fn):
                if st is fn:
                    continue
                return False
        fix(g, 'self')
        for st in parent_cls.body:
            if isinstance(st, (ast.FunctionDef, ast.AsyncFunctionDef)):
                selfn = st.args.args[0].arg if st.args.args else None
                if any(isinstance(c, ast.Call) and is_call_of_new(c) for c in ast.walk(st)):
                    if selfn is None:
                        return False
                    fix(st, selfn)
        parent_cls.body.append(g)
        ast.fix_missing_locations(tree)
        return True
    return False


# ---- inlining --------------------------------------------------------------------------------------------------

def _contains_return(st: ast.AST) -> bool:
    for n in ast.walk(st):
        if isinstance(n, (ast.FunctionDef, ast.AsyncFunctionDef, ast.Lambda)) and n is not st:
            continue
        if isinstance(n, ast.Return):
            return True
    return False


def _eliminate_returns(stmts: List[ast.stmt], on_return) -> Tuple[List[ast.stmt], bool]:
    """structured replacement of `return e` by on_return(e); (new statements, always terminated?)"""
    out: List[ast.stmt] = []
    for i, s in enumerate(stmts):
        if isinstance(s, ast.Return):
            out += on_return(s.value, s)
            return out, True
        if isinstance(s, ast.Raise):
            out.append(s)
            return out, True
        if isinstance(s, ast.If) and _contains_return(s):
            b, bt = _eliminate_returns(s.body, on_return)
            o, ot = _eliminate_returns(s.orelse, on_return)
            rest = stmts[i + 1:]
            if bt and ot:
                out.append(ast.copy_location(ast.If(s.test, b or [ast.Pass()], o), s))
                return out, True
            r, rt = _eliminate_returns(rest, on_return)
            if bt:
                out.append(ast.copy_location(ast.If(s.test, b or [ast.Pass()], o + r), s))
                return out, rt
            if ot:
                out.append(ast.copy_location(ast.If(s.test, (b + r) or [ast.Pass()], o), s))
                return out, rt
            # returns deeper inside both arms but neither arm always terminates: the (short) remainder is duplicated into both
            if len(rest) > 3 or any(isinstance(n, (ast.FunctionDef, ast.ClassDef, ast.For, ast.While, ast.Try, ast.With))
                                    for x in rest for n in ast.walk(x)):
                raise NotInlinable('return inside a branch that may also fall through')
            b, bt = _eliminate_returns(list(s.body) + copy.deepcopy(rest), on_return)
            o, ot = _eliminate_returns(list(s.orelse) + copy.deepcopy(rest), on_return)
            out.append(ast.copy_location(ast.If(s.test, b or [ast.Pass()], o), s))
            return out, bt and ot
        if isinstance(s, ast.Try) and not s.finalbody and not s.orelse and _contains_return(s):
            # `try: ...; return e  except X: <terminates>`: the protected region keeps its extent, the value is bound inside it
            b, bt = _eliminate_returns(s.body, on_return)
            hs, hts = [], []
            for h in s.handlers:
                hb, ht = _eliminate_returns(h.body, on_return)
                hs.append(ast.copy_location(ast.ExceptHandler(h.type, h.name, hb or [ast.Pass()]), h))
                hts.append(ht)
            rest = stmts[i + 1:]
            if (bt and all(hts)) or not rest:
                out.append(ast.copy_location(ast.Try(b or [ast.Pass()], hs, [], []), s))
                return out, bt and all(hts)
            raise NotInlinable('return inside try with a remainder to skip')
        if _contains_return(s):
            raise NotInlinable('return inside %s' % type(s).__name__)
        out.append(s)
    return out, False


class _Rename(ast.NodeTransformer):
    def __init__(self, mapping: Dict[str, ast.AST], rename: Dict[str, str]):
        self.mapping = mapping
        self.rename = rename

    def visit_Name(self, n: ast.Name):
        if n.id in self.mapping and isinstance(n.ctx, ast.Load):
            return ast.copy_location(copy.deepcopy(self.mapping[n.id]), n)
        if n.id in self.rename:
            return ast.copy_location(ast.Name(self.rename[n.id], n.ctx), n)
        return n

    def visit_ExceptHandler(self, n: ast.ExceptHandler):
        if n.name in self.rename:
            n.name = self.rename[n.name]
        self.generic_visit(n)
        return n

    def visit_FunctionDef(self, n):
        return n        # nested definitions are left alone (helpers with nested defs are not inlined anyway)

    visit_Lambda = visit_FunctionDef

    def visit_ClassDef(self, n):
        # a plain local class (`class UserDumper(Dumper): output_format = fmt`): bases and attribute values read the helper's
        # parameters, the attribute names and the class name are not locals of the helper
        n.bases = [self.visit(b) for b in n.bases]
        for st in n.body:
            if isinstance(st, ast.Assign):
                st.value = self.visit(st.value)
        return n


def _simple_arg(e: ast.AST) -> bool:
    if isinstance(e, (ast.Name, ast.Constant)):
        return True
    if isinstance(e, ast.Attribute):
        return _simple_arg(e.value)
    return False


class _Inliner:
    def __init__(self, tree: ast.Module, modname: str):
        self.tree = tree
        self.modname = modname
        self.counter = 0
        self.log: List[str] = []
        known = known_functions().get(modname, {'functions': []})
        self.known = set(known['functions'])
        self.scopes = _scopes(tree)
        # helpers: new private functions
        self.helpers: Dict[Tuple[Optional[str], str], ast.AST] = {}
        self.nested: Dict[Tuple[str, str], ast.AST] = {}
        self.cur_q = ''
        self.cur_fn = None
        for q, fn, cls, _ in self.scopes:
            if q in self.known or isinstance(fn, ast.AsyncFunctionDef):
                continue
            if '.' in q and cls is None:
                # a new closure defined inside a function: callable by name from its parent only
                if self._eligible(fn):
                    self.nested[(q.rsplit('.', 1)[0], fn.name)] = fn
                continue
            # public or private alike: a function the pinned tree does not have is a helper (dunder methods and hooks are protocol)
            if (fn.name.startswith('__') and fn.name.endswith('__')) or fn.name.startswith('_yatiml'):
                continue
            if cls is not None and any(isinstance(d, ast.Name) and d.id == 'property' for d in fn.decorator_list):
                continue
            if fn.name in PROTECTED.get(id(tree), ()):
                continue
            if not self._eligible(fn):
                continue
            self.helpers[(cls.name if cls is not None else None, fn.name)] = fn
        # step H: new helpers of other yatiml modules, by the name (or module alias) they are imported under
        self.imported: Dict[str, ast.AST] = {}
        self.mod_alias: Dict[str, str] = {}
        for st in ast.walk(tree):
            if isinstance(st, ast.ImportFrom):
                mod = st.module or ''
                if st.level:
                    base = modname.split('.')
                    pkg = base if modname == 'yatiml' else base[:-1]
                    pkg = pkg[:len(pkg) - (st.level - 1)] if st.level > 1 else pkg
                    mod = '.'.join(pkg + ([mod] if mod else []))
                for a in st.names:
                    if mod in EXTERNAL and a.name in EXTERNAL[mod] and mod != modname:
                        self.imported[a.asname or a.name] = EXTERNAL[mod][a.name]
                    elif (mod + '.' + a.name) in EXTERNAL:
                        self.mod_alias[a.asname or a.name] = mod + '.' + a.name
            elif isinstance(st, ast.Import):
                for a in st.names:
                    if a.name in EXTERNAL and a.asname:
                        self.mod_alias[a.asname] = a.name

    def _presimplify(self):
        """helpers are brought closer to a single `return <expr>` before the call sites are looked at: local aliases of plain
        attribute chains / total tests are substituted (normalize.N19), so that `name = k.value; return name in d and f(d[name])`
        can be inlined where an expression is required"""
        try:
            from .normalize import _Norm
            for g in list(self.helpers.values()) + list(self.nested.values()):
                _Norm._propagate_chain_aliases(g)
                n = _Norm()
                n._fold_blocks(g, g)            # N1 / N5: single-use temporaries, `v = e; return v`
                n._propagate_block_temps(g)
        except Exception:       # pragma: no cover
            pass

    @staticmethod
    def _eligible(fn) -> bool:
        a = fn.args
        if a.vararg or a.posonlyargs:
            return False
        if a.kwarg:
            # `**options` that is only passed on (`f(.., **options)`) can be bound to the call site's extra keywords
            nm = a.kwarg.arg
            uses = [n for n in ast.walk(fn) if isinstance(n, ast.Name) and n.id == nm]
            fwd = [k.value for c in ast.walk(fn) if isinstance(c, ast.Call) for k in c.keywords if k.arg is None]
            if not uses or not all(any(u is f_ for f_ in fwd) for u in uses):
                return False
        for d in fn.decorator_list:
            if not ((isinstance(d, ast.Name) and d.id in ('staticmethod', 'classmethod', 'contextmanager'))
                    or (isinstance(d, ast.Attribute) and d.attr == 'contextmanager')):
                return False
        for n in ast.walk(fn):
            if n is not fn and isinstance(n, ast.ClassDef) and n in fn.body and not n.decorator_list and not n.keywords and all(
                    isinstance(st, ast.Pass) or (isinstance(st, ast.Expr) and isinstance(st.value, ast.Constant))
                    or (isinstance(st, ast.Assign) and all(isinstance(t, ast.Name) for t in st.targets)) for st in n.body):
                continue        # a plain local class made by the helper (class factory)
            if n is not fn and isinstance(n, (ast.FunctionDef, ast.AsyncFunctionDef, ast.ClassDef, ast.Lambda)):
                return False
            if isinstance(n, (ast.Global, ast.Nonlocal, ast.Await)):
                return False
            # recursion
            if isinstance(n, ast.Call):
                f = n.func
                nm = f.id if isinstance(f, ast.Name) else f.attr if isinstance(f, ast.Attribute) else None
                if nm is not None and (nm == fn.name or (fn.name.startswith('__') and nm.endswith(fn.name)
                                                         and nm[:len(nm) - len(fn.name)].startswith('_')
                                                         and '__' not in nm[1:len(nm) - len(fn.name)])):
                    return False
        return True

    # ---- resolving a call to a helper ---------------------------------------------------------------------------
    def _callee(self, call: ast.Call, caller_cls: Optional[str], caller_self: Optional[str]):
        f = call.func
        if isinstance(f, ast.Name) and (self.cur_q, f.id) in self.nested:
            return self.nested[(self.cur_q, f.id)], None
        if isinstance(f, ast.Name) and (None, f.id) in self.helpers:
            return self.helpers[(None, f.id)], None
        if isinstance(f, ast.Name) and f.id in self.imported:
            return self.imported[f.id], None
        if isinstance(f, ast.Attribute) and isinstance(f.value, ast.Name) and f.value.id in self.mod_alias \
                and f.attr in EXTERNAL.get(self.mod_alias[f.value.id], {}):
            return EXTERNAL[self.mod_alias[f.value.id]][f.attr], None
        if isinstance(f, ast.Attribute) and isinstance(f.value, ast.Name) and caller_cls is not None:
            for nm in (f.attr,):
                base = nm
                if base.startswith('_%s__' % caller_cls.lstrip('_')):
                    base = base[len('_%s' % caller_cls.lstrip('_')):]
                if (caller_cls, base) in self.helpers and (f.value.id in (caller_self, caller_cls) or (
                        base.startswith('__') and not base.endswith('__'))):
                    # a name-mangled private method can only be this class's own, whatever the receiver is called
                    return self.helpers[(caller_cls, base)], f.value
        return None, None

    def _bind(self, g, call: ast.Call, recv) -> Tuple[List[ast.stmt], Dict[str, ast.AST], Dict[str, str]]:
        self.counter += 1
        suf = '__i%d' % self.counter
        params = [x.arg for x in g.args.args] + [x.arg for x in g.args.kwonlyargs]
        static = any(isinstance(d, ast.Name) and d.id == 'staticmethod' for d in g.decorator_list)
        pos = list(g.args.args)
        args: Dict[str, ast.AST] = {}
        if recv is not None and not static and pos:
            args[pos[0].arg] = recv
            pos = pos[1:]
        if any(isinstance(a, ast.Starred) for a in call.args) or any(k.arg is None for k in call.keywords):
            raise NotInlinable('star arguments')
        if len(call.args) > len(pos):
            raise NotInlinable('too many arguments')
        for p, a in zip(pos, call.args):
            args[p.arg] = a
        extra_kw = []
        for k in call.keywords:
            if k.arg not in params:
                if g.args.kwarg is None:
                    raise NotInlinable('unknown keyword')
                if not _simple_arg(k.value) and not (isinstance(k.value, ast.UnaryOp) and _simple_arg(k.value.operand)):
                    raise NotInlinable('keyword value passed through **kwargs is not a plain operand')
                extra_kw.append(k)
                continue
            args[k.arg] = k.value
        self._extra_kw = (g.args.kwarg.arg, extra_kw) if g.args.kwarg is not None else None
        defaults = g.args.defaults
        for p, d in zip(g.args.args[len(g.args.args) - len(defaults):], defaults):
            args.setdefault(p.arg, d)
        for p, d in zip(g.args.kwonlyargs, g.args.kw_defaults):
            if d is not None:
                args.setdefault(p.arg, d)
        if set(params) - set(args):
            raise NotInlinable('missing argument')
        in_class = {id(x) for c_ in ast.walk(g) if isinstance(c_, ast.ClassDef) for x in ast.walk(c_)}
        stored = {n.id for n in ast.walk(g) if isinstance(n, ast.Name) and isinstance(n.ctx, (ast.Store, ast.Del)) and id(n) not in in_class}
        stored |= {n.name for n in ast.walk(g) if isinstance(n, ast.ExceptHandler) and n.name}
        pre: List[ast.stmt] = []
        mapping: Dict[str, ast.AST] = {}
        rename: Dict[str, str] = {}
        for p in params:
            a = args[p]
            if _simple_arg(a) and p not in stored:
                mapping[p] = a
            elif isinstance(a, ast.Name) and p in stored and (self._dead_after(a.id, call) or self._overwritten_by_result(a.id, call)):
                # the helper re-binds its parameter; the caller's variable is not read again after the call, so the helper may
                # just as well work on that variable (this is what the code looked like before the helper was extracted)
                rename[p] = a.id
            else:
                rename[p] = p + suf
                pre.append(ast.copy_location(ast.Assign([ast.Name(p + suf, ast.Store())], copy.deepcopy(a), lineno=call.lineno), call))
        for v in stored:
            if v not in rename and v not in params:
                rename[v] = v + suf
        return pre, mapping, rename

    def _overwritten_by_result(self, name: str, call: ast.Call) -> bool:
        """`name = h(.., name, ..)` outside any try block: the caller's variable is replaced by the result anyway, so the helper may
        work on it directly"""
        st = getattr(self, 'cur_stmt', None)
        if not (isinstance(st, ast.Assign) and st.value is call and len(st.targets) == 1 and isinstance(st.targets[0], ast.Name)
                and st.targets[0].id == name):
            return False
        fn = self.cur_fn
        for n in ast.walk(fn) if fn is not None else []:
            if isinstance(n, ast.Try) and any(x is st for b in (n.body, n.orelse) for y in b for x in ast.walk(y)):
                return False
        return True

    def _dead_after(self, name: str, call: ast.Call) -> bool:
        fn = self.cur_fn
        if fn is None:
            return False
        line = getattr(call, 'end_lineno', None) or getattr(call, 'lineno', 0)
        in_loop = False
        for n in ast.walk(fn):
            if isinstance(n, (ast.For, ast.While)) and any(x is call for x in ast.walk(n)):
                in_loop = True
        if in_loop:
            return False
        for n in ast.walk(fn):
            if isinstance(n, ast.Name) and n.id == name and isinstance(n.ctx, ast.Load) and getattr(n, 'lineno', 0) > line:
                return False
        return True

    def _body(self, g) -> List[ast.stmt]:
        return [st for st in g.body if not (isinstance(st, ast.Expr) and isinstance(st.value, ast.Constant) and isinstance(st.value.value, str))]

    def _instantiate(self, g, call, recv) -> Tuple[List[ast.stmt], List[ast.stmt]]:
        pre, mapping, rename = self._bind(g, call, recv)
        body = [_Rename(mapping, rename).visit(copy.deepcopy(st)) for st in self._body(g)]
        ek = getattr(self, '_extra_kw', None)
        if ek is not None:
            nm, kws = ek
            for st in body:
                for c in ast.walk(st):
                    if isinstance(c, ast.Call):
                        new_kw = []
                        for k in c.keywords:
                            if k.arg is None and isinstance(k.value, ast.Name) and k.value.id in (nm, rename.get(nm, nm)):
                                new_kw += [ast.keyword(x.arg, copy.deepcopy(x.value)) for x in kws]
                            else:
                                new_kw.append(k)
                        c.keywords = new_kw
            self._extra_kw = None
        return pre, body

    # ---- statement-level inlining -----------------------------------------------------------------------------------
    def _inline_stmt(self, st: ast.stmt, caller_cls, caller_self) -> Optional[List[ast.stmt]]:
        call = None
        kind = None
        if isinstance(st, ast.Return) and isinstance(st.value, ast.Call):
            call, kind = st.value, 'return'
        elif isinstance(st, ast.Expr) and isinstance(st.value, ast.Call):
            call, kind = st.value, 'expr'
        elif isinstance(st, ast.Assign) and isinstance(st.value, ast.Call) and len(st.targets) == 1:
            call, kind = st.value, 'assign'
        elif isinstance(st, ast.AnnAssign) and isinstance(st.value, ast.Call) and st.simple:
            call, kind = st.value, 'annassign'
        elif isinstance(st, ast.Raise) and isinstance(st.exc, ast.Call):
            call, kind = st.exc, 'raise'
        self.cur_stmt = st
        if call is None and isinstance(st, ast.If):
            return self._inline_guard(st, caller_cls, caller_self)
        if call is None:
            return None
        g, recv = self._callee(call, caller_cls, caller_self)
        if g is None or any(isinstance(n, (ast.Yield, ast.YieldFrom)) for n in ast.walk(g)):
            return None
        try:
            pre, body = self._instantiate(g, call, recv)
            if kind == 'return':
                out = pre + body
                if not out or not isinstance(out[-1], (ast.Return, ast.Raise)):
                    out.append(ast.copy_location(ast.Return(ast.Constant(None)), st))
                return out
            if kind == 'expr':
                new, _ = _eliminate_returns(body, lambda v, s: ([ast.copy_location(ast.Expr(v), s)] if v is not None and not isinstance(
                    v, (ast.Constant, ast.Name)) else []))
                return pre + (new or [ast.copy_location(ast.Pass(), st)])
            if kind == 'raise':
                # `raise helper(..)` where the helper builds the exception: every `return E` of the helper becomes `raise E`
                if not body or not isinstance(body[-1], (ast.Return, ast.Raise)):
                    raise NotInlinable('helper may fall off its end')
                out = pre + body
                for holder in ast.walk(ast.Module(out, [])):
                    for fld in ('body', 'orelse', 'finalbody'):
                        blk = getattr(holder, fld, None)
                        if isinstance(blk, list):
                            for k_, x in enumerate(blk):
                                if isinstance(x, ast.Return):
                                    if x.value is None:
                                        raise NotInlinable('helper returns nothing on some path')
                                    blk[k_] = ast.copy_location(ast.Raise(x.value, copy.deepcopy(st.cause) if st.cause is not None else None), x)
                    for h in getattr(holder, 'handlers', []) or []:
                        for k_, x in enumerate(h.body):
                            if isinstance(x, ast.Return):
                                raise NotInlinable('return inside a handler')
                return out
            target = st.targets[0] if kind == 'assign' else st.target

            def assign(v, s):
                return [ast.copy_location(ast.Assign([copy.deepcopy(target)], v if v is not None else ast.Constant(None), lineno=s.lineno), s)]
            if not body or not isinstance(body[-1], (ast.Return, ast.Raise)):
                # falling off the end of the helper yields None
                body = body + [ast.copy_location(ast.Return(ast.Constant(None)), st)]
            new, term = _eliminate_returns(body, assign)
            return pre + new
        except NotInlinable:
            return None

    def _first_evaluated_call(self, e: ast.AST):
        """the first call that evaluating `e` performs, if everything evaluated before it is a plain name / constant / attribute
        load; (call, 'ok') or (None, reason)"""
        def walk(n):
            # returns ('call', node) | ('pure', None) | ('stop', None)
            if isinstance(n, (ast.Name, ast.Constant)):
                return 'pure', None
            if isinstance(n, ast.Attribute):
                return walk(n.value)
            if isinstance(n, ast.Call):
                r = walk(n.func) if not isinstance(n.func, ast.Attribute) else walk(n.func.value)
                if r[0] != 'pure':
                    return r
                for a in list(n.args) + [k.value for k in n.keywords]:
                    if isinstance(a, ast.Starred):
                        a = a.value
                    r = walk(a)
                    if r[0] != 'pure':
                        return r
                return 'call', n
            if isinstance(n, (ast.Tuple, ast.List, ast.Set)):
                for x in n.elts:
                    r = walk(x)
                    if r[0] != 'pure':
                        return r
                return 'pure', None
            if isinstance(n, ast.BinOp):
                r = walk(n.left)
                return r if r[0] != 'pure' else walk(n.right)
            if isinstance(n, ast.UnaryOp):
                return walk(n.operand)
            if isinstance(n, ast.Compare):
                r = walk(n.left)
                if r[0] != 'pure':
                    return r
                return walk(n.comparators[0]) if len(n.comparators) == 1 else ('stop', None)
            if isinstance(n, ast.Subscript):
                r = walk(n.value)
                return r if r[0] != 'pure' else walk(n.slice)
            if isinstance(n, (ast.BoolOp,)):
                return walk(n.values[0]) if walk(n.values[0])[0] == 'call' else ('stop', None)
            if isinstance(n, ast.IfExp):
                return walk(n.test) if walk(n.test)[0] == 'call' else ('stop', None)
            return 'stop', None
        return walk(e)

    def _hoist(self, st: ast.stmt, caller_cls, caller_self) -> Optional[List[ast.stmt]]:
        """`x = f(h(a))` with h a multi-statement helper evaluated first -> `t = h(a); x = f(t)` (then h is inlined as a statement)"""
        if isinstance(st, (ast.Assign, ast.AnnAssign, ast.Return, ast.Expr)):
            head = st.value
        elif isinstance(st, ast.If):
            head = st.test
        elif isinstance(st, ast.Raise) and st.exc is not None:
            head = st.exc           # `raise E(h(a)) from e`: the exception is evaluated before the cause
        else:
            return None
        if head is None or (isinstance(head, ast.Call) and not isinstance(st, ast.If) and self._callee(head, caller_cls, caller_self)[0] is not None):
            return None         # the call is the statement's whole value: the statement forms take it
        cur = head
        # descend: the first evaluated call may be an outer non-helper call whose argument is the helper call
        for _ in range(6):
            kind, c = self._first_evaluated_call(cur)
            if kind != 'call':
                return None
            g, _r = self._callee(c, caller_cls, caller_self)
            if g is not None:
                break
            return None
        body = [x for x in g.body if not _is_doc_or_log(x)]
        if (len(body) == 1 and isinstance(body[0], ast.Return)) or any(isinstance(n, (ast.Yield, ast.YieldFrom)) for n in ast.walk(g)):
            return None
        if isinstance(st, ast.If) and not st.orelse and st.body and isinstance(st.body[-1], (ast.Return, ast.Raise)) and (
                c is head or (isinstance(head, ast.UnaryOp) and head.operand is c)):
            return None         # the guard form takes it
        self.counter += 1
        tmp = '%s__h%d' % (g.name.lstrip('_'), self.counter)
        from .normalize import _replace
        new_st = st
        _replace(new_st, c, ast.copy_location(ast.Name(tmp, ast.Load()), c))
        return [ast.copy_location(ast.Assign([ast.Name(tmp, ast.Store())], c, lineno=st.lineno), st), new_st]

    def _decomprehend(self, st: ast.stmt, caller_cls, caller_self) -> Optional[List[ast.stmt]]:
        """`v = [h(..) for t in xs if c]` with h a multi-statement helper -> `v = []; for t in xs: if c: tmp = h(..); v.append(tmp)`
        so that the call becomes a statement the inliner can expand (N6 folds the loop back when it stays simple)"""
        if not (isinstance(st, ast.Assign) and len(st.targets) == 1 and isinstance(st.targets[0], ast.Name)
                and isinstance(st.value, ast.ListComp) and len(st.value.generators) == 1
                and not st.value.generators[0].is_async and isinstance(st.value.elt, ast.Call)):
            return None
        g, _ = self._callee(st.value.elt, caller_cls, caller_self)
        if g is None or any(isinstance(n, (ast.Yield, ast.YieldFrom)) for n in ast.walk(g)):
            return None
        body = [x for x in g.body if not _is_doc_or_log(x)]
        if len(body) == 1 and isinstance(body[0], ast.Return):
            return None             # an expression helper: handled in place
        gen = st.value.generators[0]
        v = st.targets[0].id
        if any(isinstance(n, ast.Name) and n.id == v for x in [gen.iter, gen.target, st.value.elt] + gen.ifs for n in ast.walk(x)):
            return None
        self.counter += 1
        tmp = '%s__e%d' % (v, self.counter)
        inner: List[ast.stmt] = [
            ast.copy_location(ast.Assign([ast.Name(tmp, ast.Store())], st.value.elt, lineno=st.lineno), st),
            ast.copy_location(ast.Expr(ast.Call(ast.Attribute(ast.Name(v, ast.Load()), 'append', ast.Load()),
                                                [ast.Name(tmp, ast.Load())], [])), st)]
        for c in reversed(gen.ifs):
            inner = [ast.copy_location(ast.If(c, inner, []), st)]
        return [ast.copy_location(ast.Assign([ast.Name(v, ast.Store())], ast.List([], ast.Load()), lineno=st.lineno), st),
                ast.copy_location(ast.For(gen.target, gen.iter, inner, [], lineno=st.lineno), st)]

    def _inline_guard(self, st: ast.If, caller_cls, caller_self) -> Optional[List[ast.stmt]]:
        """`if [not] h(args): S` with S ending in return/raise, h a checking helper whose returns are boolean constants: every
        return that makes the test true becomes S, the one that makes it false must be h's last statement and is dropped.
        (This is how a validation loop with early exits looks after `extract method`.)"""
        if st.orelse or not st.body or not isinstance(st.body[-1], (ast.Return, ast.Raise)):
            return None
        test, neg = st.test, False
        if isinstance(test, ast.UnaryOp) and isinstance(test.op, ast.Not):
            test, neg = test.operand, True
        if not isinstance(test, ast.Call):
            return None
        g, recv = self._callee(test, caller_cls, caller_self)
        if g is None or any(isinstance(n, (ast.Yield, ast.YieldFrom)) for n in ast.walk(g)):
            return None
        if any(isinstance(n, (ast.Break, ast.Continue)) for b in st.body for n in ast.walk(b)):
            return None
        try:
            pre, body = self._instantiate(g, test, recv)
        except NotInlinable:
            return None
        if not body or not isinstance(body[-1], ast.Return):
            return None
        rets = [n for b in body for n in ast.walk(b) if isinstance(n, ast.Return)]
        for r in rets:
            if not (isinstance(r.value, ast.Constant) and isinstance(r.value.value, bool)):
                return None
            fires = (r.value.value != neg)
            if not fires and r is not body[-1]:
                return None
        if (body[-1].value.value != neg):
            return None         # the last return takes S as well: nothing would be left to fall through

        def repl(stmts):
            out = []
            for s_ in stmts:
                if isinstance(s_, ast.Return):
                    if s_ is body[-1]:
                        continue
                    out += copy.deepcopy(st.body)
                    continue
                for fld in ('body', 'orelse', 'finalbody'):
                    v = getattr(s_, fld, None)
                    if isinstance(v, list) and v and isinstance(v[0], ast.stmt):
                        setattr(s_, fld, repl(v) or [ast.Pass()])
                for h in getattr(s_, 'handlers', []) or []:
                    h.body = repl(h.body) or [ast.Pass()]
                out.append(s_)
            return out
        return pre + (repl(body) or [ast.copy_location(ast.Pass(), st)])

    def _inline_with(self, st: ast.With, caller_cls, caller_self) -> Optional[List[ast.stmt]]:
        """`with h(args) as v: BODY`, h a @contextmanager generator: BODY takes the place of each `yield e` (v bound to e); what
        the helper does around the yield (opening a file in its own `with`, try/finally) stays around BODY"""
        if len(st.items) != 1 or not isinstance(st.items[0].context_expr, ast.Call):
            return None
        it = st.items[0]
        g, recv = self._callee(it.context_expr, caller_cls, caller_self)
        if g is not None and not g.decorator_list and not any(isinstance(n, (ast.Yield, ast.YieldFrom)) for n in ast.walk(g)) \
                and (it.optional_vars is None or isinstance(it.optional_vars, ast.Name)):
            # an ordinary helper that *returns* the context manager: `with` moves to each of its returns
            #   with h(x) as f: BODY   +   def h(x): if c: return A; return B      ->      if c: with A as f: BODY  else: with B as f: BODY
            # and `with nullcontext(v) as f: BODY` is BODY with f = v
            try:
                pre, body = self._instantiate(g, it.context_expr, recv)
            except NotInlinable:
                return None
            if not body or not isinstance(body[-1], (ast.Return, ast.Raise)):
                return None
            okh = [True]

            def as_with(ret):
                e = ret.value
                if e is None:
                    okh[0] = False
                    return [ret]
                if isinstance(e, ast.Call) and (ast.unparse(e.func) in ('nullcontext', 'contextlib.nullcontext')) and len(e.args) <= 1 and not e.keywords:
                    inner = e.args[0] if e.args else ast.Constant(None)
                    if it.optional_vars is None:
                        return copy.deepcopy(st.body)
                    if _simple_arg(inner):
                        return [_Rename({it.optional_vars.id: inner}, {}).visit(copy.deepcopy(b)) for b in st.body]
                    return [ast.copy_location(ast.Assign([copy.deepcopy(it.optional_vars)], inner, lineno=ret.lineno), ret)] + copy.deepcopy(st.body)
                return [ast.copy_location(ast.With([ast.withitem(e, copy.deepcopy(it.optional_vars))], copy.deepcopy(st.body), lineno=ret.lineno), ret)]

            def rewrite(stmts, tail):
                """returns are replaced; a non-returning path must not exist (checked above for the last statement)"""
                out = []
                for k_, s_ in enumerate(stmts):
                    if isinstance(s_, ast.Return):
                        out += as_with(s_)
                        return out, True
                    if isinstance(s_, ast.If):
                        b1, t1 = rewrite(s_.body, False)
                        b2, t2 = rewrite(s_.orelse, False)
                        rest = stmts[k_ + 1:]
                        if t1 and not t2 and not s_.orelse and rest:
                            # `if c: return A` + rest  ->  if c: <A form> else: <rest form>
                            r2, t3 = rewrite(rest, tail)
                            s_.body, s_.orelse = b1, r2
                            out.append(s_)
                            return out, t3
                        s_.body, s_.orelse = b1, b2
                        out.append(s_)
                        if t1 and t2:
                            return out, True
                        continue
                    if any(isinstance(n, ast.Return) for n in ast.walk(s_)):
                        okh[0] = False
                    out.append(s_)
                return out, False
            new, term = rewrite(body, True)
            if not okh[0] or not term:
                return None
            return pre + new
        if g is None or not any((isinstance(d, ast.Name) and d.id == 'contextmanager') or (isinstance(d, ast.Attribute) and d.attr == 'contextmanager')
                                for d in g.decorator_list):
            return None
        if any(isinstance(n, (ast.YieldFrom, ast.Return)) for n in ast.walk(g)) or not any(isinstance(n, ast.Yield) for n in ast.walk(g)):
            return None
        if it.optional_vars is not None and not isinstance(it.optional_vars, ast.Name):
            return None
        try:
            pre, body = self._instantiate(g, it.context_expr, recv)
        except NotInlinable:
            return None
        ok = [True]

        def repl(stmts):
            out = []
            for s_ in stmts:
                if isinstance(s_, ast.Expr) and isinstance(s_.value, ast.Yield):
                    yv = s_.value.value or ast.Constant(None)
                    if it.optional_vars is not None:
                        if _simple_arg(yv):
                            out += [_Rename({it.optional_vars.id: yv}, {}).visit(copy.deepcopy(b)) for b in st.body]
                        else:
                            out.append(ast.copy_location(ast.Assign([copy.deepcopy(it.optional_vars)], yv, lineno=s_.lineno), s_))
                            out += copy.deepcopy(st.body)
                    else:
                        out += copy.deepcopy(st.body)
                    continue
                if any(isinstance(n, ast.Yield) for n in ast.walk(s_)):
                    if isinstance(s_, (ast.If, ast.With, ast.Try)):
                        for fld in ('body', 'orelse', 'finalbody'):
                            v = getattr(s_, fld, None)
                            if isinstance(v, list):
                                setattr(s_, fld, repl(v))
                        for h in getattr(s_, 'handlers', []) or []:
                            h.body = repl(h.body)
                    else:
                        ok[0] = False       # a yield inside a loop or an expression: not a plain context manager
                out.append(s_)
            return out
        new = repl(body)
        if not ok[0]:
            return None
        return pre + new

    def _inline_for(self, st: ast.For, caller_cls, caller_self) -> Optional[List[ast.stmt]]:
        if not isinstance(st.iter, ast.Call) or st.orelse:
            return None
        g, recv = self._callee(st.iter, caller_cls, caller_self)
        if g is not None and not any(isinstance(n, (ast.Yield, ast.YieldFrom)) for n in ast.walk(g)):
            # an ordinary helper that returns the collection to loop over: bind its result first, then loop over that
            self.counter += 1
            tmp = '%s__h%d' % (g.name.lstrip('_'), self.counter)
            bind = ast.copy_location(ast.Assign([ast.Name(tmp, ast.Store())], st.iter, lineno=st.lineno), st)
            rep = self._inline_stmt(bind, caller_cls, caller_self)
            if rep is None:
                return None
            st.iter = ast.copy_location(ast.Name(tmp, ast.Load()), st.iter)
            return rep + [st]
        if g is None or not any(isinstance(n, (ast.Yield, ast.YieldFrom)) for n in ast.walk(g)):
            return None
        if any(isinstance(n, ast.Return) for n in ast.walk(g)):
            return None
        if any(isinstance(n, ast.YieldFrom) and not (isinstance(getattr(n, '_stmt_ok', None), bool)) for n in ast.walk(g)):
            # `yield from XS` is fine as a statement of its own (its value is not used)
            for s_ in ast.walk(g):
                if isinstance(s_, ast.Expr) and isinstance(s_.value, ast.YieldFrom):
                    s_.value._stmt_ok = True
            if any(isinstance(n, ast.YieldFrom) and not getattr(n, '_stmt_ok', False) for n in ast.walk(g)):
                return None
        if any(isinstance(n, (ast.Break, ast.Continue)) for b in st.body for n in ast.walk(b)):
            return None             # the loop body would end up inside the helper's own loop
        try:
            pre, body = self._instantiate(g, st.iter, recv)
        except NotInlinable:
            return None

        ok = [True]

        def repl(stmts):
            out = []
            for s in stmts:
                if isinstance(s, ast.Expr) and isinstance(s.value, ast.YieldFrom):
                    # `yield from XS` under `for t in helper(): BODY` is `for t in XS: BODY`
                    out.append(ast.copy_location(ast.For(copy.deepcopy(st.target), s.value.value, copy.deepcopy(st.body), [],
                                                         lineno=s.lineno), s))
                    continue
                if isinstance(s, ast.Expr) and isinstance(s.value, ast.Yield):
                    yv = s.value.value or ast.Constant(None)
                    rebinds = isinstance(st.target, ast.Name) and any(
                        isinstance(n, ast.Name) and n.id == st.target.id and not isinstance(n.ctx, ast.Load)
                        for b in st.body for n in ast.walk(b))
                    if isinstance(st.target, ast.Name) and _simple_arg(yv) and not rebinds:
                        # the loop variable simply *is* the yielded name
                        out += [_Rename({st.target.id: yv}, {}).visit(copy.deepcopy(b)) for b in st.body]
                    else:
                        out.append(ast.copy_location(ast.Assign([copy.deepcopy(st.target)], yv, lineno=s.lineno), s))
                        out += copy.deepcopy(st.body)
                    continue
                if any(isinstance(n, (ast.Yield, ast.YieldFrom)) for n in ast.walk(s)):
                    if isinstance(s, (ast.For, ast.While, ast.If, ast.With, ast.Try)):
                        for fld in ('body', 'orelse', 'finalbody'):
                            v = getattr(s, fld, None)
                            if isinstance(v, list):
                                setattr(s, fld, repl(v))
                        for h in getattr(s, 'handlers', []) or []:
                            h.body = repl(h.body)
                    else:
                        ok[0] = False
                out.append(s)
            return out
        new = repl(body)
        if not ok[0]:
            return None
        return pre + new

    # ---- expression-level inlining ------------------------------------------------------------------------------------
    def _inline_exprs(self, node: ast.AST, caller_cls, caller_self):
        inl = self

        class T(ast.NodeTransformer):
            def visit_FunctionDef(self, n):
                return n
            visit_AsyncFunctionDef = visit_FunctionDef
            visit_Lambda = visit_FunctionDef
            visit_ClassDef = visit_FunctionDef

            def visit_Call(self, c: ast.Call):
                self.generic_visit(c)
                g, recv = inl._callee(c, caller_cls, caller_self)
                if g is None:
                    return c
                body = [st for st in g.body if not _is_doc_or_log(st)]
                if len(body) == 1 and isinstance(body[0], ast.For) and not body[0].orelse and len(body[0].body) == 1:
                    # a generator helper `for t in P: [if C:] yield E` is the generator expression `(E for t in P [if C])`
                    lo = body[0]
                    inner = lo.body[0]
                    cond = None
                    if isinstance(inner, ast.If) and not inner.orelse and len(inner.body) == 1:
                        cond, inner = inner.test, inner.body[0]
                    if isinstance(inner, ast.Expr) and isinstance(inner.value, ast.Yield) and inner.value.value is not None \
                            and sum(1 for n in ast.walk(g) if isinstance(n, (ast.Yield, ast.YieldFrom))) == 1:
                        ge = ast.GeneratorExp(inner.value.value, [ast.comprehension(lo.target, lo.iter, [cond] if cond is not None else [], 0)])
                        body = [ast.Return(ge)]
                if len(body) != 1 or not isinstance(body[0], ast.Return) or body[0].value is None:
                    return c
                try:
                    pre, mapping, rename = inl._bind(g, c, recv)
                except NotInlinable:
                    return c
                if pre:
                    # a complex argument would have to be evaluated once: substitute it anyway when the parameter is used once
                    for a in pre:
                        p = a.targets[0].id
                        orig = [k for k, v in rename.items() if v == p]
                        if not orig:
                            return c
                        uses = sum(1 for n in ast.walk(body[0].value) if isinstance(n, ast.Name) and n.id == orig[0])
                        if uses > 1:
                            return c
                        mapping[[k for k, v in rename.items() if v == p][0]] = a.value
                        rename = {k: v for k, v in rename.items() if v != p}
                return ast.copy_location(_Rename(mapping, rename).visit(copy.deepcopy(body[0].value)), c)
        return T().visit(node)

    # ---- driver ---------------------------------------------------------------------------------------------------------
    # ---- first-match helpers (round 11) ---------------------------------------------------------------------------------
    _STR_METHODS = ('replace', 'lower', 'upper', 'strip', 'lstrip', 'rstrip', 'format', 'title', 'capitalize', 'casefold')

    def _first_match_helper(self, g) -> Optional[Tuple[ast.For, ast.If]]:
        """`def h(..): for T in (E1, .., En): if C: return T` + `return None` with every Ei a str (a parameter annotated str, a string
        literal, or a str method of one): the helper answers the first Ei for which C holds, or None - and None is none of the Ei."""
        body = self._body(g)
        if g.decorator_list and not all(isinstance(d, ast.Name) and d.id == 'staticmethod' for d in g.decorator_list):
            return None
        if len(body) == 2 and isinstance(body[1], ast.Return) and (body[1].value is None or (
                isinstance(body[1].value, ast.Constant) and body[1].value.value is None)):
            body = body[:1]
        if len(body) != 1 or not isinstance(body[0], ast.For) or body[0].orelse:
            return None
        lo = body[0]
        if not (isinstance(lo.target, ast.Name) and isinstance(lo.iter, (ast.Tuple, ast.List)) and lo.iter.elts and len(lo.body) == 1
                and isinstance(lo.body[0], ast.If) and not lo.body[0].orelse and len(lo.body[0].body) == 1
                and isinstance(lo.body[0].body[0], ast.Return) and isinstance(lo.body[0].body[0].value, ast.Name)
                and lo.body[0].body[0].value.id == lo.target.id):
            return None
        strs = {a.arg for a in g.args.args if isinstance(a.annotation, ast.Name) and a.annotation.id == 'str'}

        def is_str(e) -> bool:
            if isinstance(e, ast.Constant):
                return isinstance(e.value, str)
            if isinstance(e, ast.Name):
                return e.id in strs
            return isinstance(e, ast.Call) and isinstance(e.func, ast.Attribute) and e.func.attr in self._STR_METHODS and is_str(e.func.value)
        if not all(is_str(e) for e in lo.iter.elts):
            return None
        # the test must be without effects (it is asked for every element now, not only up to the first match)
        for c in ast.walk(lo.body[0].test):
            if isinstance(c, ast.Call) and not (isinstance(c.func, ast.Attribute) and c.func.attr in (
                    'has_attribute', 'is_scalar', 'is_mapping', 'is_sequence', 'startswith', 'endswith') or isinstance(
                    c.func, ast.Name) and c.func.id in ('isinstance', 'hasattr', 'len', 'issubclass')):
                return None
        if any(isinstance(n, (ast.Yield, ast.YieldFrom, ast.Await, ast.NamedExpr)) for n in ast.walk(g)):
            return None
        return lo, lo.body[0]

    def _inline_first_match(self, st: ast.stmt, nxt: Optional[ast.stmt], caller_cls, caller_self) -> Optional[List[ast.stmt]]:
        """`x = h(args)` followed by `if x is None: <B, leaving>` with h a first-match helper ->
        `_fmK = [T for T in XS if C]; if not _fmK: <B>; x = _fmK[0]` (the input form of N86, which turns it into for/break/else)."""
        if not (isinstance(st, ast.Assign) and len(st.targets) == 1 and isinstance(st.targets[0], ast.Name) and isinstance(st.value, ast.Call)):
            return None
        x = st.targets[0].id
        if not (isinstance(nxt, ast.If) and not nxt.orelse and isinstance(nxt.test, ast.Compare) and len(nxt.test.ops) == 1
                and isinstance(nxt.test.ops[0], ast.Is) and isinstance(nxt.test.left, ast.Name) and nxt.test.left.id == x
                and isinstance(nxt.test.comparators[0], ast.Constant) and nxt.test.comparators[0].value is None
                and nxt.body and isinstance(nxt.body[-1], (ast.Continue, ast.Return, ast.Raise))):
            return None
        self.cur_stmt = st
        g, recv = self._callee(st.value, caller_cls, caller_self)
        if g is None:
            return None
        fm = self._first_match_helper(g)
        if fm is None:
            return None
        try:
            pre, mapping, rename = self._bind(g, st.value, recv)
        except NotInlinable:
            return None
        lo, test_if = fm
        ren = _Rename(mapping, rename)
        tgt = ren.visit(copy.deepcopy(lo.target))
        it = ren.visit(copy.deepcopy(lo.iter))
        cond = ren.visit(copy.deepcopy(test_if.test))
        L = '_fm%d' % self.counter
        s1 = ast.Assign([ast.Name(L, ast.Store())], ast.ListComp(ast.Name(tgt.id, ast.Load()), [ast.comprehension(tgt, it, [cond], 0)]))
        s2 = ast.If(ast.UnaryOp(ast.Not(), ast.Name(L, ast.Load())), list(nxt.body), [])
        s3 = ast.Assign([ast.Name(x, ast.Store())], ast.Subscript(ast.Name(L, ast.Load()), ast.Constant(0), ast.Load()))
        for n_, src in ((s1, st), (s2, nxt), (s3, st)):
            ast.copy_location(n_, src)
            ast.fix_missing_locations(n_)
        self.log.append('%s: first-match helper %s written out at its call (step I, first match)' % (self.cur_q or '<module>', g.name))
        return pre + [s1, s2, s3]

    def _process_block(self, stmts: List[ast.stmt], caller_cls, caller_self) -> List[ast.stmt]:
        out: List[ast.stmt] = []
        skip = False
        for idx, st in enumerate(stmts):
            if skip:
                skip = False
                continue
            fmrep = self._inline_first_match(st, stmts[idx + 1] if idx + 1 < len(stmts) else None, caller_cls, caller_self)
            if fmrep is not None:
                self.changed = True
                out += fmrep
                skip = True
                continue
            if isinstance(st, (ast.FunctionDef, ast.AsyncFunctionDef, ast.ClassDef)):
                out.append(st)
                continue
            rep = self._decomprehend(st, caller_cls, caller_self)
            if rep is None:
                rep = self._inline_stmt(st, caller_cls, caller_self)
            if rep is None:
                rep = self._hoist(st, caller_cls, caller_self)
            if rep is None and isinstance(st, ast.For):
                rep = self._inline_for(st, caller_cls, caller_self)
            if rep is None and isinstance(st, ast.With):
                rep = self._inline_with(st, caller_cls, caller_self)
            if rep is not None:
                self.changed = True
                out += rep
                continue
            # nested blocks
            for fld in ('body', 'orelse', 'finalbody'):
                v = getattr(st, fld, None)
                if isinstance(v, list) and v and isinstance(v[0], ast.stmt):
                    setattr(st, fld, self._process_block(v, caller_cls, caller_self))
            for h in getattr(st, 'handlers', []) or []:
                h.body = self._process_block(h.body, caller_cls, caller_self)
            # expression helpers inside the statement's own expressions
            for name, value in list(ast.iter_fields(st)):
                if isinstance(value, ast.expr):
                    new = self._inline_exprs(value, caller_cls, caller_self)
                    if ast.dump(new) != ast.dump(value):
                        self.changed = True
                    setattr(st, name, new)
                elif isinstance(value, list) and value and isinstance(value[0], ast.expr):
                    newl = [self._inline_exprs(x, caller_cls, caller_self) for x in value]
                    if any(ast.dump(a) != ast.dump(b) for a, b in zip(newl, value)):
                        self.changed = True
                    setattr(st, name, newl)
            if isinstance(st, ast.With):
                for it in st.items:
                    it.context_expr = self._inline_exprs(it.context_expr, caller_cls, caller_self)
            out.append(st)
        return out

    def run(self) -> List[str]:
        if not self.helpers and not self.nested and not self.imported and not self.mod_alias:
            return self.log
        self._presimplify()
        for _ in range(4):
            self.changed = False
            for q, fn, cls, _c in _scopes(self.tree):
                caller_self = fn.args.args[0].arg if cls is not None and fn.args.args and not any(
                    isinstance(d, ast.Name) and d.id == 'staticmethod' for d in fn.decorator_list) else None
                self.cur_q = q
                self.cur_fn = fn
                fn.body = self._process_block(fn.body, cls.name if cls is not None else None, caller_self)
            # module level: registration statements (`add_path_representers(Dumper)`) call helpers too
            self.cur_q = ''
            self.cur_fn = self.tree
            try:
                self.tree.body = self._process_block(self.tree.body, None, None)
            except NotInlinable:
                pass
            if not self.changed:
                break
        # helpers that are no longer referenced anywhere are removed
        for (cname, name), g in list(self.helpers.items()):
            names = set(_mangled(cname, name))
            refs = 0
            for n in ast.walk(self.tree):
                if n is g:
                    continue
                if isinstance(n, ast.Name) and n.id in names:
                    refs += 1
                elif isinstance(n, ast.Attribute) and n.attr in names:
                    refs += 1
            inside = sum(1 for n in ast.walk(g) if (isinstance(n, ast.Name) and n.id in names) or (isinstance(n, ast.Attribute) and n.attr in names))
            if refs - inside <= 0 and name.startswith('_'):
                for q, fn, cls, container in _scopes(self.tree):
                    if fn is g:
                        container.remove(g)
                        if not container:
                            container.append(ast.Pass())
                        self.log.append('%s: helper %s inlined into its callers' % (self.modname, q))
        for (pq, name), g in list(self.nested.items()):
            for q, fn, cls, container in _scopes(self.tree):
                if fn is g:
                    parent = [f2 for q2, f2, _, _ in _scopes(self.tree) if q2 == pq]
                    refs = sum(1 for p_ in parent for n in ast.walk(p_) if isinstance(n, ast.Name) and n.id == name and isinstance(n.ctx, ast.Load))
                    if refs == 0:
                        container.remove(g)
                        if not container:
                            container.append(ast.Pass())
                        self.log.append('%s: closure %s inlined into %s' % (self.modname, name, pq))
        return self.log


def _always_assigns(stmts: List[ast.stmt], target: ast.AST) -> bool:
    """does every path through stmts end with an assignment to target (or a raise)?"""
    if not stmts:
        return False
    last = stmts[-1]
    if isinstance(last, ast.Raise):
        return True
    if isinstance(last, ast.Assign) and ast.dump(last.targets[0]) == ast.dump(target):
        return True
    if isinstance(last, ast.If):
        return _always_assigns(last.body, target) and _always_assigns(last.orelse, target)
    return False


def restore_cross_module(trees: Dict[str, ast.Module]) -> Dict[str, List[str]]:
    """step X (program level, after step R in every module): a listed function that is still missing in its module is looked for
    among the *new module-level functions of the other yatiml modules* (a private method that never used `self`, moved to util.py).
    It is brought home: a copy becomes a function / method of the original module under its old name (with `self` put back in
    front when the frozen function had it), its recursive calls and the call sites in the original module are turned back into
    calls of the old name.  The copy left behind in the other module stays where it is."""
    logs: Dict[str, List[str]] = {}
    known = known_functions()
    new_fns = {}        # module -> [(name, FunctionDef)] module-level functions that the frozen tree does not have
    for mod, tree in trees.items():
        k = set(known.get(mod, {}).get('functions', []))
        new_fns[mod] = [(q, fn) for q, fn, cls, _ in _scopes(tree) if '.' not in q and q not in k]
    for mod, tree in trees.items():
        k = known.get(mod)
        if not k:
            continue
        scopes = _scopes(tree)
        have = {q for q, _, _, _ in scopes} | set(ALIASES.get(id(tree), {}))
        for q in k['functions']:
            if q in have or q.count('.') > 1:
                continue
            want = k['bodies'].get(q)
            if want is None:
                continue
            old_name = q.rsplit('.', 1)[-1]
            cls_name = q.rsplit('.', 1)[0] if '.' in q else None
            mentioned = {n.id for n in ast.walk(tree) if isinstance(n, ast.Name)} | {n.attr for n in ast.walk(tree) if isinstance(n, ast.Attribute)}
            best, best_r, second = None, 0.0, 0.0
            for m2, fns in new_fns.items():
                if m2 == mod:
                    continue
                for name, fn in fns:
                    r = _similarity(want.replace('self.<self-name>', '<self-name>'), _body_text(fn, fn.name))
                    if name in mentioned:
                        r += 0.15
                    if r > best_r:
                        best, second, best_r = (m2, name, fn), best_r, r
                    elif r > second:
                        second = r
            if best is None or best_r < 0.6 or best_r - second < 0.1:
                continue
            m2, name, fn = best
            g = copy.deepcopy(fn)
            g.name = old_name
            had_self = (k.get('params', {}).get(q) or [''])[0] in ('self', 'cls')
            target_body = tree.body
            cls_node = None
            if cls_name is not None:
                cls_node = next((c for c in tree.body if isinstance(c, ast.ClassDef) and c.name == cls_name), None)
                if cls_node is None:
                    continue
                target_body = cls_node.body
            if had_self and not (g.args.args and g.args.args[0].arg in ('self', 'cls')):
                g.args.args.insert(0, ast.arg('self', None))

            def back(call_owner_self):
                def fix(node):
                    for c in ast.walk(node):
                        if isinstance(c, ast.Call):
                            f = c.func
                            hit = (isinstance(f, ast.Name) and f.id == name) or (isinstance(f, ast.Attribute) and f.attr == name
                                                                                 and isinstance(f.value, ast.Name) and f.value.id != 'self')
                            if hit:
                                if cls_node is not None and had_self:
                                    c.func = ast.copy_location(ast.Attribute(ast.Name(call_owner_self, ast.Load()), old_name, ast.Load()), f)
                                else:
                                    c.func = ast.copy_location(ast.Name(old_name, ast.Load()), f)
                return fix
            back('self')(g)
            ok = True
            if cls_node is not None and had_self:
                for st in cls_node.body:
                    if isinstance(st, (ast.FunctionDef, ast.AsyncFunctionDef)):
                        selfn = st.args.args[0].arg if st.args.args else None
                        uses = any(isinstance(c, ast.Call) and isinstance(c.func, ast.Name) and c.func.id == name for c in ast.walk(st))
                        if uses and selfn is None:
                            ok = False
                        elif uses:
                            back(selfn)(st)
                # a call from outside the class cannot be turned back into a method call
                for st in tree.body:
                    if st is not cls_node and any(isinstance(c, ast.Call) and isinstance(c.func, ast.Name) and c.func.id == name for c in ast.walk(st)):
                        ok = False
            else:
                back(None)(tree)
            if not ok:
                continue
            target_body.append(g)
            ast.fix_missing_locations(tree)
            logs.setdefault(mod, []).append('%s: %s now lives in %s as %s (similarity %.2f) - analysed at its old place' % (mod, q, m2, name, best_r))
    return logs


def _strip_pos(n):
    from .dtable import clone
    c = clone(n)
    for x in ast.walk(c) if isinstance(c, ast.AST) else []:
        for a in ('lineno', 'col_offset', 'end_lineno', 'end_col_offset'):
            if hasattr(x, a):
                try:
                    delattr(x, a)
                except AttributeError:
                    pass
    return c


def _canon_block(stmts: List[ast.stmt]) -> str:
    """position-free, normalised text of a statement sequence (docstrings and logging dropped)"""
    from .normalize import _Norm
    fn = ast.FunctionDef('_f', ast.arguments([], [], None, [], [], None, []), [copy.deepcopy(s_) for s_ in stmts if not _is_doc_or_log(s_)] or [ast.Pass()],
                         [], None, lineno=1, col_offset=0)
    mod = ast.Module([fn], [])
    ast.fix_missing_locations(mod)
    for _ in range(2):
        mod = _Norm().visit(mod)
    ast.fix_missing_locations(mod)
    return '\n'.join(ast.unparse(x) for x in mod.body[0].body)


def restore_inlined(tree: ast.Module, modname: str) -> List[str]:
    """step O (extract-method forwards, to undo an inlining): a listed private function that is gone without a trace was perhaps
    inlined into its caller.  For every statement of the frozen callers that called it, the statement's own inlined expansion
    (frozen callee body, computed with the inliner above) is looked for in today's caller; where it is found verbatim (after
    normalisation) it is folded back into the call, and the frozen function is put back."""
    known = known_functions().get(modname)
    log: List[str] = []
    if not known or 'sources' not in known:
        return log
    scopes = _scopes(tree)
    have = {q for q, _, _, _ in scopes} | set(ALIASES.get(id(tree), {}))
    for q in known['functions']:
        if q in have or q.count('.') != 1:
            continue
        cls_name, name = q.split('.')
        if not (name.startswith('_') and not (name.startswith('__') and name.endswith('__'))):
            continue
        cls_node = next((c for c in tree.body if isinstance(c, ast.ClassDef) and c.name == cls_name), None)
        if cls_node is None:
            continue
        try:
            callee = ast.parse(known['sources'][q]).body[0]
        except (SyntaxError, KeyError):
            continue
        names = set(_mangled(cls_name, name))
        restored = False
        for cq in known['functions']:
            if not cq.startswith(cls_name + '.') or cq == q or cq.count('.') != 1:
                continue
            caller_today = next((f2 for q2, f2, _, _ in scopes if q2 == cq), None)
            if caller_today is None:
                continue
            try:
                caller_frozen = ast.parse(known['sources'][cq]).body[0]
            except (SyntaxError, KeyError):
                continue
            sites = [st for st in ast.walk(caller_frozen) if isinstance(st, (ast.Assign, ast.Expr, ast.Return, ast.AnnAssign))
                     and isinstance(getattr(st, 'value', None), ast.Call) and isinstance(st.value.func, ast.Attribute)
                     and st.value.func.attr in names]
            for site in sites:
                # expansion of the frozen call statement with the frozen callee
                synth_caller = ast.FunctionDef(caller_frozen.name, copy.deepcopy(caller_frozen.args), [copy.deepcopy(site)], [], None, lineno=1, col_offset=0)
                synth = ast.Module([ast.ClassDef(cls_name, [], [], [copy.deepcopy(callee), synth_caller], [])], [])
                ast.fix_missing_locations(synth)
                inl = _Inliner.__new__(_Inliner)
                inl.tree, inl.modname, inl.counter, inl.log = synth, modname, 0, []
                inl.known, inl.scopes = set(), _scopes(synth)
                inl.helpers = {(cls_name, name): synth.body[0].body[0]}
                inl.nested, inl.cur_q, inl.cur_fn = {}, '', synth_caller
                inl.imported, inl.mod_alias = {}, {}
                selfn = synth_caller.args.args[0].arg if synth_caller.args.args else None
                rep = inl._inline_stmt(synth_caller.body[0], cls_name, selfn)
                if not rep:
                    continue
                want = _canon_block(rep)

                def search(block):
                    for i in range(len(block)):
                        for j in range(i + 1, min(len(block), i + len(rep) + 2) + 1):
                            if _canon_block(block[i:j]) == want:
                                block[i:j] = [copy.deepcopy(site)]
                                return True
                    for st in block:
                        for fld in ('body', 'orelse', 'finalbody'):
                            v = getattr(st, fld, None)
                            if isinstance(v, list) and v and isinstance(v[0], ast.stmt) and not isinstance(st, (ast.FunctionDef, ast.ClassDef)):
                                if search(v):
                                    return True
                        for h in getattr(st, 'handlers', []) or []:
                            if search(h.body):
                                return True
                    return False
                if search(caller_today.body):
                    restored = True
        if restored:
            cls_node.body.append(copy.deepcopy(callee))
            ast.fix_missing_locations(tree)
            log.append('%s: %s was inlined into its caller - folded back into a call of the frozen function' % (modname, q))
    return log


def fold_entry_wrappers(tree: ast.Module, modname: str) -> List[str]:
    """Step W (round 11): an entry point that only starts a recursive worker with fresh accumulators -
    `def F(self, a, b): return self.W(a, b, set())` + `def W(self, a, b, done): .. self.W(x, y, done) ..`, W called from nowhere else -
    is the worker under the entry point's name with the accumulator defaulted: `def F(self, a, b, done=None): if done is None: done = set(); ..`
    (what the walk looked like before `extract method`). Callers of F pass the leading arguments only, so nothing changes for them."""
    log: List[str] = []
    for _ in range(4):
        done_one = False
        scopes = _scopes(tree)
        for q, f, cls, container in scopes:
            body = [st for st in f.body if not _is_doc_or_log(st)]
            if len(body) != 1 or not isinstance(body[0], ast.Return) or not isinstance(body[0].value, ast.Call):
                continue
            call = body[0].value
            cname = cls.name if cls is not None else None
            static = any(isinstance(d, ast.Name) and d.id in ('staticmethod', 'classmethod') for d in f.decorator_list)
            if f.decorator_list and not static:
                continue
            if call.keywords or any(isinstance(a, ast.Starred) for a in call.args):
                continue
            # the worker: a sibling def in the same container
            if isinstance(call.func, ast.Attribute) and isinstance(call.func.value, ast.Name) and cls is not None:
                recv, wname = call.func.value.id, call.func.attr
            elif isinstance(call.func, ast.Name) and cls is None:
                recv, wname = None, call.func.id
            else:
                continue
            base = wname
            if cname and base.startswith('_%s__' % cname.lstrip('_')):
                base = base[len('_%s' % cname.lstrip('_')):]
            workers = [st for st in container if isinstance(st, ast.FunctionDef) and st.name == base and st is not f]
            if len(workers) != 1:
                continue
            w = workers[0]
            if [ast.dump(d) for d in w.decorator_list] != [ast.dump(d) for d in f.decorator_list]:
                continue
            fparams = [a.arg for a in f.args.args]
            wparams = [a.arg for a in w.args.args]
            if f.args.vararg or f.args.kwarg or f.args.kwonlyargs or w.args.vararg or w.args.kwarg or w.args.kwonlyargs or w.args.defaults \
                    or f.args.defaults:
                continue
            bound = cls is not None and not any(isinstance(d, ast.Name) and d.id == 'staticmethod' for d in f.decorator_list)
            own_f = fparams[1:] if bound else fparams
            own_w = wparams[1:] if bound else wparams
            if bound and (recv != fparams[0]):
                continue
            if len(call.args) != len(own_w) or len(own_w) <= len(own_f):
                continue
            if [ast.unparse(a) for a in call.args[:len(own_f)]] != own_f:
                continue
            extras = call.args[len(own_f):]

            def fresh(e):
                if isinstance(e, ast.Constant):
                    return True
                if isinstance(e, (ast.List, ast.Dict, ast.Set)) and not (getattr(e, 'elts', None) or getattr(e, 'keys', None)):
                    return True
                return isinstance(e, ast.Call) and isinstance(e.func, ast.Name) and e.func.id in ('set', 'list', 'dict', 'OrderedDict') \
                    and not e.args and not e.keywords
            if not all(fresh(e) for e in extras):
                continue
            # W is recursive and called from nowhere but itself and F
            names = set(_mangled(cname, base))

            def refs(root, skip):
                out = 0
                for n in ast.walk(root):
                    if n is skip:
                        continue
                    if (isinstance(n, ast.Attribute) and n.attr in names) or (isinstance(n, ast.Name) and n.id in names):
                        out += 1
                return out
            inside = refs(w, None)
            total = refs(tree, None)
            if inside < 1 or total != inside + 1:
                continue
            # a parameter of the worker that is re-bound cannot simply take a default
            extra_names = own_w[len(own_f):]
            # build the folded function
            new_defaults = []
            prologue = []
            for pn, e in zip(extra_names, extras):
                if isinstance(e, ast.Constant):
                    new_defaults.append(copy.deepcopy(e))
                else:
                    new_defaults.append(ast.Constant(None))
                    test = ast.Compare(ast.Name(pn, ast.Load()), [ast.Is()], [ast.Constant(None)])
                    prologue.append(ast.If(test, [ast.Assign([ast.Name(pn, ast.Store())], copy.deepcopy(e))], []))
            # rename the worker's leading parameters to the entry point's (they may differ)
            ren = {a: b for a, b in zip(wparams[:len(fparams)], fparams) if a != b}
            if ren and any(isinstance(n, ast.Name) and n.id in ren.values() for n in ast.walk(w)):
                continue
            for n in ast.walk(w):
                if isinstance(n, ast.Name) and n.id in ren:
                    n.id = ren[n.id]
                elif isinstance(n, ast.arg) and n.arg in ren:
                    n.arg = ren[n.arg]
            w.args.defaults = new_defaults
            doc = [st for st in w.body if _is_doc_or_log(st) and isinstance(st, ast.Expr) and isinstance(st.value, ast.Constant)][:1]
            rest = [st for st in w.body if st not in doc]
            for st in prologue:
                ast.copy_location(st, rest[0] if rest else w)
                ast.fix_missing_locations(st)
            w.body = doc + prologue + rest
            # the worker takes the entry point's name; recursive calls follow
            fname = f.name
            for n in ast.walk(w):
                if isinstance(n, ast.Attribute) and n.attr in names:
                    n.attr = fname
                elif isinstance(n, ast.Name) and n.id in names:
                    n.id = fname
            w.name = fname
            w.returns = f.returns if f.returns is not None else w.returns
            container.remove(f)
            log.append('%s: entry point %s folded with its recursive worker %s (step W)' % (modname, q, base))
            done_one = True
            break
        if not done_one:
            break
    return log


def canonical_decomposition(tree: ast.Module, modname: str, baseline_bodies: Optional[Dict[str, str]] = None,
                            restored: bool = False) -> List[str]:
    if restored:
        log = []
        PROTECTED.setdefault(id(tree), set())
    else:
        PROTECTED[id(tree)] = set()
        log = restore_renamed(tree, modname, baseline_bodies)
    try:
        log += fold_entry_wrappers(tree, modname)
    except Exception as e:                              # pragma: no cover
        log.append('%s: step W skipped (%r)' % (modname, e))
    try:
        log += _Inliner(tree, modname).run()
    except RecursionError:
        pass
    ast.fix_missing_locations(tree)
    return log
