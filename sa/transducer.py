"""E9 finite-transducer extraction for Dumper.emit_json.

The method body is evaluated abstractly for every cell (event class [x scalar tag], top-of-stack state) of a
finite table; each cell yields the ordered list of abstract actions. Nothing is executed: values are symbols
(the event, the state stack with a symbolic depth, the stream), conditions must fold to constants, and any
construct outside the supported subset is an AnalysisError (exit 2).
"""
import ast
from typing import Any, Dict, List, Optional, Tuple

from .model import AnalysisError, Program, ClassInfo

EVENTS = ['StreamStartEvent', 'StreamEndEvent', 'DocumentStartEvent', 'DocumentEndEvent', 'AliasEvent', 'ScalarEvent',
          'SequenceStartEvent', 'SequenceEndEvent', 'MappingStartEvent', 'MappingEndEvent']
CORE = 'tag:yaml.org,2002:'
SCALAR_TAGS = ['str', 'null', 'bool', 'timestamp', 'int', 'float', 'binary']


class Raised(Exception):
    def __init__(self, what):
        self.what = what


class _Ret(Exception):
    def __init__(self, value=None):
        self.value = value


class NeedChoice(Exception):
    """a condition on the scalar's text was met whose truth is not determined by the cell: both outcomes are explored"""

    def __init__(self, what):
        self.what = what


RAWISH = ('raw', 'rawlower', 'rawmod', 'unk', 'concat', 'jsonstr')


class Sym:
    def __init__(self, kind, *args):
        self.kind = kind
        self.args = args

    def __repr__(self):
        return '%s%s' % (self.kind, self.args if self.args else '')

    def __eq__(self, o):
        return isinstance(o, Sym) and (self.kind, self.args) == (o.kind, o.args)

    def __hash__(self):
        return hash((self.kind, self.args))


class Cell:
    """abstract machine for one (event, top state) cell"""

    def __init__(self, P: Program, event_cls: str, tag: Optional[str], state: str, states: List[str], event_bases: Dict[str, List[str]]):
        self.P = P
        self.event_cls = event_cls
        self.tag = tag
        self.states = states
        self.bases = event_bases
        self.vis = {0: state}        # visible part of the stack, relative to the original top
        self.depth = 0
        self.actions: List[Tuple] = []
        self.raised: Optional[str] = None
        self.oracle: List[bool] = []
        self.used = 0
        self.choices: List[str] = []

    # ---- values -----------------------------------------------------------------------------------
    def ev(self, e: ast.AST, env: Dict[str, Any]):
        if isinstance(e, ast.Constant):
            return e.value
        if isinstance(e, ast.Name):
            if e.id in env:
                return env[e.id]
            if e.id in ('True', 'False', 'None'):
                return {'True': True, 'False': False, 'None': None}[e.id]
            if e.id in self.bases or e.id in EVENTS:
                return Sym('evclass', e.id)
            if e.id == 'JsonDumperState':
                return Sym('stateenum')
            if e.id in ('json', 'yaml'):
                return Sym('module', e.id)
            if e.id in ('logger', 'logging'):
                return Sym('logger')
            m = self.P.module('yatiml.dumper')
            if e.id in m.constants and e.id not in getattr(self, '_resolving', set()):
                # a module-level constant of dumper.py (a tuple of tags, a set of states, ...)
                self._resolving = getattr(self, '_resolving', set()) | {e.id}
                try:
                    return self.ev(m.constants[e.id], {})
                finally:
                    self._resolving = self._resolving - {e.id}
            raise AnalysisError('emit_json: unknown name %s' % e.id)
        if isinstance(e, ast.Attribute):
            b = self.ev(e.value, env)
            if isinstance(b, Sym):
                if b.kind == 'stateenum':
                    if e.attr not in self.states:
                        raise AnalysisError('emit_json: unknown state %s' % e.attr)
                    return Sym('state', e.attr)
                if b.kind == 'self':
                    m = {'_json_state': Sym('stack'), 'stream': Sym('stream'), '_kv_sep': Sym('kvsep'),
                         'allow_unicode': Sym('allow_unicode'), 'best_indent': Sym('best_indent'),
                         '_cur_indent': Sym('indent'), 'best_line_break': Sym('linebreak')}
                    if e.attr in m:
                        return m[e.attr]
                    return Sym('unk', 'self.' + e.attr)      # emitter state outside the modelled stack: value unknown
                if b.kind == 'event':
                    if e.attr == 'tag':
                        if self.event_cls != 'ScalarEvent':
                            return Sym('evtag')
                        return CORE + self.tag if self.tag != 'custom' else '!custom'
                    if e.attr == 'value':
                        return Sym('raw')
                    return Sym('evattr', e.attr)
                if b.kind == 'module':
                    if b.args[0] == 'yaml' and e.attr in ('events',):
                        return Sym('module', 'yaml.events')
                    if e.attr in self.bases or e.attr in EVENTS:
                        return Sym('evclass', e.attr)
                    return Sym('modattr', b.args[0], e.attr)
                if b.kind in ('stack', 'stream', 'raw', 'modattr', 'unk', 'rawlower', 'rawmod', 'jsonstr', 'concat'):
                    return Sym('method', b, e.attr)
            raise AnalysisError('emit_json: unsupported attribute %s' % ast.unparse(e))
        if isinstance(e, ast.UnaryOp) and isinstance(e.op, ast.Not):
            v = self.ev(e.operand, env)
            if isinstance(v, Sym):
                if v.kind == 'not':
                    return v.args[0]
                return Sym('not', v)
            return not v
        if isinstance(e, ast.UnaryOp) and isinstance(e.op, ast.USub):
            v = self.ev(e.operand, env)
            if isinstance(v, int):
                return -v
        if isinstance(e, ast.BinOp):
            a, b = self.ev(e.left, env), self.ev(e.right, env)
            if isinstance(e.op, ast.Sub) and isinstance(a, Sym) and a.kind == 'len' and b == 1:
                return Sym('level', a.args[0])
            if isinstance(e.op, ast.Mult) and isinstance(a, str) and isinstance(b, Sym):
                return Sym('spaces')
            if isinstance(e.op, ast.Add) and isinstance(a, str) and isinstance(b, str):
                return a + b
            if isinstance(e.op, (ast.Add, ast.Mod)) and all(isinstance(x, str) or (isinstance(x, Sym) and x.kind in RAWISH)
                                                            for x in (a, b)):
                return Sym('concat', repr(a), repr(b))
            raise AnalysisError('emit_json: unsupported arithmetic %s' % ast.unparse(e))
        if isinstance(e, ast.Tuple) or isinstance(e, ast.List) or isinstance(e, ast.Set):
            return tuple(self.ev(x, env) for x in e.elts)
        if isinstance(e, ast.Compare):
            left = self.ev(e.left, env)
            vals = [left] + [self.ev(r, env) for r in e.comparators]
            if any(isinstance(x, Sym) and x.kind in RAWISH for x in vals) or any(
                    isinstance(x, tuple) and any(isinstance(y, Sym) and y.kind in RAWISH for y in x) for x in vals):
                return Sym('unk', ast.unparse(e))
            for op, r in zip(e.ops, e.comparators):
                right = self.ev(r, env)
                ok = self._cmp(op, left, right, e)
                if not ok:
                    return False
                left = right
            return True
        if isinstance(e, ast.BoolOp):
            if isinstance(e.op, ast.And):
                for v in e.values:
                    if not self.truth(self.ev(v, env), v):
                        return False
                return True
            for v in e.values:
                if self.truth(self.ev(v, env), v):
                    return True
            return False
        if isinstance(e, ast.IfExp):
            return self.ev(e.body, env) if self.truth(self.ev(e.test, env), e.test) else self.ev(e.orelse, env)
        if isinstance(e, ast.Subscript):
            b = self.ev(e.value, env)
            idx = self.ev(e.slice, env)
            if isinstance(b, Sym) and b.kind == 'stack':
                rel = self._rel(idx, e)
                if rel not in self.vis:
                    raise AnalysisError('emit_json: reads below the top of the state stack')
                return Sym('state', self.vis[rel]) if self.vis[rel] != '?' else Sym('unknown-state')
            if isinstance(b, dict):
                if idx not in b:
                    return Sym('unk', 'missing key in %s' % ast.unparse(e)[:40])
                v = b[idx]
                return self.ev(v, env) if isinstance(v, ast.AST) else v
            raise AnalysisError('emit_json: unsupported subscript %s' % ast.unparse(e))
        if isinstance(e, ast.Dict):
            return {self._hashable(self.ev(k, env)): v for k, v in zip(e.keys, e.values)}
        if isinstance(e, ast.Call) and isinstance(e.func, ast.Attribute) and e.func.attr == 'get' and 1 <= len(e.args) <= 2 and not e.keywords \
                and isinstance(e.func.value, (ast.Dict, ast.Name)):
            # a lookup table: {STATE: NEXT, ..}.get(cur_state[, default])
            try:
                b = self.ev(e.func.value, env)
            except AnalysisError:
                b = None
            if isinstance(b, dict):
                idx = self._hashable(self.ev(e.args[0], env))
                if idx in b:
                    v = b[idx]
                    return self.ev(v, env) if isinstance(v, ast.AST) else v
                return self.ev(e.args[1], env) if len(e.args) == 2 else None
        if isinstance(e, ast.Call):
            return self.call(e, env)
        if isinstance(e, ast.JoinedStr):
            raise AnalysisError('emit_json: f-strings unsupported')
        raise AnalysisError('emit_json: unsupported expression %s' % type(e).__name__)

    def _hashable(self, v):
        return v

    def _rel(self, idx, e) -> int:
        if isinstance(idx, Sym) and idx.kind == 'level':
            return idx.args[0]
        if isinstance(idx, int) and idx < 0:
            return self.depth + idx + 1
        raise AnalysisError('emit_json: unsupported stack index %s' % ast.unparse(e))

    def _cmp(self, op, a, b, e) -> bool:
        if isinstance(op, (ast.Eq, ast.Is)):
            return self._eq(a, b, e)
        if isinstance(op, (ast.NotEq, ast.IsNot)):
            return not self._eq(a, b, e)
        if isinstance(op, ast.In):
            return any(self._eq(a, x, e) for x in b) if isinstance(b, tuple) else (a in b)
        if isinstance(op, ast.NotIn):
            return not (any(self._eq(a, x, e) for x in b) if isinstance(b, tuple) else (a in b))
        raise AnalysisError('emit_json: unsupported comparison in %s' % ast.unparse(e))

    def _eq(self, a, b, e) -> bool:
        for x in (a, b):
            if isinstance(x, Sym) and x.kind not in ('state', 'evclass'):
                raise AnalysisError('emit_json: condition depends on a run-time value: %s' % ast.unparse(e))
        return a == b

    def truth(self, v, e) -> bool:
        if isinstance(v, Sym):
            inv = False
            while v.kind == 'not':
                v, inv = v.args[0], not inv
            if v.kind == 'unk':
                # a predicate on the text of the scalar: not determined by (event class, tag, state) - explore both outcomes
                if self.used >= len(self.oracle):
                    raise NeedChoice(ast.unparse(e))
                b = self.oracle[self.used]
                self.used += 1
                self.choices.append('%s=%s' % (ast.unparse(e)[:40], b))
                return b != inv
            raise AnalysisError('emit_json: branch on a run-time value: %s' % ast.unparse(e))
        return bool(v)

    def is_instance(self, cls: str) -> bool:
        return cls == self.event_cls or cls in self.bases.get(self.event_cls, [])

    # ---- calls ------------------------------------------------------------------------------------
    def call(self, e: ast.Call, env):
        f = e.func
        if isinstance(f, ast.Name):
            if f.id == 'isinstance' and len(e.args) == 2:
                obj = self.ev(e.args[0], env)
                k = self.ev(e.args[1], env)
                if not (isinstance(obj, Sym) and obj.kind == 'event'):
                    raise AnalysisError('emit_json: isinstance on %s' % ast.unparse(e.args[0]))
                ks = k if isinstance(k, tuple) else (k,)
                return any(isinstance(x, Sym) and x.kind == 'evclass' and self.is_instance(x.args[0]) for x in ks)
            if f.id == 'len' and len(e.args) == 1:
                v = self.ev(e.args[0], env)
                if isinstance(v, Sym) and v.kind == 'stack':
                    return Sym('len', self.depth)
            if f.id == 'type' and len(e.args) == 1:
                v = self.ev(e.args[0], env)
                if isinstance(v, Sym) and v.kind == 'event':
                    return Sym('evclass', self.event_cls)
            if f.id in ('RuntimeError', 'ValueError', 'TypeError', 'NotImplementedError'):
                return Sym('exc', f.id)
            if f.id == 'str' and len(e.args) == 1:
                return self.ev(e.args[0], env)
            if f.id in ('any', 'all', 'len', 'ord', 'min', 'max', 'bool') and e.args:
                # a pure function of the scalar text (e.g. all(c in SAFE for c in event.value)): unknown outcome
                src = ast.unparse(e)
                if '.value' in src:
                    return Sym('unk', src)
            if f.id == 'repr' and len(e.args) == 1:
                v = self.ev(e.args[0], env)
                if isinstance(v, Sym) and v.kind in RAWISH:
                    return Sym('rawmod', 'repr')
            raise AnalysisError('emit_json: unsupported call %s' % ast.unparse(e)[:60])
        if isinstance(f, ast.Attribute):
            # self.<method>()
            if isinstance(f.value, ast.Name) and f.value.id == env.get('__self_name__'):
                if f.attr == '_do_endline':
                    self.actions.append(('NL',))
                    return None
                cls = self.P.cls('yatiml.dumper:Dumper')
                mi = cls.methods.get(f.attr)
                if mi is not None and f.attr != 'emit_json' and getattr(self, '_inline_depth', 0) < 3:
                    # a helper method of the dumper: evaluate its body with the arguments bound
                    ps = mi.params
                    env2 = {ps[0]: Sym('self'), '__self_name__': ps[0]} if ps else {}
                    for p_, a_ in zip(ps[1:], e.args):
                        env2[p_] = self.ev(a_, env)
                    for k in e.keywords:
                        if k.arg:
                            env2[k.arg] = self.ev(k.value, env)
                    defaults = mi.node.args.defaults
                    for p_, d_ in zip(ps[len(ps) - len(defaults):], defaults):
                        env2.setdefault(p_, self.ev(d_, {}))
                    self._inline_depth = getattr(self, '_inline_depth', 0) + 1
                    try:
                        self.run(mi.node.body, env2)
                    except _Ret as r_:
                        return r_.value
                    finally:
                        self._inline_depth -= 1
                    return None
                raise AnalysisError('emit_json: calls self.%s (not modelled)' % f.attr)
            if isinstance(f.value, ast.Name) and f.value.id in ('logger', 'logging'):
                return None         # logging writes nothing to the stream
            target = self.ev(f, env)
            if isinstance(target, Sym) and target.kind == 'method':
                recv, name = target.args
                if recv.kind == 'stream' and name == 'write':
                    v = self.ev(e.args[0], env)
                    self.actions.append(('W', self._token(v, e)))
                    return None
                if recv.kind == 'stack':
                    if name == 'append':
                        v = self.ev(e.args[0], env)
                        if not (isinstance(v, Sym) and v.kind == 'state'):
                            raise AnalysisError('emit_json: pushes a non-state')
                        self.depth += 1
                        self.vis[self.depth] = v.args[0]
                        self.actions.append(('PUSH', v.args[0]))
                        return None
                    if name == 'pop' and not e.args:
                        top = self.vis.get(self.depth, '?')
                        self.vis.pop(self.depth, None)
                        self.depth -= 1
                        if self.depth not in self.vis:
                            self.vis[self.depth] = '?'
                        self.actions.append(('POP',))
                        return Sym('state', top) if top != '?' else Sym('unknown-state')
                    raise AnalysisError('emit_json: unsupported stack operation %s' % name)
                if recv.kind == 'raw' and name == 'lower':
                    return Sym('rawlower')
                if recv.kind == 'raw' and name in ('upper', 'strip', 'title', 'capitalize'):
                    return Sym('rawmod', name)
                if recv.kind in RAWISH and (name.startswith('is') or name in ('startswith', 'endswith', 'find', 'count', 'index')):
                    return Sym('unk', ast.unparse(e))
                if recv.kind in RAWISH and name in ('replace', 'encode', 'decode', 'translate', 'format', 'join', 'lstrip', 'rstrip',
                                                    'swapcase', 'casefold', 'expandtabs', 'zfill', 'center', 'ljust', 'rjust'):
                    return Sym('rawmod', name)
                if recv.kind == 'modattr' and recv.args == ('json', 'dumps'):
                    pass
            if isinstance(target, Sym) and target.kind == 'modattr' and target.args == ('json', 'dumps'):
                arg = self.ev(e.args[0], env) if e.args else None
                ea = None
                for k in e.keywords:
                    if k.arg == 'ensure_ascii':
                        ea = self.ev(k.value, env)
                    elif k.arg is not None:
                        raise AnalysisError('emit_json: json.dumps option %s not modelled' % k.arg)
                return Sym('jsonstr', arg, ea if ea is not None else True)
            if isinstance(target, Sym) and target.kind == 'method' and target.args[0].kind in ('unk',):
                return Sym('unk', ast.unparse(e)[:60])      # e.g. a lookup in a cache the model knows nothing about
            raise AnalysisError('emit_json: unsupported call %s' % ast.unparse(e)[:60])
        raise AnalysisError('emit_json: unsupported call')

    def _token(self, v, e):
        if isinstance(v, str):
            return ('const', v)
        if isinstance(v, Sym):
            if v.kind == 'kvsep':
                return ('kvsep',)
            if v.kind == 'raw':
                return ('raw',)
            if v.kind == 'rawlower':
                return ('rawlower',)
            if v.kind == 'rawmod':
                return ('rawmod', v.args[0])
            if v.kind == 'jsonstr':
                arg, ea = v.args
                return ('jsonstr', repr(arg), repr(ea))
            if v.kind in ('linebreak', 'spaces'):
                return ('ws',)
            if v.kind == 'concat':
                return ('concat',) + v.args
            if v.kind == 'unk':
                return ('opaque',) + tuple(str(a) for a in v.args)
        raise AnalysisError('emit_json: writes an unmodelled value: %s' % ast.unparse(e)[:60])

    # ---- statements -------------------------------------------------------------------------------
    def run(self, stmts, env):
        for st in stmts:
            if isinstance(st, ast.Expr):
                if isinstance(st.value, ast.Constant):
                    continue
                self.ev(st.value, env)
            elif isinstance(st, ast.If):
                if self.truth(self.ev(st.test, env), st.test):
                    self.run(st.body, env)
                else:
                    self.run(st.orelse, env)
            elif isinstance(st, ast.Assign):
                v = self.ev(st.value, env)
                for t in st.targets:
                    self.assign(t, v, env, st)
            elif isinstance(st, ast.AnnAssign) and st.value is not None:
                self.assign(st.target, self.ev(st.value, env), env, st)
            elif isinstance(st, ast.AugAssign):
                tgt = self.ev(st.target, env) if not isinstance(st.target, ast.Name) else env.get(st.target.id)
                if isinstance(tgt, Sym) and tgt.kind == 'indent':
                    v = self.ev(st.value, env)
                    op = '+' if isinstance(st.op, ast.Add) else '-' if isinstance(st.op, ast.Sub) else '?'
                    self.actions.append(('IND', op, repr(v)))
                else:
                    raise AnalysisError('emit_json: unsupported augmented assignment %s' % ast.unparse(st))
            elif isinstance(st, ast.Raise):
                self.raised = ast.unparse(st.exc.func) if isinstance(st.exc, ast.Call) else 'raise'
                self.actions.append(('RAISE', self.raised))
                raise Raised(self.raised)
            elif isinstance(st, ast.Return):
                raise _Ret(self.ev(st.value, env) if st.value is not None else None)
            elif isinstance(st, ast.Pass):
                pass
            else:
                raise AnalysisError('emit_json: unsupported statement %s (line %s)' % (type(st).__name__, st.lineno))

    def assign(self, t, v, env, st):
        if isinstance(t, ast.Name):
            env[t.id] = v
        elif isinstance(t, ast.Subscript):
            b = self.ev(t.value, env)
            if isinstance(b, Sym) and b.kind == 'stack':
                rel = self._rel(self.ev(t.slice, env), t)
                if not (isinstance(v, Sym) and v.kind == 'state'):
                    raise AnalysisError('emit_json: stores a non-state into the state stack')
                self.vis[rel] = v.args[0]
                self.actions.append(('SET', rel, v.args[0]))
                return
            if isinstance(b, Sym) and b.kind == 'unk':
                self.actions.append(('SETITEM', ast.unparse(t.value)))
                return
            raise AnalysisError('emit_json: unsupported store %s' % ast.unparse(st))
        elif isinstance(t, ast.Attribute) and isinstance(t.value, ast.Name) and t.value.id == env.get('__self_name__'):
            # emitter state outside the modelled stack: recorded, and unknown when read back
            self.actions.append(('SETATTR', t.attr, repr(v)))
        else:
            raise AnalysisError('emit_json: unsupported assignment target %s' % ast.unparse(st))


def event_hierarchy(P: Program) -> Dict[str, List[str]]:
    m = P.module('yaml.events')
    out = {}
    for name in EVENTS:
        if name not in m.classes:
            raise AnalysisError('yaml.events.%s not found' % name)
        out[name] = [k.name for k in P.mro(m.classes[name])[1:]]
    return out


def state_names(P: Program) -> List[str]:
    c = P.cls('yatiml.dumper:JsonDumperState')
    names = list(c.class_attrs)
    if len(names) < 4:
        raise AnalysisError('JsonDumperState has too few members')
    return names


def extract(P: Program) -> Dict[Tuple[str, Optional[str], str], Dict[str, Any]]:
    """cell -> {'actions': [...], 'stack': final visible stack, 'depth': final depth, 'raised': ...}"""
    fi = P.func('yatiml.dumper:Dumper.emit_json')
    params = fi.params
    if len(params) != 2:
        raise AnalysisError('emit_json signature changed')
    bases = event_hierarchy(P)
    states = state_names(P)
    table = {}
    for evc in EVENTS:
        tags = SCALAR_TAGS + ['custom'] if evc == 'ScalarEvent' else [None]
        for tag in tags:
            for s in states:
                pending: List[List[bool]] = [[]]
                variants = []
                while pending:
                    oracle = pending.pop()
                    if len(oracle) > 6:
                        raise AnalysisError('emit_json: more than 6 nested text-dependent conditions in one cell')
                    cell = Cell(P, evc, tag, s, states, bases)
                    cell.oracle = oracle
                    env = {params[0]: Sym('self'), params[1]: Sym('event'), '__self_name__': params[0]}
                    try:
                        cell.run(fi.node.body, env)
                    except NeedChoice:
                        pending.append(oracle + [False])
                        pending.append(oracle + [True])
                        continue
                    except Raised:
                        pass
                    except _Ret:
                        pass
                    variants.append({'actions': cell.actions, 'stack': dict(cell.vis), 'depth': cell.depth,
                                     'raised': cell.raised, 'choices': list(cell.choices)})
                table[(evc, tag, s)] = dict(variants[0], variants=variants)
    return table
