"""C09 - plain scalars are typed by YAML 1.2 rules for booleans and floats.

Decided for strings of every length by automata: the loader's per-instance implicit-resolver table is
obtained by partially evaluating Loader.__init__'s patch methods over PyYAML's constant table, and
{s : Tag_load(s) = t} is a regular language under PyYAML's `resolve` (bucket of the first character, then
the None bucket, first `regexp.match` wins).
"""
import ast

from ..model import AnalysisError
from ..relang import equal, subset
from ..resolver_lang import resolver_model, T, BOOL_WORDS, REF

META = {
    'claim_added': 'Also decided: a typed load accepts a scalar for float exactly on the float tag (R01.5); yatiml overrides resolve/construct_* at most by pure delegation. Round 3: recognition does not retag keys or values (R09.8); yatiml registers constructors for its own \'!\' tags only, the core tags keep PyYAML\'s (R04.3). Round 6 (E14): caches on the code this property is about are invisible - no value that lives in a memo cell (dict / lazily filled attribute / lru_cache) is modified by the code it is handed to, the key of a cell contains every input its value depends on, no mutable parameter default is modified or handed out; given that, the program is analysed as if every lookup missed.',
    'level': 'proof',
    'technique': 'static: partial evaluation of the resolver-patch methods over PyYAML\'s constant tables + regex->DFA '
                 'language equality/inclusion with shortest counter-example',
    'claim': 'Proof over all plain-scalar strings of every length that the resolver table a Loader instance uses types '
             'exactly the six YAML 1.2 boolean words as bool, a set between the strict and the sign-tolerant YAML 1.2 core '
             'float language as float, leaves every other tag\'s language as PyYAML has it, and that whatever resolves to '
             'bool/float is in the domain of the PyYAML constructor that then runs (no KeyError/ValueError). This is the '
             'universal statement the example lists cannot give; the numeric value float() returns is not decided.',
    'note': 'Trusted: re._parser, the DFA construction (cross-checked against re in the thorough tier), the validated '
            'shape of BaseResolver.resolve, the reference regexes written from the YAML 1.2 spec; `$` = end of string.',
    'explanation': (
        'Static decision by automata construction. The resolver table a yatiml Loader instance uses is computed '
        'from the source (PyYAML module-level registrations replayed over constants, then Loader.__patch_floats / '
        '__patch_bools partially evaluated on that constant table). For each tag the set of plain scalars resolving '
        'to it is a regular language (regexp.match = prefix match unless the pattern asserts the end); obligations '
        'O1-O4 are DFA equalities/inclusions over strings of every length, each failure printing the shortest '
        'counter-example. O3 ties resolution to construction (SafeConstructor.bool_values keys, domain of '
        'construct_yaml_float). Not decided: that float() returns the "right" number; int/null/timestamp rules are '
        'PyYAML\'s by the property\'s own wording and are only shown to be unchanged by the patch (O4).'),
    'trusted_base': [
        're._parser reading of the patterns',
        'NFA/DFA construction in sa/relang.py (cross-checked against `re` on all strings up to length 4 over a '
        '17-symbol alphabet in the thorough tier)',
        'model of yaml.resolver.BaseResolver.resolve / add_implicit_resolver (shape validated against the source '
        'on every run)',
        'reference regexes for YAML 1.2 core floats written from the specification (sa/resolver_lang.py REF)',
    ],
    'assumptions': [
        '`$` is modelled as end of string: plain scalars contain no line breaks (the scanner folds them)',
        'PyYAML sources on disk are the ones imported at run time (digests recorded)',
        'CPython float() accepts [digits][.digits][e[+-]digits] and rejects everything with other characters',
    ],
}


def overrides_are_delegations(ctx, r, cls_info, names, why: str) -> int:
    """PyYAML methods that the resolver/composer model relies on may be overridden inside yatiml only by pure delegation
    (every return is `super().<name>(<the parameters, unchanged>)`): anything else is reported"""
    P = ctx.P
    n = 0
    for k in P.mro(cls_info):
        if not k.module.name.startswith('yatiml'):
            break
        for name in names:
            if name not in k.methods:
                continue
            n += 1
            fi = k.methods[name]
            params = fi.params[1:]
            want = 'super().%s(%s)' % (name, ', '.join(params))
            rets = [x for x in ast.walk(fi.node) if isinstance(x, ast.Return)]
            pure = bool(rets) and all(x.value is not None and _strip_cast(x.value) == want for x in rets) \
                and not any(isinstance(x, (ast.Assign, ast.AugAssign, ast.Try)) for x in ast.walk(fi.node))
            r.check(pure, '%s.%s only delegates to PyYAML' % (k.name, name), '%s:overrides:%s' % (k.key, name), fi.loc(),
                    '%s overrides PyYAML\'s %s with its own logic: %s' % (k.key, name, why))
    return n


def _strip_cast(e: ast.AST) -> str:
    while isinstance(e, ast.Call) and isinstance(e.func, ast.Name) and e.func.id == 'cast' and len(e.args) == 2:
        e = e.args[1]
    return ast.unparse(e)


def o3_resolve_vs_construct(ctx, rid='C09.O3', M=None):
    """whatever resolves to bool/float is in the domain of the PyYAML constructor that then runs"""
    M = M or resolver_model(ctx.P)
    loc = 'yatiml/loader.py'
    bool_l = M.tag_lang(M.T_load, T + 'bool')
    float_l = M.tag_lang(M.T_load, T + 'float')
    r = ctx.rule(rid, 'resolution agrees with construction (bool_values keys; domain of construct_yaml_float)',
                 floor=2)
    w = subset(bool_l, M.rx_lang(M.bool_ctor_rx))
    r.check(w is None, 'every string resolving to bool lower-cases to a key of SafeConstructor.bool_values %s'
            % sorted(M.bool_values), 'yatiml.loader:Loader:bool-resolve-vs-construct', loc,
            '%r resolves to bool but construct_yaml_bool raises KeyError on it' % w, {'string': w})
    w = subset(float_l, M.ref('float_ctor_domain'))
    r.check(w is None, 'every string resolving to float is in the domain of construct_yaml_float',
            'yatiml.loader:Loader:float-resolve-vs-construct', loc,
            '%r resolves to float but construct_yaml_float raises ValueError on it' % w, {'string': w})
    r.done()


def o3b_pyyaml_scalars(ctx, rid='R08.12', M=None):
    """the same agreement for the two implicit tags whose typing is PyYAML's own (int, timestamp): C09 leaves them to PyYAML,
    C08 still requires that no ValueError leaves a load"""
    M = M or resolver_model(ctx.P)
    loc = 'yatiml/loader.py'
    r = ctx.rule(rid, 'plain scalars that resolve to int / timestamp are in the domain of the PyYAML constructor that then runs',
                 floor=2)
    for tag, ref, ctor in (('int', 'int_ctor_domain', 'construct_yaml_int'), ('timestamp', 'timestamp_ctor_domain',
                                                                               'construct_yaml_timestamp')):
        w = subset(M.tag_lang(M.T_load, T + tag), M.ref(ref))
        r.check(w is None, 'every string resolving to %s is accepted by %s' % (tag, ctor),
                'yatiml.loader:Loader:%s-resolve-vs-construct' % tag, loc,
                '%r resolves to %s but %s raises ValueError on it (PyYAML\'s own resolver pattern is wider than its constructor; '
                'yatiml neither narrows the pattern nor converts the error)' % (w, tag, ctor), {'string': w})
    r.done()


def run(ctx):
    P = ctx.P
    M = resolver_model(P)
    loader = P.cls('yatiml.loader:Loader')
    loc = 'yatiml/loader.py'

    r = ctx.rule('C09.model', 'the loader resolves with PyYAML\'s resolve/constructors (nothing overridden) and '
                              'its __init__ applies the resolver patches', floor=2)
    n_over = overrides_are_delegations(ctx, r, loader, ('resolve', 'construct_yaml_bool', 'construct_yaml_float', 'construct_yaml_int',
                                                           'construct_yaml_timestamp', 'construct_scalar', 'construct_object',
                                                           'construct_document', 'check_resolver_prefix'),
                                       'typing of plain scalars is no longer PyYAML\'s resolve over the patched table / construction is no '
                                       'longer PyYAML\'s constructor for the resolved tag (e.g. a result cache keyed on the text alone '
                                       'forgets whether the scalar was quoted)')
    if n_over == 0:
        r.ok('no yatiml class in Loader\'s MRO overrides resolve/construct_yaml_bool/construct_yaml_float')
    r.check(len(M.load_steps) >= 1 and M.T_load != M.pristine,
            'Loader.__init__ transforms the table through %s' % M.load_steps,
            'yatiml.loader:Loader.__init__:resolver-patch', loc,
            'Loader.__init__ does not change the implicit resolver table: YAML 1.1 typing would be in force')
    r.done()
    from . import memo_rules as MR
    MR.memo_sound(ctx, 'C09.M')

    bool_l = M.tag_lang(M.T_load, T + 'bool')
    float_l = M.tag_lang(M.T_load, T + 'float')

    r = ctx.rule('C09.O1', '{s : Tag_load(s) = bool} = {true,True,TRUE,false,False,FALSE}')
    d = equal(bool_l, M.A.words(BOOL_WORDS))
    r.check(d is None, 'bool language equals the six YAML 1.2 words (DFA equality, %d states)' % bool_l.size(),
            'yatiml.loader:Loader:Tag_load=bool', loc,
            'bool resolver language differs from the six YAML 1.2 words: %r is %s' % (d or ('', '')),
            {'string': d[0], 'side': d[1]} if d else None)
    r.done()

    r = ctx.rule('C09.O2', 'L_strict(YAML 1.2 float) <= {s : Tag_load(s) = float} <= L_loose', floor=2)
    w = subset(M.ref('strict_float'), float_l)
    r.check(w is None, 'every YAML 1.2 core float (fraction point and/or exponent, .inf/.nan) resolves to float',
            'yatiml.loader:Loader:Tag_load=float:missing', loc,
            'YAML 1.2 float %r does not resolve to float' % w, {'string': w})
    w = subset(float_l, M.ref('loose_float'))
    r.check(w is None, 'nothing but YAML 1.2 core floats (optionally signed .nan) resolves to float',
            'yatiml.loader:Loader:Tag_load=float:extra', loc,
            'string %r resolves to float but is not a YAML 1.2 core float' % w, {'string': w})
    r.done()

    o3_resolve_vs_construct(ctx, 'C09.O3', M)

    r = ctx.rule('C09.O4', 'typing of every other tag is PyYAML\'s: {Tag_load = t} = {Tag_PyYAML = t}', floor=3)
    for tg in M.tags(M.pristine):
        if tg in (T + 'bool', T + 'float'):
            continue
        d = equal(M.tag_lang(M.T_load, tg), M.tag_lang(M.pristine, tg))
        r.check(d is None, 'tag %s: same language under the patched and the PyYAML table' % tg[len(T):],
                'yatiml.loader:Loader:Tag_load=%s' % tg[len(T):], loc,
                'typing of %s changed: %r is %s' % ((tg,) + (d or ('', ''))),
                {'string': d[0], 'side': d[1]} if d else None)
    for tg in M.tags(M.T_load):
        if tg not in M.tags(M.pristine):
            r.fail('yatiml.loader:Loader:new-tag:%s' % tg, loc, 'the patch introduces implicit tag %s' % tg)
    r.done()

    r = ctx.rule('C09.O5', 'the patch is per instance: PyYAML\'s class-level table is not written', floor=1)
    for pr in M.init_problems.get('yatiml.loader:Loader', []):
        r.fail('yatiml.loader:Loader.__init__:patch-not-unconditional-per-instance', loc, pr)
    r.check(not M.shared_table_mutated and not M.load_aliases_class_table,
            'after evaluating Loader.__init__ the class-level table equals the one read from yaml/resolver.py and the '
            'instance table is a distinct object',
            'yatiml.loader:Loader.__init__:class-level-resolver-table', loc,
            'Loader.__init__ writes into the resolver table shared with yaml.SafeLoader/SafeDumper')
    r.done()

    ctx.extra['languages'] = {'alphabet_classes': M.A.n, 'bool_dfa_states': bool_l.size(),
                              'float_dfa_states': float_l.size(),
                              'buckets_load': sorted(str(k) for k in M.T_load),
                              'reference_regexes': {k: v[0] for k, v in REF.items()}}
    from . import shared as S
    S.r01_5_scalar(ctx)
    # "what a scalar resolves to always agrees with what is then constructed": recognition does not retag nodes, and the
    # constructors of the core tags are PyYAML's own (yatiml registers constructors for its '!' tags only)
    from . import helpers_rules as H
    H.r16_1_purity(ctx, 'R09.8', roots=['yatiml.recognizer:Recognizer.recognize'], what='recognition (a key or value is not retagged while it is being judged)')
    S.r04_3_registrations(ctx)
    if ctx.tier == 'thorough':
        ctx.extra['dfa_selftest'] = dfa_selftest(M)


def dfa_selftest(M):
    """validation of the automata construction itself (not of yatiml): agreement with `re` on all strings up to
    length 4 over the number/boolean alphabet, for every pattern in play"""
    import itertools
    import re
    sym = list('019.eE-+_:tTrRuU')
    pats = set()
    for tab in (M.pristine, M.T_load):
        for ents in tab.values():
            for _, rx in ents:
                pats.add((rx.pattern, rx.flags))
    pats |= set(REF.values())
    n = 0
    for pat, fl in sorted(pats):
        d = M.rx_lang((pat, fl))
        rx = re.compile(pat, fl)
        for L in range(0, 5):
            for w in itertools.product(sym, repeat=L):
                s = ''.join(w)
                n += 1
                if d.accepts(s) != (rx.match(s) is not None):
                    raise AnalysisError('DFA construction disagrees with re on %r for %r' % (s, pat))
    return {'patterns': len(pats), 'strings_compared': n, 'mismatches': 0}
