"""C15 - structural seasoning transforms: no-op / all-or-nothing clauses and documented decisions."""
from . import helpers_rules as H

META = {
    'claim_added': 'Also decided: writes are dominated by the kind test of the attribute; every item/entry yields exactly one entry of the result; wrap and short-form conditions compared as canonical guard sets; built nodes carry plain tags. Round 3: attribute lookup is by the exact key text (R15.9). Round 6 (E14): caches on the code this property is about are invisible - no value that lives in a memo cell (dict / lazily filled attribute / lru_cache) is modified by the code it is handed to, the key of a cell contains every input its value depends on, no mutable parameter default is modified or handed out; given that, the program is analysed as if every lookup missed.',
    'level': 'other',
    'technique': 'static: typestate mined from the docstrings ("Use only if is_mapping() returns True") checked by dominance of '
                 'kind tests on the same receiver; reachability from node writes to do-nothing exits; decision atoms of the '
                 'documented conditions; mirror-image comparison; node-object placement',
    'claim': 'Decides the "no-op when not applicable" half of C15 and the documented decisions: typestate of the Node methods on '
             'every internal receiver; no silent return or raise is reachable after a node write (all-or-nothing); raises only '
             'where documented; writes are dominated by the presence test; the wrap / short-form decisions are taken on exactly the '
             'documented atoms; the dash/underscore transforms are mirror images over all keys; one node object is never placed '
             'twice. NOT decided: the inverse/round-trip laws and exact output shapes (value-level).',
    'note': 'Known findings F12: seq_attribute_to_map on non-mapping items / items lacking the key or value attribute; '
            'index_attribute_to_map raises for scalar values after having rewritten earlier entries; map_attribute_to_seq returns '
            'silently after having modified earlier entries.',
    'explanation': 'Static decision of structural clauses of the transforms; see claim.',
    'assumptions': [],
}


def run(ctx):
    H.r15_1_typestate(ctx)
    H.r15_2_do_nothing_exits(ctx)
    H.r15_3_mirror(ctx)
    H.r15_4_no_node_twice(ctx)
    H.r15_5_decisions(ctx)
    H.r14_6_get_attribute_guarded(ctx, 'R15.6', transforms=True)
    H.r14_10_get_value_typestate(ctx, 'R15.7')
    H.r14_11_built_nodes(ctx, 'R15.8')
    from . import round3 as R3
    R3.r14_14_exact_key_match(ctx, 'R15.9')
    H.r15_10_duplicates_leave_the_node_alone(ctx)
    from . import memo_rules as M
    M.memo_sound(ctx, 'R15.M')
