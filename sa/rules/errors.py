"""C08 (exception-escape discipline of the load path) and C17 (positions in messages)."""
import ast
from typing import Dict, List, Optional, Set, Tuple

from ..model import AnalysisError, Program, FunctionInfo, ClassInfo, walk_function, dotted_name, parent
from ..model import parent as model_parent
from ..guards import norm, call_name, const_str, isinstance_atom, known_instance, card_admitted, name_subject, text_subject
from ..facts import Fn, CORE, assigned_from, enclosing_loops, enclosing_stmt, verdict, reaching_defs
from ..effects import world
from ..escape import Escapes, Origin
from .. import guards as G
from . import shared as S
from .shared import fn, fn_of
from . import helpers_rules as H

LOAD_ROOTS = ['yatiml.loader:load_function.LoadFunction.__call__', 'yatiml.loader:Loader.__init__',
              'yatiml.loader:Loader.get_single_node', 'yatiml.constructors:Constructor.__call__',
              'yatiml.constructors:EnumConstructor.__call__', 'yatiml.constructors:UserStringConstructor.__call__',
              'yatiml.constructors:PathConstructor.__call__']
LOAD_MODULES = ['yatiml.loader', 'yatiml.recognizer', 'yatiml.constructors', 'yatiml.util', 'yatiml.irecognizer',
                'yatiml.introspection']

# explicit raises of a foreign class that depend on the class model / on the programmer, not on the document
MODEL_ERRORS = {
    'yatiml.loader:Loader.__type_to_tag:raise RuntimeError': 'internal consistency: every recognised type has a tag ("please report a bug")',
    'yatiml.recognizer:Recognizer.__recognize_dict:raise RuntimeError': 'model error: Dict key type is not a string type (depends on the annotation only)',
    'yatiml.recognizer:Recognizer.__recognize_user_class:raise RuntimeError': 'programming error: _yatiml_recognize has the wrong signature (TypeError converted)',
    'yatiml.constructors:Constructor.__strip_extra_attributes:raise RuntimeError': 'model error: __init__ without self (depends on the class only)',
    'yatiml.helpers:Node.set_attribute:raise TypeError': 'argument-kind error; the only load-path caller passes the yaml.Node returned by __process_node, for which the isinstance(value, yaml.Node) arm is taken',
}

# hashed node values (I7) on nodes that do not come from the document
HASH_EXEMPT = {
    'yatiml.helpers:Node.remove_attributes_with_default_values': 'documented for _yatiml_sweeten: the mapping was built by '
    'Representer.represent_mapping, whose keys are the attribute names (str scalars)',
}

_esc_cache: Dict[int, Escapes] = {}


def escapes(P: Program) -> Escapes:
    if id(P) in _esc_cache:
        return _esc_cache[id(P)]
    W = world(P)

    def resolve(fi, call):
        if isinstance(call.func, ast.Attribute):
            return [m for m in W.resolve_method(fi, call) if not (m.cls is not None and m.cls.name == 'IRecognizer')]
        if isinstance(call.func, ast.Name):
            r = P.resolve_expr(fi.module, call.func, fi)
            if r is None:
                return W.resolve_local_callable(fi, call.func.id)
            if isinstance(r, FunctionInfo):
                return [r]
            if isinstance(r, ClassInfo) and '__init__' in r.methods and r.module.name.startswith('yatiml'):
                return [r.methods['__init__']]
        return []
    _esc_cache.clear()
    _esc_cache[id(P)] = Escapes(P, resolve)
    return _esc_cache[id(P)]


def allowed_class(E: Escapes, c: str) -> bool:
    return c == 'RecognitionError' or E.H.is_sub(c, 'YAMLError')


def _model_error_elsewhere(o) -> Optional[str]:
    """The `__init__ without self` model error, wherever the check lives: a RuntimeError raised under nothing but
    `'self' not in <the argument names of the class's __init__>` depends on the registered class only, not on the document."""
    n = o.node
    if not isinstance(n, ast.Raise) or n.exc is None:
        return None
    f = fn_of(o.fi)
    # a hook with the wrong signature: TypeError from the bare hook call, converted (the sibling of the exemption by name for
    # _yatiml_recognize) - the protected statements are the hook call and nothing else
    h = next((a for a in S._ancestors_list(n) if isinstance(a, ast.ExceptHandler)), None)
    if h is not None and S.raise_class(n) == 'RuntimeError' and (f.cfg._handler_names(h) or []) == ['TypeError'] and n.cause is not None:
        t = next((a for a in S._ancestors_list(h) if isinstance(a, ast.Try) and h in a.handlers), None)
        if t is not None and len(t.body) == 1 and isinstance(t.body[0], (ast.Expr, ast.Assign)) and isinstance(t.body[0].value, ast.Call) \
                and isinstance(t.body[0].value.func, ast.Attribute) and t.body[0].value.func.attr.startswith('_yatiml_'):
            return 'programming error: %s has the wrong signature (TypeError from the bare hook call, converted)' % t.body[0].value.func.attr
    # a hook that breaks its contract: the wrapper it was given no longer holds a node
    gs0 = [(x.ast, x.pol) for x in f.cfg.guard_nodes(f.nid(n)) if not S._other_branch_raises(x.ast, x.pol)]
    def class_only(g_):
        names = {x.id for x in ast.walk(g_) if isinstance(x, ast.Name)}
        return bool(names) and all(o.fi.param_annotation(v) is not None and norm(o.fi.param_annotation(v)).startswith('Type') for v in names)
    contract = [g_ for g_ in gs0 if '.yaml_node' in norm(g_[0])]
    if S.raise_class(n) == 'RuntimeError' and len(contract) == 1 and all(class_only(g_[0]) for g_ in gs0 if g_ is not contract[0]):
        t0, p0 = G.canon_atom(*contract[0])
        w = t0[len('isinstance('):].split('.yaml_node')[0] if t0.startswith('isinstance(') and t0.endswith('.yaml_node, yaml.Node)') else None
        if w is not None and not p0 and any(isinstance(c_, ast.Call) and isinstance(c_.func, ast.Attribute) and c_.func.attr.startswith('_yatiml_')
                                            and any(norm(a_) == w for a_ in c_.args) for c_ in f.walk()):
            return 'user code broke its contract: after the hook, %s.yaml_node is not a node' % w
    # guards that only say "an earlier check did not raise" do not make the error depend on anything new
    gs = [(x.ast, x.pol) for x in f.cfg.guard_nodes(f.nid(n)) if not S._other_branch_raises(x.ast, x.pol)]
    if len(gs) != 1:
        return None
    g, pol = gs[0]
    t, p = G.canon_atom(g, pol)
    if not (isinstance(g, ast.Compare) and len(g.ops) == 1 and isinstance(g.ops[0], (ast.In, ast.NotIn)) and not p
            and const_str(g.left) == 'self'):
        return None
    src = f.alpha.text(g.comparators[0])
    if 'getfullargspec(' in src and src.endswith('.args') and 'node' not in src:
        return 'model error: __init__ without self (depends on the class only)'
    return None


def r08_1_explicit(ctx):
    P = ctx.P
    E = escapes(P)
    r = ctx.rule('R08.1', 'every explicit raise that can leave a load entry point is RecognitionError / a YAMLError, or a named '
                          'model-error raise that does not depend on the document', floor=8)
    seen = set()
    for root in LOAD_ROOTS:
        for (c, fkey, line), o in sorted(E.esc[P.func(root).key].items()):
            k = '%s:raise %s' % (fkey, c)
            if (k, root, line) in seen:
                continue
            seen.add((k, root, line))       # every site is judged (two raises of one class in one function are two origins)
            if allowed_class(E, c):
                r.ok('%s may raise %s (from %s)' % (root.split(':')[1], c, fkey.split(':')[1]))
            elif k in MODEL_ERRORS:
                r.ok('%s: %s from %s - exempt: %s' % (root.split(':')[1], c, fkey.split(':')[1], MODEL_ERRORS[k]))
            elif _model_error_elsewhere(o):
                r.ok('%s: %s from %s - exempt: %s' % (root.split(':')[1], c, fkey.split(':')[1], _model_error_elsewhere(o)))
            else:
                r.fail('%s@%s' % (k, root.split(':')[1]), o.fi.loc(o.node),
                       '%s raised in %s can escape %s (call chain: %s): bad input surfaces as %s instead of RecognitionError'
                       % (c, fkey.split(':')[1], root.split(':')[1], ' <- '.join(o.chain) or 'direct', c),
                       {'chain': list(o.chain)})
    # PyYAML's scanner/parser/composer/reader raise only YAMLError subclasses
    for mod in ('yaml.scanner', 'yaml.parser', 'yaml.composer', 'yaml.reader'):
        bad = []
        for n in ast.walk(P.module(mod).tree):
            if isinstance(n, ast.Raise) and n.exc is not None:
                e = n.exc.func if isinstance(n.exc, ast.Call) else n.exc
                c = (dotted_name(e) or norm(e)).split('.')[-1]
                if not E.H.is_sub(c, 'YAMLError'):
                    bad.append((c, n.lineno))
        r.check(not bad, 'every explicit raise in %s is a YAMLError subclass' % mod, mod + ':raises', mod, '%s raises %s' % (mod, bad[:3]))
    r.done()


USER_SITES = [
    # (function, predicate on the call's func text, contract classes the handler must catch, description)
    ('yatiml.constructors:Constructor.__call__', lambda t: t.endswith('.__init__'), {'Exception'}, 'user __init__'),
    ('yatiml.constructors:UserStringConstructor.__call__', lambda t: t == 'self.class_', {'Exception'}, 'string-like constructor'),
    ('yatiml.recognizer:Recognizer.__recognize_user_class', lambda t: t.endswith('._yatiml_recognize'), {'RecognitionError'}, '_yatiml_recognize'),
]


def r08_2_user_code(ctx, rid='R08.2'):
    P = ctx.P
    r = ctx.rule(rid, 'user code in the load path runs under a handler that catches the hook\'s contract class and leaves only via '
                      'RecognitionError / a REJECT verdict', floor=4)
    for key, pred, contract, what in USER_SITES:
        f = fn(P, key)
        sites = [c for c in f.walk() if isinstance(c, ast.Call) and pred(norm(c.func)) and f.live(c)]
        if not sites and what == 'user __init__':
            moved = S.init_sites(P)
            if moved:
                f = moved[0][0]
                sites = [c for _, c, _ in moved]
        if not sites:
            r.fail(f.key('no-%s-site' % what), f.loc(), '%s is never called' % what)
        for c in sites:
            hs = []
            for t in f.cfg.enclosing_handlers(c):
                for h in t.handlers:
                    names = f.cfg._handler_names(h)
                    if names is None or set(names) & (contract | {'BaseException'}) or (contract == {'RecognitionError'} and set(names) & {'RuntimeError', 'Exception'}):
                        hs.append(h)
            if not hs:
                r.fail(f.key('unhandled:%s' % what), f.loc(c), 'the %s call %s is not inside a handler for %s: whatever it raises '
                       'escapes the load function unconverted' % (what, norm(c)[:40], sorted(contract)))
                continue
            ok, why = S.handler_converts(f, hs[0])
            r.check(ok, '%s: %s under `except %s` that converts to RecognitionError / REJECT' % (f.fi.qual, norm(c)[:40], norm(hs[0].type) if hs[0].type else ''),
                    f.key('handler:%s' % what), f.loc(hs[0]), 'the handler around the %s call does not convert: %s' % (what, why))
    # any other call of a *value* (a parameter or local holding a class or callable that came from the user: `expected_type(text)`,
    # `class_(...)`, `factory()`): user code as well - it needs an `except Exception` handler that converts
    LOAD_MODULES = ('yatiml.loader', 'yatiml.recognizer', 'yatiml.constructors', 'yatiml.util', 'yatiml.introspection',
                    'yatiml.helpers', 'yatiml.irecognizer')
    n_fns = 0
    for fi in P.yatiml_functions():
        if fi.module.name not in LOAD_MODULES:
            continue
        n_fns += 1
        node_ = fi.node
        params = {a.arg for a in ast.walk(node_.args) if isinstance(a, ast.arg)}
        locs = {x.id for x in ast.walk(node_) if isinstance(x, ast.Name) and isinstance(x.ctx, ast.Store)}
        nested = {x.name for x in ast.walk(node_) if isinstance(x, (ast.FunctionDef, ast.AsyncFunctionDef, ast.ClassDef)) and x is not node_}
        dyn = [c for c in ast.walk(node_) if isinstance(c, ast.Call) and isinstance(c.func, ast.Name) and c.func.id in (params | locs) - nested]
        if not dyn:
            continue
        g = S.fn_of(fi)
        for c in dyn:
            if not g.live(c):
                continue
            # a local that only ever holds yatiml's own functions / bound methods (a dispatch through a variable) is not user code
            if c.func.id not in params:
                ds = reaching_defs(g, c, c.func.id)

                def own(e):
                    if isinstance(e, ast.Constant) and e.value is None:
                        return True
                    if isinstance(e, ast.Attribute) and isinstance(e.value, ast.Name) and e.value.id in ('self', 'cls') and fi.cls is not None:
                        m_ = P.lookup_method(fi.cls, e.attr)
                        return m_ is not None and m_.module.name.startswith('yatiml')
                    if isinstance(e, ast.Name):
                        rr = P.resolve_expr(fi.module, e, fi)
                        return isinstance(rr, FunctionInfo) and rr.module.name.startswith('yatiml')
                    if isinstance(e, ast.IfExp):
                        return own(e.body) and own(e.orelse)
                    return False
                if ds and all(isinstance(d, (ast.Assign, ast.AnnAssign)) and d.value is not None and own(d.value) for d in ds):
                    continue
            h = S.handler_for(g, c, {'Exception', 'BaseException'})
            ok = h is not None and S.handler_converts(g, h)[0]
            r.check(ok, '%s: call of the value %s under a converting `except Exception`' % (fi.qual, c.func.id),
                    g.key('user-callable:%s' % g.alpha.text(c)[:50]), g.loc(c),
                    '%s calls %s, a class or callable that comes from the user, outside a handler that converts every exception to '
                    'RecognitionError: whatever it raises (KeyError, IndexError, TypeError ...) escapes the load function'
                    % (fi.key, norm(c)[:50]))
    r.ok('%d load-side functions scanned for calls of parameter/local values' % n_fns)
    # savorize: the hook call is in __savorize; the converting handler is around the hook call itself or at its only caller
    f = fn(P, S.PN)
    sv = fn(P, 'yatiml.loader:Loader.__savorize')
    inner = [S.handler_for(sv, c, {'SeasoningError', 'Exception', 'RuntimeError', 'BaseException'}) for c in S.hook_calls(sv, '_yatiml_savorize')]
    inner_ok = bool(inner) and all(h is not None and S.handler_converts(sv, h)[0] for h in inner)
    for c in [c for c in f.calls('__savorize') if f.live(c)]:
        h = S.handler_for(f, c, {'SeasoningError', 'Exception', 'RuntimeError', 'BaseException'})
        if h is None and inner_ok:
            r.ok('the _yatiml_savorize call itself sits in a converting handler (inside __savorize)')
        elif h is None:
            r.fail(f.key('unhandled:savorize'), f.loc(c), 'the savorize call is not inside a handler for SeasoningError')
        else:
            ok, why = S.handler_converts(f, h)
            r.check(ok, '__process_node: savorize under `except %s` -> RecognitionError' % (norm(h.type) if h.type else ''), f.key('handler:savorize'),
                    f.loc(h), 'the handler around savorize does not convert: %s' % why)
    r.done()


DICT_TABLES = {'__registered_classes', '_registered_classes', '_additional_classes', '__additional_classes', 'class_', 'defaults',
               'user_defaults', 'annotations', 'mapping', 'yaml_representers', 'bool_values', 'main_attrs', 'extra_attrs'}
TYPE_KEYED = {'scalar_type_to_tag', 'scalar_type_to_str'}


def _membership_guard(f: Fn, n: ast.AST, key: str, table: str) -> bool:
    for g, p in f.guards(n):
        if isinstance(g, ast.Compare) and len(g.ops) == 1 and norm(g.left) == key and norm(g.comparators[0]) == table:
            if (isinstance(g.ops[0], ast.In) and p) or (isinstance(g.ops[0], ast.NotIn) and not p):
                return True
    return False


def r08_3_implicit(ctx, rid='R08.3'):
    P = ctx.P
    r = ctx.rule(rid, 'implicit raisers in the load path are discharged: keyed lookups under a membership test or handler, constant '
                      'indexes into filtered lists under a cardinality/has_attribute guard, list.remove under a membership guard, '
                      'e.args[0] under `if e.args`', floor=12)
    mods = LOAD_MODULES + ['yatiml.helpers']
    for mn in mods:
        m = P.module(mn)
        for fi in m.functions.values():
            f = None
            for n in walk_function(fi.node):
                # I7: the text of a node used as a hash key (dict/set construction, keyed lookup): only a ScalarNode's value is a
                # string - the value of a sequence or mapping used as a key is a list
                hk = _hashed_node_value(n)
                if hk is None:
                    hk = _hashed_membership(fi, n)
                if hk is not None:
                    f = f or fn_of(fi)
                    if f.live(n):
                        recv = hk.value
                        rname = norm(recv)
                        is_node = False
                        if isinstance(recv, ast.Name):
                            ann = fi.param_annotation(recv.id)
                            if ann is not None and 'Node' in norm(ann):
                                is_node = True
                            for x in walk_function(fi.node):
                                if isinstance(x, (ast.For, ast.comprehension)) and isinstance(x.target, ast.Tuple) and x.target.elts \
                                        and norm(x.target.elts[0]) == rname and norm(x.iter).endswith('.value'):
                                    is_node = True
                        if is_node and fi.key in HASH_EXEMPT:
                            r.ok('exempt: %s (%s)' % (fi.key, HASH_EXEMPT[fi.key]))
                        elif is_node:
                            gs = f.guards(hk) + f.guards(n)
                            ok = known_instance(gs, rname, {'ScalarNode'})
                            if not ok:
                                pos = S.branch_nodes(f, lambda a: any(isinstance_atom(g) and isinstance_atom(g)[0] == rname and p
                                                                       and isinstance_atom(g)[1] <= {'ScalarNode'} for g, p in a))
                                ok = bool(pos) and f.cfg.must_pass(f.cfg.entry, f.nid(n), pos)
                            if not ok:
                                for comp in [x for x in S._ancestors_list(hk) if isinstance(x, (ast.DictComp, ast.SetComp, ast.ListComp, ast.GeneratorExp))]:
                                    for g_ in comp.generators:
                                        for cond in g_.ifs:
                                            if known_instance(S.conj_atoms(cond, True), rname, {'ScalarNode'}):
                                                ok = True
                            if not ok:
                                for tr in f.cfg.enclosing_handlers(n):
                                    for h in tr.handlers:
                                        names = f.cfg._handler_names(h)
                                        if names is None or set(names) & {'TypeError', 'Exception'}:
                                            ok = True
                            r.check(ok, '%s: %s is hashed only for a ScalarNode' % (fi.qual, norm(hk)), '%s:hashed-node-value:%s' % (
                                fi.key, f.alpha.text(hk)[:60]), fi.loc(n), '%s is used as a hash key (%s) although %s may be a sequence or '
                                'mapping node (a complex key `? [a, b]`, an explicitly tagged collection): its value is a list and hashing '
                                'raises TypeError' % (norm(hk), norm(n)[:50], rname))
                # I1b (contradiction): D[k] under `k in D2` for another table D2 whose keys are not all keys of D
                if isinstance(n, ast.Subscript) and isinstance(n.ctx, ast.Load) and isinstance(n.value, ast.Name) \
                        and not isinstance(n.slice, (ast.Constant, ast.Slice)):
                    f = f or fn_of(fi)
                    if f.live(n):
                        kd = _dict_keys(P, f, n.value.id)
                        for g, p in f.guards(n):
                            if p and isinstance(g, ast.Compare) and len(g.ops) == 1 and isinstance(g.ops[0], ast.In) \
                                    and norm(g.left) == norm(n.slice) and isinstance(g.comparators[0], ast.Name) \
                                    and g.comparators[0].id != n.value.id and kd is not None:
                                k2 = _dict_keys(P, f, g.comparators[0].id)
                                if k2 is not None:
                                    r.check(k2 <= kd, '%s: %s[%s] under `%s in %s` (all its keys are keys of %s)' % (
                                        fi.qual, n.value.id, norm(n.slice), norm(n.slice), g.comparators[0].id, n.value.id),
                                        '%s:lookup-guarded-by-other-table:%s[%s]' % (fi.key, n.value.id, norm(n.slice)), fi.loc(n),
                                        '%s[%s] is guarded by membership in %s, which also has the keys %s: for those the lookup raises '
                                        'KeyError' % (n.value.id, norm(n.slice), g.comparators[0].id, sorted(k2 - kd)))
                # I1: keyed lookups in dict-like tables
                if isinstance(n, ast.Subscript) and isinstance(n.ctx, ast.Load) and not isinstance(n.slice, (ast.Constant, ast.Slice)):
                    base = n.value
                    bname = base.attr if isinstance(base, ast.Attribute) else base.id if isinstance(base, ast.Name) else None
                    if bname in TYPE_KEYED or bname not in DICT_TABLES:
                        continue
                    f = f or fn_of(fi)
                    if not f.live(n):
                        continue
                    k, t = norm(n.slice), norm(base)
                    ok = _membership_guard(f, n, k, t) or _membership_guard(f, n, f.copies.xnorm(n.slice), t)
                    if not ok:
                        for tr in f.cfg.enclosing_handlers(n):
                            for h in tr.handlers:
                                names = f.cfg._handler_names(h)
                                if names is None or set(names) & {'KeyError', 'LookupError', 'Exception'}:
                                    ok = True
                    if not ok and bname == 'mapping' and _loop_over_keys(f, n, t, k):
                        ok = True
                    r.check(ok, '%s: %s[%s] under `%s in %s` / a KeyError handler' % (fi.qual, t, k, k, t),
                            '%s:keyed-lookup:%s[%s]' % (fi.key, t, k), fi.loc(n),
                            '%s[%s] is evaluated without a membership test or KeyError handler: a document-dependent key raises '
                            'KeyError' % (t, k))
                # I2: constant index into a possibly empty filtered list / exception args
                if isinstance(n, ast.Subscript) and isinstance(n.ctx, ast.Load) and isinstance(n.slice, ast.Constant) \
                        and isinstance(n.slice.value, int):
                    base = n.value
                    f = f or fn_of(fi)
                    if not f.live(n):
                        continue
                    kind = None
                    if isinstance(base, ast.ListComp) and base.generators[0].ifs:
                        kind = 'filtered'
                        lc = base
                    elif isinstance(base, ast.Name):
                        srcs = assigned_from(f, base.id)
                        if len(srcs) == 1 and isinstance(srcs[0], ast.ListComp) and srcs[0].generators[0].ifs:
                            kind = 'filtered-var'
                            lc = srcs[0]
                    elif isinstance(base, ast.Attribute) and base.attr == 'args' and isinstance(base.value, ast.Name):
                        kind = 'exc-args'
                    if kind is None:
                        continue
                    ok = False
                    if kind == 'exc-args':
                        ok = any(norm(g) == norm(base) and p for g, p in f.guards(n))
                    elif kind == 'filtered-var':
                        adm = f.card(n, base.id)
                        ok = bool(adm) and min(adm) > n.slice.value
                    if kind in ('filtered', 'filtered-var') and not ok:
                        # [x for k, x in N.value if k.value == name][0] under W.has_attribute(name), W = Node(N)
                        cond = lc.generators[0].ifs[0]
                        if isinstance(cond, ast.Compare) and len(cond.ops) == 1 and isinstance(cond.ops[0], ast.Eq):
                            name = norm(cond.comparators[0])
                            coll = norm(lc.generators[0].iter)
                            for g, p in f.guards(n):
                                if p and isinstance(g, ast.Call) and call_name(g) == 'has_attribute' and g.args and norm(g.args[0]) == name:
                                    w = norm(g.func.value)
                                    wr = [norm(x) for x in assigned_from(f, w)]
                                    if any(x == 'Node(%s)' % coll.replace('.value', '') for x in wr):
                                        ok = True
                            if not ok and _key_from_same_mapping(f, n, name, coll):
                                ok = True
                    r.check(ok, '%s: %s guarded (cardinality / has_attribute / `if e.args`)' % (fi.qual, norm(n)[:60]),
                            '%s:const-index:%s' % (fi.key, norm(n)[:60]), fi.loc(n),
                            '%s can raise IndexError: nothing establishes that the list is long enough' % norm(n)[:70])
                # I10: str.format on a format string that is not a literal (document or hook text inside the format string:
                # a brace in it raises KeyError/IndexError/ValueError)
                if isinstance(n, ast.Call) and isinstance(n.func, ast.Attribute) and n.func.attr == 'format' \
                        and not (isinstance(n.func.value, ast.Name) and n.func.value.id in ('string', 'Formatter')):
                    f = f or fn_of(fi)
                    if not f.live(n):
                        continue
                    recv = n.func.value
                    srcs = [recv]
                    if isinstance(recv, ast.Name):
                        rd = reaching_defs(f, n, recv.id)
                        srcs = [d.value for d in rd] if rd else [recv]
                    ok = all(const_str(x) is not None for x in srcs)
                    r.check(ok, '%s: format string of %s is a literal' % (fi.qual, norm(n)[:40]),
                            '%s:format-string:%s' % (fi.key, f.alpha.text(recv)[:60]), fi.loc(n),
                            'the format string of %s is built at run time (%s): text from the document or from a hook that contains '
                            '`{` or `}` makes format() raise KeyError/IndexError/ValueError' % (norm(n)[:50], norm(srcs[0])[:60]))
                # I9: list.remove
                if isinstance(n, ast.Call) and isinstance(n.func, ast.Attribute) and n.func.attr == 'remove' and n.args:
                    f = f or fn_of(fi)
                    if not f.live(n):
                        continue
                    lst, x = norm(n.func.value), norm(n.args[0])
                    # a constant removed from a list that is a copy of a parameter holding names from the class model
                    # (argspec.args): whether it is present depends on the registered class, not on the document
                    srcs = [norm(s_) for s_ in assigned_from(f, lst)] if isinstance(n.func.value, ast.Name) else []
                    if const_str(n.args[0]) is not None and srcs and all(
                            any(s_ in (pp, 'list(%s)' % pp, '%s.copy()' % pp, '%s[:]' % pp) for pp in fi.params) for s_ in srcs):
                        r.ok('%s: %s.remove(%s) on a copy of a model-level name list' % (fi.qual, lst, x))
                        continue
                    if const_str(n.args[0]) is not None and isinstance(n.func.value, ast.Name) and len(assigned_from(f, lst)) == 1 \
                            and S._copies_of(f, lst) & set(fi.params):
                        r.ok('%s: %s.remove(%s) on a copy (of a copy) of a model-level name list' % (fi.qual, lst, x))
                        continue
                    ok = _membership_guard(f, n, x, lst)
                    if not ok:
                        # the element was put there by L.add(x) / L.append(x) on every path
                        adds = {f.nid(c2) for c2 in f.walk() if isinstance(c2, ast.Call) and isinstance(c2.func, ast.Attribute)
                                and c2.func.attr in ('add', 'append') and norm(c2.func.value) == lst and c2.args and norm(c2.args[0]) == x}
                        ok = bool(adds) and f.cfg.must_pass(f.cfg.entry, f.nid(n), adds)
                    if not ok:
                        neg = S.branch_nodes(f, lambda a: any(isinstance(g, ast.Compare) and len(g.ops) == 1 and norm(g.left) == x
                                                               and norm(g.comparators[0]) == lst and (
                                                                   (isinstance(g.ops[0], ast.In) and p) or (isinstance(g.ops[0], ast.NotIn) and not p))
                                                               for g, p in a))
                        ok = bool(neg) and f.cfg.must_pass(f.cfg.entry, f.nid(n), neg)
                    r.check(ok, '%s: %s.remove(%s) under a membership guard' % (fi.qual, lst, x), '%s:remove:%s.remove(%s)' % (fi.key, lst, x),
                            fi.loc(n), '%s.remove(%s) can raise ValueError: membership is not established' % (lst, x))
    r.done()


def _dict_keys(P: Program, f: Fn, name: str) -> Optional[Set[str]]:
    """key expressions (as text) of the dict literal that `name` denotes: a single-assignment local or a module-level constant of a
    yatiml module (followed through `from .util import name`)"""
    src = None
    ds = assigned_from(f, name)
    if len(ds) == 1:
        src = ds[0]
    else:
        m = f.fi.module
        if name in m.constants:
            src = m.constants[name]
        elif name in m.imports:
            tgt = m.imports[name]
            mod, _, nm = tgt.rpartition('.')
            if mod in P.modules and nm in P.modules[mod].constants:
                src = P.modules[mod].constants[nm]
    if isinstance(src, ast.Dict) and all(k is not None for k in src.keys):
        return {norm(k) for k in src.keys}
    return None


def _is_node_value(e: ast.AST) -> bool:
    return isinstance(e, ast.Attribute) and e.attr == 'value'


def _hashed_membership(fi: FunctionInfo, n: ast.AST) -> Optional[ast.Attribute]:
    """`X.value in S` / `not in S` with S a set or a dict (a parameter annotated so, or a local bound to one): the test hashes X.value"""
    if not (isinstance(n, ast.Compare) and len(n.ops) == 1 and isinstance(n.ops[0], (ast.In, ast.NotIn)) and _is_node_value(n.left)):
        return None
    box = n.comparators[0]
    if isinstance(box, (ast.Set, ast.Dict, ast.SetComp, ast.DictComp)):
        return n.left
    if isinstance(box, ast.Call) and ((isinstance(box.func, ast.Name) and box.func.id in ('set', 'frozenset', 'dict', 'OrderedDict'))
                                      or (isinstance(box.func, ast.Attribute) and box.func.attr == 'keys' and not box.args)):
        return n.left
    if isinstance(box, ast.Name):
        ann = fi.param_annotation(box.id)
        if ann is not None:
            t = norm(ann)
            return n.left if any(k in t for k in ('Set[', 'Dict[', 'Mapping[', 'FrozenSet[', 'OrderedDict')) or t in ('set', 'dict', 'frozenset') else None
        binds = [x for x in walk_function(fi.node) if isinstance(x, (ast.Assign, ast.AnnAssign)) and any(
            isinstance(t_, ast.Name) and t_.id == box.id for t_ in (x.targets if isinstance(x, ast.Assign) else [x.target]))]
        vals = [x.value for x in binds if x.value is not None]
        if vals and all(isinstance(v, (ast.Set, ast.Dict, ast.SetComp, ast.DictComp)) or (
                isinstance(v, ast.Call) and isinstance(v.func, ast.Name) and v.func.id in ('set', 'frozenset', 'dict', 'OrderedDict')) for v in vals):
            return n.left
    return None


def _hashed_node_value(n: ast.AST) -> Optional[ast.Attribute]:
    """the `X.value` expression that construct `n` hashes, if any"""
    if isinstance(n, ast.DictComp) and _is_node_value(n.key):
        return n.key
    if isinstance(n, ast.SetComp) and _is_node_value(n.elt):
        return n.elt
    if isinstance(n, ast.Dict):
        for k in n.keys:
            if k is not None and _is_node_value(k):
                return k
    if isinstance(n, ast.Call):
        f = n.func
        if isinstance(f, ast.Name) and f.id in ('set', 'frozenset', 'dict') and n.args:
            a0 = n.args[0]
            if isinstance(a0, (ast.GeneratorExp, ast.ListComp)):
                e = a0.elt
                if _is_node_value(e):
                    return e
                if isinstance(e, ast.Tuple) and e.elts and _is_node_value(e.elts[0]) and f.id == 'dict':
                    return e.elts[0]
        if isinstance(f, ast.Attribute) and f.attr in ('get', 'setdefault', 'pop', 'add', 'discard') and n.args and _is_node_value(n.args[0]) \
                and not (isinstance(f.value, ast.Attribute) and f.value.attr == 'value'):
            return n.args[0]
    if isinstance(n, ast.Subscript) and _is_node_value(n.slice) and not isinstance(n.ctx, ast.Del):
        return n.slice
    return None


def _loop_over_keys(f: Fn, n: ast.AST, table: str, key: str) -> bool:
    """the key runs over keys of the table: a loop or comprehension over the table (its keys(), items(), a list of it), or over a
    list that was itself drawn from the table's keys by a filtering comprehension (directly or through a local bound once)"""
    def from_table(it, depth=0) -> bool:
        if norm(it) in ('%s.items()' % table, '%s.keys()' % table, table, 'list(%s)' % table, 'list(%s.keys())' % table, 'tuple(%s)' % table):
            return True
        if depth > 3:
            return False
        if isinstance(it, (ast.ListComp, ast.GeneratorExp)) and len(it.generators) == 1 and isinstance(it.elt, ast.Name) \
                and isinstance(it.generators[0].target, ast.Name) and it.elt.id == it.generators[0].target.id:
            return from_table(it.generators[0].iter, depth + 1)
        if isinstance(it, ast.Name) and it.id not in f.fi.params:
            srcs = assigned_from(f, it.id)
            return len(srcs) == 1 and it.id not in G.mutated_names(f.node) and from_table(srcs[0], depth + 1)
        return False
    for lo in enclosing_loops(n, f.node):
        if isinstance(lo, ast.For) and from_table(lo.iter):
            t = lo.target.elts[0] if isinstance(lo.target, ast.Tuple) else lo.target
            if norm(t) == key:
                return True
    for a in S._ancestors_list(n):
        if isinstance(a, (ast.ListComp, ast.GeneratorExp, ast.DictComp, ast.SetComp)):
            for g in a.generators:
                t = g.target.elts[0] if isinstance(g.target, ast.Tuple) and norm(g.iter).endswith('.items()') else g.target
                if norm(t) == key and from_table(g.iter):
                    return True
    return False


def _key_from_same_mapping(f: Fn, n: ast.AST, name: str, coll: str) -> bool:
    """`name` iterates over the keys of the mapping constructed from the same node after its keys were checked (exempt idiom of
    Constructor.__type_check_attributes)"""
    if f.fi.qual != 'Constructor.__type_check_attributes':
        return False
    for lo in enclosing_loops(n, f.node):
        if isinstance(lo, ast.For) and norm(lo.iter) == '%s.items()' % f.fi.params[2] and isinstance(lo.target, ast.Tuple) \
                and norm(lo.target.elts[0]) == name and coll == '%s.value' % f.fi.params[1]:
            return True
    return False


CTOR_MAY_RAISE = {'int': ('construct_yaml_int', 'int('), 'float': ('construct_yaml_float', 'float('),
                  'bool': ('construct_yaml_bool', 'self.bool_values['), 'timestamp': ('construct_yaml_timestamp', '.groupdict()')}


def r08_4_explicit_core_tags(ctx, rid='R08.4'):
    P = ctx.P
    r = ctx.rule(rid, 'a scalar is handed to PyYAML\'s constructor for a core tag only if its text matches what that constructor '
                      'accepts (the implicit resolver guarantees this for untagged scalars; explicitly tagged ones are not checked)',
                 floor=4)
    f = fn(P, S.REC + '__recognize_scalar')
    node = f.fi.params[1]
    validates = any('.value' in norm(g) and node in norm(g) for ret, v in S.accept_returns(f) for g, p in f.guards(ret))
    for t, (meth, fact) in sorted(CTOR_MAY_RAISE.items()):
        src = ast.unparse(P.func('yaml.constructor:SafeConstructor.%s' % meth).node)
        if fact not in src:
            raise AnalysisError('SafeConstructor.%s no longer has the modelled shape' % meth)
        r.check(validates, 'text of a %s-tagged scalar is validated before construction' % t,
                'yatiml.recognizer:Recognizer.__recognize_scalar:unvalidated-explicit-tag:%s' % t, f.loc(),
                'a scalar explicitly tagged !!%s is accepted on its tag alone and SafeConstructor.%s then raises a foreign '
                'exception on text it cannot convert (e.g. `!!%s foo`)' % (t, meth, t))
    r.done()


def r08_5_key_texts(ctx, rid='R08.5'):
    P = ctx.P
    r = ctx.rule(rid, 'key texts that are hashed / compared as strings (diagnose_missing_key, get_close_matches, set()) come from '
                      'keys already known to be string scalars', floor=2)
    for fi in P.yatiml_functions():
        f = None
        for c in walk_function(fi.node):
            if isinstance(c, ast.Call) and call_name(c) in ('diagnose_missing_key', 'diagnose_extraneous_key') and len(c.args) >= 2:
                f = f or fn_of(fi)
                got = c.args[1]
                srcs = S._flow_sources(f, got)
                unsafe = None
                for s_ in srcs:
                    if isinstance(s_, ast.ListComp) and '.value' in norm(s_.elt) and '.value' in norm(s_.generators[0].iter):
                        nodev = norm(s_.generators[0].iter).replace('.value', '')
                        # is the kind of the keys established? (a) filter in the comprehension (b) the caller's protocol
                        filt = any('ScalarNode' in norm(x) for x in s_.generators[0].ifs)
                        proto = fi.cls is not None and fi.cls.name == 'Constructor'
                        if not filt and not proto:
                            unsafe = s_
                if fi.cls is not None and fi.cls.name == 'Constructor':
                    # protocol: __strip_extra_attributes (which rejects non-string keys) dominates this method's call in __call__
                    cf = fn(P, S.CTOR + '__call__')
                    strips = [x for x in cf.calls('__strip_extra_attributes') if cf.live(x)]
                    mine = [x for x in cf.calls(fi.name) if cf.live(x)]
                    ok = bool(strips) and all(any(cf.cfg.dominates(cf.nid(s1), cf.nid(m1)) for s1 in strips) for m1 in mine)
                    r.check(ok, '%s: key texts come from a node whose keys were checked by __strip_extra_attributes' % fi.qual,
                            '%s:key-texts' % fi.key, fi.loc(c), 'key texts are used before the key kinds were checked')
                else:
                    r.check(unsafe is None, '%s: key texts passed to %s are string scalars' % (fi.qual, call_name(c)),
                            '%s:unchecked-key-texts:%s' % (fi.key, call_name(c)), fi.loc(c),
                            'the values of keys that may be sequences/mappings (%s) are passed to %s, which hashes them '
                            '(set(got)): `? [1, 2] : 3` raises TypeError: unhashable type' % (norm(unsafe)[:50] if unsafe is not None else '', call_name(c)))
    r.done()


def r08_17_resolver_end_anchor(ctx, rid='R08.17'):
    """strip_tags re-resolves every scalar with a non-core tag as if it were plain - also block scalars, whose text ends in a
    newline.  `$` matches before a final newline, so with patterns that end in `$` the text 'true\n' resolves to bool (and PyYAML's
    bool constructor has no such key: KeyError), '1.5\n' to float.  Plain scalars cannot end in a newline, so C09 is not concerned;
    C08 is."""
    P = ctx.P
    r = ctx.rule(rid, 'the resolver patterns yatiml installs cannot match a text with a trailing newline (they end in \\Z, or no scalar '
                      'with such a text is ever re-resolved)', floor=1)
    m = P.modules['yatiml.loader']
    pats = []
    for n in ast.walk(m.tree):
        if isinstance(n, ast.Call) and norm(n.func) in ('re.compile', 'compile') and n.args:
            v = S._const_concat(n.args[0]) if hasattr(S, '_const_concat') else const_str(n.args[0])
            if v is not None:
                pats.append((n, v))
    if not pats:
        r.ok('no literal resolver pattern in yatiml.loader (C09 decides what the table contains)')
    for n, v in pats:
        body = v.rstrip()
        kind = 'bool' if 'true' in v else 'float' if 'inf' in v or '[0-9]' in v or '\\d' in v else 'other'
        ends_z = body.endswith('\\Z') or body.endswith('\\Z)')
        r.check(ends_z or not body.endswith('$'), 'the %s pattern does not end in `$`' % kind, 'yatiml.loader:resolver-pattern-dollar:%s' % kind,
                '%s:%d' % (m.path, n.lineno), 'the %s resolver pattern ends in `$`, which also matches before a trailing newline: a block scalar '
                'with a non-core tag below Any (`!x |` + `true`) is re-resolved by strip_tags from the text \'true\\n\', gets the %s tag, and '
                'PyYAML\'s constructor then fails (bool: KeyError) - an exception that is neither RecognitionError nor a YAML error' % (kind, kind))
    r.done()


def r08_16_format_templates(ctx, rid='R08.16'):
    """str.format interprets its receiver: `{`/`}` in it are replacement fields.  A receiver that contains text from the document or
    from a user's exception therefore raises KeyError / IndexError / ValueError while an error message is being made - the load
    fails with something that is neither a RecognitionError nor a YAML error.  Every template must be program text."""
    P = ctx.P
    r = ctx.rule(rid, 'every receiver of .format() is a template written in the program (a literal, a concatenation / conditional '
                      'of literals, or a local only ever bound to such), never text that contains data', floor=1)

    def literal(e, f, seen, use):
        if isinstance(e, ast.Constant) and isinstance(e.value, str):
            return True
        if isinstance(e, ast.BinOp) and isinstance(e.op, ast.Add):
            return literal(e.left, f, seen, use) and literal(e.right, f, seen, use)
        if isinstance(e, ast.IfExp):
            return literal(e.body, f, seen, use) and literal(e.orelse, f, seen, use)
        if isinstance(e, ast.Name):
            if e.id in seen:
                return True
            seen = seen | {e.id}
            binds = [n for n in f.walk() if isinstance(n, (ast.Assign, ast.AnnAssign, ast.AugAssign, ast.For, ast.With, ast.NamedExpr, ast.comprehension))
                     and any(isinstance(x, ast.Name) and x.id == e.id and isinstance(x.ctx, ast.Store)
                             for t in (n.targets if isinstance(n, ast.Assign) else [n.target] if not isinstance(n, ast.With)
                                       else [i.optional_vars for i in n.items if i.optional_vars is not None]) for x in ast.walk(t))]
            if not binds or e.id in f.fi.params:
                return False
            for b in binds:
                if isinstance(b, (ast.Assign, ast.AnnAssign)) and b.value is not None and isinstance(
                        b.targets[0] if isinstance(b, ast.Assign) else b.target, ast.Name):
                    if not literal(b.value, f, seen, b):
                        return False
                elif isinstance(b, ast.AugAssign) and isinstance(b.op, ast.Add):
                    if not literal(b.value, f, seen, b):
                        return False
                else:
                    return False
            return True
        return False
    n = 0
    for fi in P.yatiml_functions():
        f = None
        if fi.key.startswith(('yatiml.dumper:', 'yatiml.representers:')):
            continue        # not on the way of a load
        for c in walk_function(fi.node):
            if isinstance(c, ast.Call) and isinstance(c.func, ast.Attribute) and c.func.attr in ('format', 'format_map') \
                    and not (isinstance(c.func.value, ast.Name) and c.func.value.id in ('string', 'logger')):
                recv = c.func.value
                if isinstance(recv, ast.Constant):
                    if isinstance(recv.value, str):
                        n += 1
                    continue
                f = f or fn_of(fi)
                if not f.live(c):
                    continue
                r.check(literal(recv, f, frozenset(), c), '%s: template %s is program text' % (fi.qual, norm(recv)[:40]),
                        '%s:format-template:%s' % (fi.key, f.alpha.text(recv)[:60]), fi.loc(c),
                        'the receiver of .format() (%s) is not a literal template: it can contain text taken from the document or from '
                        'an exception raised by user code, and a `{` or `}` in that text makes .format() raise KeyError / IndexError / '
                        'ValueError instead of producing the message' % norm(recv)[:60])
    nf = sum(1 for fi in P.yatiml_functions() for x in walk_function(fi.node) if isinstance(x, ast.JoinedStr))
    r.ok('%d .format() calls on string literals, %d f-strings (their template is syntax)' % (n, nf))
    r.instances += max(0, n + nf - 1)
    r.discharged += max(0, n + nf - 1)
    r.done()


# =====================================================================================================
# C17
# =====================================================================================================

MARK_ATTRS = ('start_mark', 'end_mark')


_CURRENT_PROGRAM = [None]


def positioned(f: Fn, e: ast.AST, depth: int = 4, seen=None) -> bool:
    """the string expression contains (the text of) a source mark"""
    if e is None or depth < 0:
        return False
    if isinstance(e, ast.Attribute) and e.attr in MARK_ATTRS:
        return True
    if isinstance(e, ast.Name):
        # a caught RecognitionError is positioned by induction; locals by their definitions
        for a in S._ancestors_list(e):
            if isinstance(a, ast.ExceptHandler) and a.name == e.id:
                names = f.cfg._handler_names(a) or []
                return 'RecognitionError' in names
        if e.id == 'loc_str':
            pass
        srcs = assigned_from(f, e.id)
        augs = [n.value for n in f.walk() if isinstance(n, ast.AugAssign) and isinstance(n.target, ast.Name) and n.target.id == e.id]
        if not srcs:
            return False
        return all(positioned(f, s_, depth - 1) for s_ in srcs) or (bool(augs) and False)
    if isinstance(e, ast.Call):
        nm = call_name(e)
        if nm == 'format' and isinstance(e.func, ast.Attribute):
            return any(positioned(f, a, depth - 1) for a in e.args) or any(positioned(f, k.value, depth - 1) for k in e.keywords) \
                or positioned(f, e.func.value, depth - 1)
        if nm in ('str', 'indent', 'repr') and e.args:
            return positioned(f, e.args[0], depth - 1)
        if nm == 'format_rec_error':
            return True         # all leaves are positioned by induction (R17.1 on the leaves)
        # a message made by a helper of the package that could not be inlined (it returns from inside a loop): every message
        # the helper can return is positioned - summary of the callee, `None` (no message) aside
        P_ = _CURRENT_PROGRAM[0]
        if P_ is not None and nm and isinstance(e.func, (ast.Name, ast.Attribute)) and depth > 0:
            cands = [g for g in P_.yatiml_functions() if g.cls is None and g.qual == nm]
            if len(cands) == 1:
                memo = P_.__dict__.setdefault('_positioned_summary', {})
                if cands[0].key not in memo:
                    memo[cands[0].key] = False      # recursion guard
                    gf = fn_of(cands[0])
                    rets = [x for x in gf.returns() if not (x.value is None or (isinstance(x.value, ast.Constant) and x.value.value is None))]
                    memo[cands[0].key] = bool(rets) and not gf.falls_off_end() is None and all(
                        positioned_at(gf, x, x.value) for x in rets)
                return memo[cands[0].key]
        if nm == 'join' and e.args:
            a = e.args[0]
            elts = a.elts if isinstance(a, (ast.Tuple, ast.List)) else [a]
            return any(positioned(f, x, depth - 1) for x in elts)
        return False
    if isinstance(e, ast.JoinedStr):
        return any(isinstance(v, ast.FormattedValue) and positioned(f, v.value, depth - 1) for v in e.values)
    if isinstance(e, ast.BinOp) and isinstance(e.op, (ast.Add, ast.Mod)):
        return positioned(f, e.left, depth - 1) or positioned(f, e.right, depth - 1)
    if isinstance(e, ast.Tuple):
        return any(positioned(f, x, depth - 1) for x in e.elts)
    if isinstance(e, ast.IfExp):
        return positioned(f, e.body, depth - 1) and positioned(f, e.orelse, depth - 1)
    return False


def _nonleaf_branches(f: Fn, causes_var: Optional[str]) -> Set[int]:
    """branches on which the cause list is known to be non-empty: there the error node is not a leaf"""
    if causes_var is None:
        return set()
    return S.nonempty_branches(f, causes_var)


def positioned_at(f: Fn, use: ast.AST, e: ast.AST, causes_var: Optional[str] = None) -> bool:
    """positioned on every path: for a local that is built up by augmented assignments, require either its defining
    assignments to be positioned or an augmented assignment with a positioned operand that dominates the use"""
    if positioned(f, e):
        return True
    if isinstance(e, ast.Name):
        un = f.nid(use)
        for n in f.walk():
            if isinstance(n, ast.AugAssign) and isinstance(n.target, ast.Name) and n.target.id == e.id and positioned(f, n.value):
                if f.cfg.dominates(f.nid(n), un):
                    return True
                if f.cfg.must_pass(f.cfg.entry, un, {f.nid(n)} | _nonleaf_branches(f, causes_var)):
                    return True
        # definitions reaching the use: every assignment that can reach it without being overwritten must be positioned
        defs = [n for n in f.walk() if isinstance(n, ast.Assign) and any(isinstance(t, ast.Name) and t.id == e.id for t in n.targets)]
        reaching = []
        for d in defs:
            dn = f.nid(d)
            others = {f.nid(x) for x in defs if x is not d}
            if un in f.cfg.reachable(dn, avoid=others - {dn}):
                reaching.append(d)
        if reaching and all(positioned(f, d.value) for d in reaching):
            return True
    return False


def r17_1_positions(ctx):
    P = ctx.P
    r = ctx.rule('R17.1', 'every RecognitionError message and every leaf of a recognition error tree carries a source position '
                          '(induction over message construction)', floor=20)
    _CURRENT_PROGRAM[0] = P
    for mn in LOAD_MODULES:
        m = P.module(mn)
        for fi in sorted(m.functions.values(), key=lambda x: x.key):
            f = fn_of(fi)
            for rs in f.raises():
                if S.raise_class(rs) != 'RecognitionError':
                    continue
                arg = rs.exc.args[0] if isinstance(rs.exc, ast.Call) and rs.exc.args else None
                ok = arg is not None and positioned_at(f, rs, arg)
                r.check(ok, '%s: raise RecognitionError(%s) is positioned' % (fi.qual, norm(arg)[:50] if arg is not None else ''),
                        '%s:unpositioned-raise:%s' % (fi.key, H.exit_id(f, rs)), fi.loc(rs),
                        'RecognitionError(%s) carries no source position' % (norm(arg)[:70] if arg is not None else ''))
            if not fi.qual.startswith('Recognizer.'):
                continue
            for ret in f.returns():
                v = verdict(ret)
                if v is None or v[2] != 'ERR':
                    continue
                msg, causes = v[3].elts if len(v[3].elts) == 2 else (None, None)
                if msg is None:
                    continue
                nonempty_causes = isinstance(causes, ast.List) and len(causes.elts) >= 1
                if nonempty_causes:
                    r.ok('%s: inner error node with a non-empty cause list (leaves are positioned by induction)' % fi.qual)
                    continue
                ok = positioned_at(f, ret, msg, causes.id if isinstance(causes, ast.Name) else None)
                r.check(ok, '%s: leaf message %s is positioned' % (fi.qual, norm(msg)[:40]),
                        '%s:unpositioned-leaf:%s' % (fi.key, _msg_id(f, ret, msg)), fi.loc(ret),
                        'an error leaf (cause list %s, possibly empty) has a message without any source position: %s'
                        % (norm(causes), _msg_text(f, msg, ret)[:80]))
    # format_rec_error includes every unique leaf verbatim
    g = fn(P, 'yatiml.irecognizer:format_rec_error')
    rets = g.returns()
    ok = bool(rets) and all(ret.value is not None and ('find_leaves(' in g.alpha.text(ret.value) or any(
        isinstance(x, ast.Name) and x.id.startswith('<var:') for x in ast.walk(g.alpha.rewrite(ret.value)))) for ret in rets)
    r.check(ok, 'format_rec_error renders the unique leaves', g.key('renders-leaves'), g.loc(), 'format_rec_error does not include the leaves')
    # the accumulator that is rendered receives every leaf: a whole loop over find_leaves(<error>), each leaf appended unless it is
    # already there
    rp0 = g.fi.params[0]
    accs = set()
    for ret in rets:
        if ret.value is not None and 'find_leaves(' not in g.alpha.text(ret.value):
            accs |= {x.id for x in ast.walk(ret.value) if isinstance(x, ast.Name) and x.id not in g.fi.params and x.id in g.alpha.multi}
    for acc in sorted(accs):
        fills = [c for c in g.walk() if isinstance(c, ast.Call) and isinstance(c.func, ast.Attribute) and c.func.attr in ('append', 'add')
                 and norm(c.func.value) == acc and c.args and g.live(c)]
        okf = False
        for c in fills:
            los = [lo for lo in enclosing_loops(c, g.node) if isinstance(lo, ast.For)]
            if len(los) != 1:
                continue
            lo = los[0]
            if g.alpha.text(lo.iter) != 'find_leaves(%s)' % rp0 or norm(c.args[0]) != norm(lo.target):
                continue
            if any(isinstance(x, (ast.Break, ast.Continue, ast.Return)) for st in lo.body for x in ast.walk(st)):
                continue
            gs = {G.canon_atom(b.ast, b.pol) for b in g.cfg.guard_nodes(g.nid(c)) if any(y is lo for y in S._ancestors_list(b.ast))}
            if gs <= {('%s in %s' % (norm(lo.target), acc), False)} and all(g.cfg.dominates(g.nid(lo.iter), g.nid(ret)) for ret in rets):
                okf = True
        r.check(okf, 'format_rec_error: %s receives every leaf of the error tree (duplicates aside) before it is rendered' % acc,
                g.key('collects-leaves'), g.loc(), 'the list of causes that format_rec_error renders (%s) is not filled with every leaf of '
                'the error tree: the message can come out without any cause - and without any position' % acc)
    if not P.has_func('yatiml.irecognizer:format_rec_error.find_leaves'):
        # no separate leaf walk: it may be written out in format_rec_error itself as a loop over an explicit stack
        ok = _inline_worklist_leaf_walk(g, rp0, accs)
        r.check(ok, 'format_rec_error walks the error tree itself (explicit stack): the message of every cause-free node is collected, '
                    'every cause is pushed', g.key('find_leaves:shape'), g.loc(),
                'format_rec_error has no find_leaves and does not collect exactly the messages of the cause-free nodes with a worklist')
        r.done()
        return
    leaves = fn(P, 'yatiml.irecognizer:format_rec_error.find_leaves')
    lr = leaves.returns()
    rp = leaves.fi.params[0]
    ok = len(lr) == 2 and any(leaves.alpha.text(x.value) == '[%s[0]]' % rp and ('%s[1]' % rp, False) in {
        leaves.alpha.atom(g, p) for g, p in leaves.guards(x)} for x in lr) \
        and any(isinstance(x.value, ast.ListComp) and 'find_leaves' in norm(x.value)
                and leaves.alpha.text(x.value.generators[0].iter) == '%s[1]' % rp for x in lr)
    if not ok:
        ok = _accumulating_leaf_walk(leaves, rp)
    if not ok:
        ok = _generator_leaf_walk(leaves, rp)
    r.check(ok, 'find_leaves returns [message] for a node without causes and the leaves of all causes otherwise', leaves.key('shape'), leaves.loc(),
            'find_leaves no longer collects exactly the messages of the cause-free nodes')
    r.done()


def _inline_worklist_leaf_walk(g: Fn, rp0: str, rendered: Set[str]) -> bool:
    """`acc = []; todo = [<error>]; while todo: message, causes = todo.pop(); if causes: todo.extend(causes | reversed(causes)) else:
    acc.append(message)` - and what is rendered is made from acc"""
    whiles = [w for w in g.walk() if isinstance(w, ast.While) and isinstance(w.test, ast.Name) and not w.orelse]
    for w in whiles:
        todo = w.test.id
        inits = [n for n in g.walk() if isinstance(n, ast.Assign) and len(n.targets) == 1 and norm(n.targets[0]) == todo]
        if len(inits) != 1 or norm(inits[0].value) != '[%s]' % rp0 or not w.body:
            continue
        first = w.body[0]
        if not (isinstance(first, ast.Assign) and isinstance(first.targets[0], ast.Tuple) and len(first.targets[0].elts) == 2
                and norm(first.value) == '%s.pop()' % todo and all(isinstance(t, ast.Name) for t in first.targets[0].elts)):
            continue
        msg, causes = [t.id for t in first.targets[0].elts]
        if any(isinstance(x, (ast.Break, ast.Continue, ast.Return)) for st in w.body for x in ast.walk(st)):
            continue
        pushes = [c for st in w.body for c in ast.walk(st) if isinstance(c, ast.Call) and isinstance(c.func, ast.Attribute)
                  and norm(c.func.value) == todo and c.func.attr in ('extend', 'append')]
        adds = [c for st in w.body for c in ast.walk(st) if isinstance(c, ast.Call) and isinstance(c.func, ast.Attribute)
                and c.func.attr in ('append', 'add', 'setdefault') and isinstance(c.func.value, ast.Name) and c.func.value.id != todo and c.args
                and norm(c.args[0]) == msg]
        if len(pushes) != 1 or len(adds) != 1 or pushes[0].func.attr != 'extend' or norm(pushes[0].args[0]) not in (causes, 'reversed(%s)' % causes):
            continue
        gp = {G.canon_atom(a_, p_) for a_, p_ in g.guards(pushes[0]) if causes in norm(a_)}
        ga = {G.canon_atom(a_, p_) for a_, p_ in g.guards(adds[0]) if causes in norm(a_)}
        if not (gp <= {(causes, True)} and ga == {(causes, False)}):
            continue
        acc = adds[0].func.value.id
        # what is rendered comes from the accumulator
        flows = acc in rendered or any(isinstance(n, ast.Assign) and any(isinstance(x, ast.Name) and x.id == acc for x in ast.walk(n.value))
                                       and any(isinstance(t, ast.Name) and t.id in rendered for t in n.targets) for n in g.walk())
        if not flows:
            flows = any(acc in g.alpha.text(ret.value) or acc in norm(ret.value) for ret in g.returns() if ret.value is not None) or any(
                isinstance(n, ast.Assign) and acc in norm(n.value) for n in g.walk())
        if flows:
            return True
    return False


def _generator_leaf_walk(leaves: Fn, rp: str) -> bool:
    """the leaf walk as a generator: the message of a cause-free node is yielded, and for every cause the walk of that cause is
    yielded from; nothing else is yielded, nothing is returned"""
    a = leaves.alpha
    ys = [n for n in leaves.walk() if isinstance(n, ast.Yield) and leaves.live(n)]
    yfs = [n for n in leaves.walk() if isinstance(n, ast.YieldFrom) and leaves.live(n)]
    if len(ys) != 1 or len(yfs) != 1 or any(x.value is not None for x in leaves.returns()):
        return False
    y, yf = ys[0], yfs[0]
    if y.value is None or a.text(y.value) != '%s[0]' % rp:
        return False
    if {a.atom(g_, p_) for g_, p_ in leaves.guards(y)} != {('%s[1]' % rp, False)}:
        return False
    rc = yf.value
    if not (isinstance(rc, ast.Call) and call_name(rc) == leaves.fi.name and len(rc.args) == 1 and not rc.keywords):
        return False
    los = [lo for lo in enclosing_loops(yf, leaves.node) if isinstance(lo, ast.For)]
    if len(los) != 1 or a.text(los[0].iter) != '%s[1]' % rp or norm(rc.args[0]) != norm(los[0].target) or los[0].orelse:
        return False
    if any(isinstance(x, (ast.Break, ast.Continue, ast.Return)) for st in los[0].body for x in ast.walk(st)):
        return False
    if any(t != ('%s[1]' % rp, True) for t in {a.atom(g_, p_) for g_, p_ in leaves.guards(yf)}):
        return False
    return True


def _accumulating_leaf_walk(leaves: Fn, rp: str) -> bool:
    """the other spelling of the leaf walk: one accumulator (a parameter that defaults to None and is then made fresh, or a local)
    receives the message of exactly the cause-free nodes, the walk recurses into every cause handing the accumulator on, and the
    accumulator is what is returned"""
    a = leaves.alpha
    adds = []
    for c in leaves.walk():
        if isinstance(c, ast.Call) and isinstance(c.func, ast.Attribute) and c.func.attr in ('append', 'add', 'setdefault') and c.args \
                and isinstance(c.func.value, ast.Name) and leaves.live(c):
            adds.append((c.func.value.id, c.args[0], c))
        elif isinstance(c, ast.Assign) and len(c.targets) == 1 and isinstance(c.targets[0], ast.Subscript) \
                and isinstance(c.targets[0].value, ast.Name) and leaves.live(c):
            adds.append((c.targets[0].value.id, c.targets[0].slice, c))
    if len(adds) != 1:
        return False
    acc, what, site = adds[0]
    if a.text(what) != '%s[0]' % rp:
        return False
    if {a.atom(g_, p_) for g_, p_ in leaves.guards(site)} != {('%s[1]' % rp, False)}:
        return False
    # the accumulator: fresh when not handed in
    if acc in leaves.fi.params:
        d = leaves.fi.node.args
        pos = d.posonlyargs + d.args
        dflt = dict(zip([x.arg for x in pos[len(pos) - len(d.defaults):]], d.defaults))
        if not (acc in dflt and isinstance(dflt[acc], ast.Constant) and dflt[acc].value is None):
            return False
        fresh = [st for st in leaves.walk() if isinstance(st, ast.Assign) and len(st.targets) == 1 and isinstance(st.targets[0], ast.Name)
                 and st.targets[0].id == acc]
        if len(fresh) != 1 or not (isinstance(fresh[0].value, (ast.Dict, ast.List)) and not getattr(fresh[0].value, 'keys', getattr(fresh[0].value, 'elts', None))
                                   or (isinstance(fresh[0].value, ast.Call) and call_name(fresh[0].value) in ('dict', 'list', 'OrderedDict')
                                       and not fresh[0].value.args)):
            return False
        if {G.canon_atom(g_, p_) for g_, p_ in leaves.guards(fresh[0])} != {('%s is None' % acc, True)}:
            return False
    # recursion into every cause, accumulator handed on
    recs = [c for c in leaves.walk() if isinstance(c, ast.Call) and call_name(c) == leaves.fi.name and leaves.live(c)]
    if len(recs) != 1:
        return False
    rc = recs[0]
    los = [lo for lo in enclosing_loops(rc, leaves.node) if isinstance(lo, ast.For)]
    if len(los) != 1 or a.text(los[0].iter) != '%s[1]' % rp or not rc.args or norm(rc.args[0]) != norm(los[0].target):
        return False
    if any(isinstance(x, (ast.Break, ast.Continue, ast.Return)) for st in los[0].body for x in ast.walk(st)):
        return False
    handed = [norm(x) for x in rc.args[1:]] + [norm(k.value) for k in rc.keywords]
    if acc not in handed:
        return False
    if any(t != ('%s[1]' % rp, True) for t in {a.atom(g_, p_) for g_, p_ in leaves.guards(rc)}):
        return False
    rets = leaves.returns()
    return bool(rets) and all(x.value is not None and norm(x.value) == acc for x in rets) and not leaves.falls_off_end()


def _msg_text(f: Fn, msg: ast.AST, use: Optional[ast.AST] = None) -> str:
    srcs = [msg]
    if isinstance(msg, ast.Name) and use is not None:
        rd = reaching_defs(f, use, msg.id)
        if rd:
            srcs = [d.value for d in rd]
    else:
        srcs = S._flow_sources(f, msg)
    for s_ in srcs:
        for n in ast.walk(s_):
            if isinstance(n, ast.Constant) and isinstance(n.value, str) and len(n.value) > 8:
                return n.value
    return norm(msg)


def _msg_id(f: Fn, ret: ast.AST, msg: ast.AST) -> str:
    t = _msg_text(f, msg, ret)
    words = ''.join(ch if ch.isalnum() else '-' for ch in t[:28]).strip('-')
    return words


def must_contain(f: Fn, param: str) -> Dict[int, Set[str]]:
    """forward must-dataflow: at the entry of each cfg node, the locals that definitely contain (the text of) `param`"""
    cfg = f.cfg
    live = sorted(cfg.live())
    allv = set()
    for n in f.walk():
        if isinstance(n, ast.Name) and isinstance(n.ctx, ast.Store):
            allv.add(n.id)
    IN = {n: set(allv) for n in live}
    IN[cfg.entry] = set()

    def contains(e, S_):
        for x in ast.walk(e):
            if isinstance(x, ast.Name) and isinstance(x.ctx, ast.Load) and (x.id == param or x.id in S_):
                return True
        return False

    def transfer(nid, S_):
        node = cfg.nodes[nid]
        a = node.ast
        out = set(S_)
        if node.kind == 'stmt' and isinstance(a, ast.Assign):
            for t in a.targets:
                if isinstance(t, ast.Name):
                    if contains(a.value, S_):
                        out.add(t.id)
                    else:
                        out.discard(t.id)
        elif node.kind == 'stmt' and isinstance(a, ast.AugAssign) and isinstance(a.target, ast.Name):
            if contains(a.value, S_):
                out.add(a.target.id)
        return out
    changed = True
    while changed:
        changed = False
        for n in live:
            if n == cfg.entry:
                continue
            preds = [p for p, _ in cfg.pred[n] if p in IN]
            if not preds:
                continue
            new = set.intersection(*[transfer(p, IN[p]) for p in preds])
            if new != IN[n]:
                IN[n] = new
                changed = True
    return IN


def r17_2_key_named(ctx):
    P = ctx.P
    r = ctx.rule('R17.2', 'missing/extraneous-key messages name the key on every path; the extraneous-key error cites the key '
                          'node\'s position, the type error the value node\'s', floor=6)
    for name in ('diagnose_missing_key', 'diagnose_extraneous_key'):
        f = fn(P, 'yatiml.util:' + name)
        p = f.fi.params[0]
        IN = must_contain(f, p)
        for ret in f.returns():
            S_ = IN.get(f.nid(ret), set())
            ok = ret.value is not None and any(isinstance(x, ast.Name) and (x.id == p or x.id in S_) for x in ast.walk(ret.value))
            r.check(ok, '%s: the message returned at line %d contains the key name on every path' % (name, ret.lineno),
                    f.key('return-without-name@%s' % (f.guard_texts(ret)[-1] if f.guard_texts(ret) else 'end')), f.loc(ret),
                    '%s can return a message that does not name the key (%s)' % (name, norm(ret.value)[:50] if ret.value is not None else None))
    # callers pass the attribute name / the offending key
    for fi in P.yatiml_functions():
        f = None
        for c in walk_function(fi.node):
            if isinstance(c, ast.Call) and call_name(c) in ('diagnose_missing_key', 'diagnose_extraneous_key') and c.args:
                f = f or fn_of(fi)
                a0 = norm(c.args[0])
                loopvars = set()
                for lo in enclosing_loops(c, fi.node):
                    # in the `else:` of a loop the loop variable holds whatever alternative was tried last, not the attribute
                    if isinstance(lo, ast.For) and any(x is c for st in lo.body for x in ast.walk(st)):
                        loopvars |= {x.id for x in ast.walk(lo.target) if isinstance(x, ast.Name)}
                # ... or the text of the first key node that fails the same test (`[kn for kn, _ in node.value if kn.value not in allowed][0].value`)
                via_list = False
                e0 = c.args[0]
                if isinstance(e0, ast.Attribute) and e0.attr == 'value' and isinstance(e0.value, ast.Subscript) and isinstance(e0.value.slice, ast.Constant) \
                        and e0.value.slice.value == 0:
                    lst = e0.value.value
                    srcs = [lst] if not isinstance(lst, ast.Name) else assigned_from(f, lst.id)
                    via_list = bool(srcs) and all(_offending_key_list(x) for x in srcs)
                r.check(a0 in loopvars or via_list, '%s: %s(%s, ..) names the attribute under judgement' % (fi.qual, call_name(c), a0),
                        '%s:diagnose-arg:%s' % (fi.key, call_name(c)), fi.loc(c), '%s is called with %s, not the attribute/key being checked' % (call_name(c), a0))
    # which node's mark is cited
    f = fn(P, S.CTOR + '__type_check_attributes')
    nodep = f.fi.params[1]
    for rs in f.raises():
        if S.raise_class(rs) != 'RecognitionError' or not isinstance(rs.exc, ast.Call) or not rs.exc.args:
            continue
        txt = ' '.join(flow_texts(f, rs, rs.exc.args[0]))
        which = 0 if 'diagnose_extraneous_key' in txt else 1 if 'Expected attribute' in txt else None
        if which is None:
            continue
        recvs = _mark_receivers(f, rs, rs.exc.args[0])
        ok = bool(recvs)
        for e in recvs:
            good = False
            if isinstance(e, ast.Subscript) and isinstance(e.value, ast.Name) and isinstance(e.slice, ast.Constant) and e.slice.value == 0 \
                    and which == 0:
                # the first of the offending key nodes, collected into a list first
                srcs = assigned_from(f, e.value.id)
                good = bool(srcs) and all(_offending_key_list(x, nodep) for x in srcs)
            if isinstance(e, ast.Subscript) and isinstance(e.value, ast.ListComp) and isinstance(e.slice, ast.Constant) and e.slice.value == 0:
                lc = e.value
                g = lc.generators[0]
                if len(lc.generators) == 1 and isinstance(g.target, ast.Tuple) and len(g.target.elts) == 2 \
                        and norm(lc.elt) == norm(g.target.elts[which]) and norm(g.iter) == '%s.value' % nodep and len(g.ifs) == 1 \
                        and isinstance(g.ifs[0], ast.Compare) and isinstance(g.ifs[0].ops[0], ast.Eq) \
                        and norm(g.ifs[0].left) == '%s.value' % norm(g.target.elts[0]):
                    good = True
            ok = ok and good
        what = 'extraneous key -> the key node\'s mark' if which == 0 else 'wrong attribute type -> the value node\'s mark'
        r.check(ok, '__type_check_attributes: %s' % what, f.key('cited-node:%s' % ('key' if which == 0 else 'value')), f.loc(rs),
                'the %s error cites the position of another node than the %s node' % ('extraneous-key' if which == 0 else 'attribute-type', 'key' if which == 0 else 'value'))
    r.done()


def _offending_key_list(x: ast.AST, nodep: Optional[str] = None) -> bool:
    """`[kn for kn, _ in <node>.value if kn.value not in <allowed names>]` (or `== key`): the key nodes that fail the test, in document order"""
    if not (isinstance(x, ast.ListComp) and len(x.generators) == 1):
        return False
    g = x.generators[0]
    if not (isinstance(g.target, ast.Tuple) and len(g.target.elts) == 2 and norm(x.elt) == norm(g.target.elts[0]) and len(g.ifs) == 1):
        return False
    if nodep is not None and norm(g.iter) != '%s.value' % nodep:
        return False
    if not norm(g.iter).endswith('.value'):
        return False
    t = g.ifs[0]
    return isinstance(t, ast.Compare) and len(t.ops) == 1 and isinstance(t.ops[0], (ast.NotIn, ast.Eq)) \
        and norm(t.left) == '%s.value' % norm(g.target.elts[0])


def mark_sources(f: Fn, use: ast.AST, e: ast.AST, depth: int = 4) -> Set[str]:
    """receivers X (path-sensitive: through the definitions that reach `use`) of the X.start_mark/.end_mark reads that flow into `e`"""
    out: Set[str] = set()
    for n in ast.walk(e):
        if isinstance(n, ast.Attribute) and n.attr in MARK_ATTRS:
            out |= _node_sources(f, use, n.value, depth)
        elif isinstance(n, ast.Name) and isinstance(n.ctx, ast.Load) and depth > 0:
            for d in reaching_defs(f, use, n.id):
                if isinstance(d, ast.Assign) and len(d.targets) == 1 and isinstance(d.targets[0], ast.Name):
                    out |= mark_sources(f, d, d.value, depth - 1)
    return out


def flow_texts(f: Fn, use: ast.AST, e: ast.AST, depth: int = 4) -> List[str]:
    """source texts of `e` and of every definition that reaches it (transitively, each at its own program point)"""
    out = [norm(e)]
    if depth > 0:
        for n in ast.walk(e):
            if isinstance(n, ast.Name) and isinstance(n.ctx, ast.Load):
                for d in reaching_defs(f, use, n.id):
                    if isinstance(d, ast.Assign) and len(d.targets) == 1 and isinstance(d.targets[0], ast.Name):
                        out += flow_texts(f, d, d.value, depth - 1)
    return out


def _mark_receivers(f: Fn, use: ast.AST, e: ast.AST, depth: int = 4) -> List[ast.AST]:
    """like mark_sources, but the receiver expressions themselves (locals resolved through their reaching definitions)"""
    out: List[ast.AST] = []
    for n in ast.walk(e):
        if isinstance(n, ast.Attribute) and n.attr in MARK_ATTRS:
            out += _resolve_node(f, use, n.value, depth)
        elif isinstance(n, ast.Name) and isinstance(n.ctx, ast.Load) and depth > 0:
            for d in reaching_defs(f, use, n.id):
                if isinstance(d, ast.Assign) and len(d.targets) == 1 and isinstance(d.targets[0], ast.Name):
                    out += _mark_receivers(f, d, d.value, depth - 1)
    return out


def _resolve_node(f: Fn, use: ast.AST, e: ast.AST, depth: int) -> List[ast.AST]:
    if isinstance(e, ast.Name) and depth > 0:
        ds = [d for d in reaching_defs(f, use, e.id) if isinstance(d, ast.Assign) and len(d.targets) == 1
              and isinstance(d.targets[0], ast.Name)]
        if ds:
            out: List[ast.AST] = [e] if e.id in f.fi.params else []      # a re-bound parameter may still hold its initial value
            for d in ds:
                out += _resolve_node(f, d, d.value, depth - 1)
            return out
    return [e]


def r17_9_mark_provenance(ctx, rid='R17.9'):
    """the node whose position a loader/constructor error cites is the document's node, reached through locals of this activation"""
    P = ctx.P
    from .dumpside import LONG_LIVED
    r = ctx.rule(rid, 'positions cited by the loader and the constructors are read from the node of this activation: not from a field of '
                      'an object shared by all calls (a nested object of the same class overwrites it), and not from a node that a '
                      'savorize hook may already have replaced (make_mapping() gives it the synthetic "generated node" mark)', floor=4)
    n = 0
    for mn in ('yatiml.loader', 'yatiml.constructors'):
        for fi in P.module(mn).functions.values():
            f = None
            for rs in [x for x in walk_function(fi.node) if isinstance(x, ast.Raise)]:
                if S.raise_class(rs) != 'RecognitionError' or not isinstance(rs.exc, ast.Call) or not rs.exc.args:
                    continue
                f = f or fn_of(fi)
                if not f.live(rs):
                    continue
                for e in _mark_receivers(f, rs, rs.exc.args[0]):
                    t = norm(e)
                    n += 1
                    shared = t.startswith('self.') and fi.cls is not None and fi.cls.name in LONG_LIVED
                    # only where a hook's own failure is converted: there the position must be that of the node as it was in the
                    # document (later errors necessarily speak about the savorized node)
                    in_conv = any(isinstance(a, ast.ExceptHandler) and a.type is not None and 'SeasoningError' in norm(a.type)
                                  for a in S._ancestors_list(rs))
                    posthook = in_conv and ('.yaml_node' in t or '__savorize(' in t)
                    if posthook:
                        # a binding `v = <the call that raised>` in the protected body never happened when its handler runs
                        hs = [a for a in S._ancestors_list(rs) if isinstance(a, ast.ExceptHandler)]
                        tr = model_parent(hs[0]) if hs else None
                        if isinstance(tr, ast.Try) and any(isinstance(st, ast.Assign) and st.value is e for st in tr.body):
                            posthook = False
                    r.check(not shared and not posthook, '%s: cites %s' % (fi.qual, t[:50]), '%s:cited-node-provenance:%s' % (fi.key, t[:50]),
                            fi.loc(rs), '%s cites the position of %s: %s' % (fi.qual, t[:60], 'a field of the shared %s object, which a nested '
                            'construction of the same class overwrites before it is read' % fi.cls.name if shared else 'a node that came back '
                            'from a savorize hook - if the hook replaced it (make_mapping, set_value on a generated node) the position is '
                            'not the document\'s'))
    r.done()


def _node_sources(f: Fn, use: ast.AST, e: ast.AST, depth: int) -> Set[str]:
    if isinstance(e, ast.Name) and depth > 0 and e.id not in f.fi.params:
        ds = [d for d in reaching_defs(f, use, e.id) if isinstance(d, ast.Assign) and len(d.targets) == 1
              and isinstance(d.targets[0], ast.Name)]
        if ds:
            out: Set[str] = set()
            for d in ds:
                out |= _node_sources(f, d, d.value, depth - 1)
            return out
    return {f.alpha.text(e)}


def r17_6_cited_node(ctx, rid='R17.6'):
    """which node's position a class-recognition error cites"""
    P = ctx.P
    r = ctx.rule(rid, 'class recognition cites the right node: a missing required key and a non-mapping cite the start of the node '
                      'under judgement itself, a wrongly typed attribute cites that attribute\'s key node', floor=2)
    f = fn(P, S.REC + '__recognize_user_class')
    node = f.fi.params[1]
    for ret in f.returns():
        v = verdict(ret)
        if v is None or v[0] != 'EMPTY' or v[2] != 'ERR':
            continue
        msg = v[3].elts[0]
        txt = ' '.join(flow_texts(f, ret, msg))
        marks = mark_sources(f, ret, msg)
        if 'diagnose_missing_key' in txt:
            r.check(marks == {node}, 'missing required key: the message cites %s.start_mark (the enclosing mapping)' % node,
                    f.key('missing-key-cites'), f.loc(ret), 'the missing-key error cites the position of %s instead of the start of '
                    'the mapping under judgement (%s)' % (sorted(marks), node))
        elif 'Expected a dict/mapping' in txt:
            r.check(marks == {node}, 'not a mapping: the message cites %s.start_mark' % node, f.key('not-a-mapping-cites'), f.loc(ret),
                    'the not-a-mapping error cites %s' % sorted(marks))
        elif 'Error in attribute' in txt:
            okk = len(marks) == 1 and next(iter(marks)).startswith('[') and next(iter(marks)).endswith('][0]') \
                and '%s.value' % node in next(iter(marks)) and '[0]' in next(iter(marks))
            r.check(okk, 'wrong attribute type: the message cites the key node of that attribute', f.key('attribute-error-cites'), f.loc(ret),
                    'the attribute error cites %s, not the key node of the attribute' % sorted(marks))
    r.done()


def r17_3_real_marks(ctx):
    P = ctx.P
    r = ctx.rule('R17.3', 'marks cited in load-path messages are read from nodes of the document, never constructed', floor=1)
    n = 0
    for mn in LOAD_MODULES:
        for x in ast.walk(P.module(mn).tree):
            if isinstance(x, ast.Call) and call_name(x) == 'Mark':
                r.fail('%s:constructed-mark' % mn, '%s:%d' % (P.module(mn).path, x.lineno), 'a Mark is constructed in the load path')
            if isinstance(x, ast.Attribute) and x.attr in MARK_ATTRS and isinstance(x.ctx, ast.Load):
                n += 1
    r.ok('%d mark reads in the load path, no constructed Mark (control: Mark(..) calls exist in helpers.py: %d)' % (
        n, sum(1 for x in ast.walk(P.module('yatiml.helpers').tree) if isinstance(x, ast.Call) and call_name(x) == 'Mark')))
    r.done()


def _verdict_vars_of(f: Fn, use: ast.AST, err: str) -> List[Tuple[str, ast.AST]]:
    """(verdict variable, binding statement) for every tuple assignment `V, err = <recognise call>` reaching `use`"""
    out = []
    for d in reaching_defs(f, use, err):
        if isinstance(d, ast.Assign) and isinstance(d.targets[0], ast.Tuple) and len(d.targets[0].elts) == 2 \
                and norm(d.targets[0].elts[1]) == err and isinstance(d.value, ast.Call) \
                and call_name(d.value) in ('recognize', '__recognize_user_classes', '__recognize_user_class'):
            out.append((norm(d.targets[0].elts[0]), d))
        else:
            out.append((None, d))
    return out


def _card_of_binding(f: Fn, use: ast.AST, vv: str, binding: ast.AST) -> Set[int]:
    """admitted len(vv) at `use`; if vv is re-bound between its binding and the use (e.g. a comprehension that maps the set),
    the cardinality known where it is re-bound is used (the mapping keeps the cardinality class 0 / non-0)"""
    rebinds = [d for d in reaching_defs(f, use, vv) if d is not binding]
    if not rebinds:
        return f.card(use, vv)
    adm = set()
    for d in rebinds:
        adm |= f.card(d.value, vv)
    return adm


def r17_5_error_of_the_empty_verdict(ctx):
    P = ctx.P
    r = ctx.rule('R17.5', 'a REJECT that forwards a child\'s error forwards the error of the child whose verdict is empty', floor=3)
    for q in ('__recognize_list', '__recognize_dict', '__recognize_union', '__recognize_user_classes', '__recognize_user_class'):
        f = fn(P, S.REC + q)
        for ret in f.returns():
            v = verdict(ret)
            if v is None:
                continue
            sk, s_, ek, e = v
            errs = []
            if ek == 'VAR':
                errs = [norm(e)]
            elif ek == 'ERR' and isinstance(e.elts[1], ast.List):
                errs = [norm(x) for x in e.elts[1].elts if isinstance(x, ast.Name)]
            for en in errs:
                for vv, d in _verdict_vars_of(f, ret, en):
                    if vv is None:
                        continue
                    adm = _card_of_binding(f, ret, vv, d)
                    if sk == 'EMPTY':
                        r.check(adm == {0}, '%s: REJECT forwards %s, the error of the empty verdict %s' % (q, en, vv),
                                f.key('forwarded-error:%s' % en), f.loc(ret),
                                '%s rejects and forwards %s although the verdict it belongs to (%s) is not the empty one (len in %s): the '
                                'message shown is that of a child that matched (REC_OK: empty text)' % (q, en, vv, sorted(adm)))
                    elif sk in ('COMP', 'VAR') and ek == 'VAR':
                        r.check(0 not in adm, '%s: ambiguity forwards %s of the ambiguous verdict %s' % (q, en, vv), f.key('forwarded-error:%s' % en),
                                f.loc(ret), '%s forwards %s for a verdict that may be empty' % (q, en))
    for q in ('__recognize_union', '__recognize_user_classes'):
        f = fn(P, S.REC + q)
        # the accumulator of causes: whatever local receives `.append(<error of a child judgement>)`
        apps = [c for c in f.walk() if isinstance(c, ast.Call) and isinstance(c.func, ast.Attribute) and c.func.attr == 'append'
                and isinstance(c.func.value, ast.Name) and len(c.args) == 1 and isinstance(c.args[0], ast.Name)
                and any(vv is not None for vv, d in _verdict_vars_of(f, c, c.args[0].id))]
        for c in apps:
            en = norm(c.args[0])
            vs = _verdict_vars_of(f, c, en)
            ok = bool(vs) and all(vv is not None and f.card(c, vv) == {0} for vv, d in vs)
            r.check(ok, '%s: causes.append(%s) under len(%s) == 0' % (q, en, [vv for vv, d in vs]), f.key('cause:%s@%d' % (en, apps.index(c))),
                    f.loc(c), '%s records %s as a cause although its verdict is not (known to be) empty' % (q, en))
        # ... and the error of every child judgement is recorded: each `V, e = <recognise ...>` binding reaches a causes.append(e)
        # (R17.1 shows that format_rec_error renders exactly the leaves of this list: an error that is not recorded is not shown)
        # (not the descent into registered subclasses: C17 speaks about places where no derived class offers another reading)
        binds = [d for d in f.walk() if isinstance(d, ast.Assign) and isinstance(d.targets[0], ast.Tuple) and len(d.targets[0].elts) == 2
                 and isinstance(d.value, ast.Call) and call_name(d.value) in ('recognize', '__recognize_user_class')
                 and isinstance(d.targets[0].elts[1], ast.Name)]
        for i, d in enumerate(binds):
            en = d.targets[0].elts[1].id
            rec = [c for c in apps if c.args and norm(c.args[0]) == en and any(x is d for x in reaching_defs(f, c, en))]
            r.check(bool(rec), '%s: the error of %s(...) is recorded as a cause' % (q, call_name(d.value)),
                    f.key('cause-recorded:%s@%d' % (call_name(d.value), i)), f.loc(d),
                    '%s never records the error returned by %s(...) in the list of causes: when that child is the one that rejected, '
                    'its message (the position and the key it names) is missing from the RecognitionError' % (q, call_name(d.value)))
    # the single-candidate recognisers: where the judgement of a child (an item, a key, a value, an attribute) came back empty, the
    # rejection that follows carries that child's error - as the error itself or among the causes.  Without it the message ends at
    # the outer position ("Error in attribute ..." is not a leaf and is never shown) and names neither the node nor the key.
    for q in ('__recognize_list', '__recognize_dict', '__recognize_user_class'):
        f = fn(P, S.REC + q)
        binds = [d for d in f.walk() if isinstance(d, ast.Assign) and isinstance(d.targets[0], ast.Tuple) and len(d.targets[0].elts) == 2
                 and isinstance(d.value, ast.Call) and call_name(d.value) == 'recognize' and all(isinstance(x, ast.Name) for x in d.targets[0].elts)]
        for i_, d in enumerate(binds):
            vv, en = d.targets[0].elts[0].id, d.targets[0].elts[1].id
            for ret in f.returns():
                v = verdict(ret)
                if v is None or v[0] != 'EMPTY':
                    continue
                if not any(x is d for x in reaching_defs(f, ret, vv)) or f.card(ret, vv) != {0}:
                    continue
                names = {x.id for x in ast.walk(v[3]) if isinstance(x, ast.Name)}
                for x in list(names):
                    names |= {y.id for s_ in assigned_from(f, x) for y in ast.walk(s_) if isinstance(y, ast.Name)}
                r.check(en in names, '%s: the rejection after an empty verdict of a child carries the child\'s error %s' % (q, en),
                        f.key('child-error-dropped:%s@%d' % (vv, i_)), f.loc(ret),
                        '%s rejects because the judgement of a child came back empty (len(%s) == 0) but returns an error that does not contain '
                        'the child\'s error %s: the message stops at the outer node - the place and the key the child named are lost'
                        % (q, vv, en))
    r.done()
