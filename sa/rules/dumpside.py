"""Rules over the dump side and over shared state: C06, C07, C11 (effects, registrations, emitter table)."""
import ast
from typing import Dict, List, Optional, Set, Tuple

from ..model import AnalysisError, Program, ClassInfo, FunctionInfo, walk_function, dotted_name, parent
from ..guards import norm, call_name, const_str, kwarg, isinstance_atom
from ..facts import Fn, CORE, MUTATORS, assigned_from, enclosing_loops, str_format_const
from ..effects import world, call_closure, direct_writes, WriteEvent
from .. import guards as G
from . import shared as S
from .shared import fn, fn_of, yaml_calls, factory_of, DUMP_FACTORIES, REPRESENTER_ROOTS

# objects that outlive a call: created at factory time and stored in class tables / closures
LONG_LIVED = {'Constructor', 'EnumConstructor', 'UserStringConstructor', 'PathConstructor', 'Representer',
              'EnumRepresenter', 'UserStringRepresenter', 'PathRepresenter', 'LoadFunction', 'DumpFunction',
              'DumpsFunction', 'DumpJsonFunction', 'DumpsJsonFunction'}
# per-call objects: PyYAML instantiates one Loader/Dumper per yaml.load/yaml.dump call
PER_CALL = {'Loader', 'Dumper', 'Recognizer', 'Node', 'UnknownNode', 'UserLoader', 'UserDumper'}

LOAD_ROOTS = ['yatiml.loader:load_function.LoadFunction.__call__', 'yatiml.loader:Loader.__init__',
              'yatiml.loader:Loader.get_single_node', 'yatiml.loader:Loader.get_node',
              'yatiml.constructors:Constructor.__call__', 'yatiml.constructors:EnumConstructor.__call__',
              'yatiml.constructors:UserStringConstructor.__call__', 'yatiml.constructors:PathConstructor.__call__']
DUMP_ROOTS = REPRESENTER_ROOTS + ['yatiml.dumper:%s.%s.__call__' % (a, b) for a, b in (
    ('dumps_function', 'DumpsFunction'), ('dump_function', 'DumpFunction'), ('dumps_json_function', 'DumpsJsonFunction'),
    ('dump_json_function', 'DumpJsonFunction'))]
HELPER_ROOTS_PREFIX = ('yatiml.helpers:Node.', 'yatiml.helpers:UnknownNode.')


def _ev_key(ev: WriteEvent) -> str:
    tgt = ev.node
    if isinstance(tgt, ast.Call):
        txt = norm(tgt.func)
    else:
        txt = norm(tgt)
    return '%s:%s' % (ev.fi.key, txt)


def call_time_functions(P: Program) -> List[FunctionInfo]:
    W = world(P)
    roots = [k for k in LOAD_ROOTS + DUMP_ROOTS if P.has_func(k)]
    missing = [k for k in LOAD_ROOTS + DUMP_ROOTS if not P.has_func(k)]
    if missing:
        raise AnalysisError('anchor missing: %s' % missing)
    helper = [fi.key for fi in P.yatiml_functions() if fi.key.startswith(HELPER_ROOTS_PREFIX)]
    return call_closure(W, roots + helper)


# =====================================================================================================
# C06
# =====================================================================================================

def r06_1_plain_tags(ctx):
    P = ctx.P
    r = ctx.rule('R06.1', 'representers build nodes with plain core tags only (map/str); OrderedDict is represented as a plain '
                          'dict', floor=5)
    m = P.module('yatiml.representers')
    for q, fi in sorted(m.functions.items()):
        f = fn_of(fi)
        for c in f.walk():
            if not isinstance(c, ast.Call):
                continue
            nm = call_name(c)
            tag = None
            if nm in ('represent_mapping', 'represent_scalar', 'represent_sequence') and c.args:
                tag = c.args[0]
            elif nm in ('ScalarNode', 'MappingNode', 'SequenceNode') and c.args:
                tag = c.args[0]
            elif nm in ('represent_str', 'represent_dict', 'represent_list', 'represent_int', 'represent_float', 'represent_bool',
                        'represent_none'):
                r.ok('%s: %s(..) (PyYAML core representer)' % (q, nm))
                continue
            elif nm in ('represent_object', 'represent_name', 'represent_module', 'represent_undefined', 'represent_data'):
                r.fail('%s:%s' % (fi.key, nm), fi.loc(c), '%s is used: python-specific tags would be emitted' % nm)
                continue
            if tag is not None:
                t = const_str(f.copies.expand(tag))
                want = {'represent_mapping': 'map', 'MappingNode': 'map', 'represent_sequence': 'seq', 'SequenceNode': 'seq'}.get(nm)
                ok = t is not None and t.startswith(CORE) and (want is None or t == CORE + want) \
                    and (want is not None or t == CORE + 'str')
                r.check(ok, '%s: %s(%r, ..)' % (q, nm, t), '%s:%s:tag' % (fi.key, nm), fi.loc(c),
                        '%s builds a node tagged %s: dumps must carry plain core tags only' % (q, t if t is not None else norm(tag)))
    # any '!...' literal in the dump path
    for mod in ('yatiml.representers', 'yatiml.dumper'):
        for n in ast.walk(P.module(mod).tree):
            if isinstance(n, ast.Constant) and isinstance(n.value, str) and n.value.startswith('!') and len(n.value) > 1 \
                    and not isinstance(parent(n), ast.Expr):
                r.fail('%s:bang-literal:%s' % (mod, n.value[:20]), '%s:%d' % (P.module(mod).path, n.lineno),
                       'a "!" tag literal %r appears in the dump path' % n.value)
    d = P.func('yatiml.dumper:Dumper.represent_ordereddict')
    body = [st for st in d.node.body if not (isinstance(st, ast.Expr) and (isinstance(st.value, ast.Constant) or (
        isinstance(st.value, ast.Call) and norm(st.value.func).startswith(('logger.', 'logging.')))))]
    ok = len(body) == 1 and isinstance(body[0], ast.Return) and norm(body[0].value) in (
        'self.represent_dict(%s)' % d.params[1], 'yaml.SafeDumper.represent_dict(self, %s)' % d.params[1])
    r.check(ok, 'represent_ordereddict delegates to represent_dict', d.key + ':delegation', d.loc(),
            'OrderedDict is no longer represented as a plain dict (!!omap / python tags)')
    regs = dict(S.module_representers(P))
    r.check(regs.get('OrderedDict') == 'Dumper.represent_ordereddict', 'Dumper.add_representer(OrderedDict, '
            'Dumper.represent_ordereddict) at module level', 'yatiml.dumper:Dumper:ordereddict-registration', 'yatiml/dumper.py',
            'OrderedDict is not registered with the plain-dict representer on yatiml.Dumper')
    r.done()


def r06_2_order(ctx):
    P = ctx.P
    r = ctx.rule('R06.2', 'order is never re-sorted: Dumper.__init__ passes sort_keys=False; the attribute mapping is built in '
                          'declaration order, extras after', floor=5)
    f = fn(P, 'yatiml.dumper:Dumper.__init__')
    base = P.func('yaml.dumper:SafeDumper.__init__')
    bparams = base.params
    if 'sort_keys' not in bparams:
        raise AnalysisError('SafeDumper.__init__ has no sort_keys parameter')
    idx = bparams.index('sort_keys')
    calls = [c for c in f.walk() if isinstance(c, ast.Call) and call_name(c) == '__init__']
    if not calls:
        r.fail(f.key('no-base-init'), f.loc(), 'Dumper.__init__ does not call SafeDumper.__init__')
    for c in calls:
        explicit_self = isinstance(c.func.value, (ast.Attribute, ast.Name)) and norm(c.func.value) in ('yaml.SafeDumper', 'SafeDumper')
        args = list(c.args)
        pos = idx if explicit_self else idx - 1
        v = kwarg(c, 'sort_keys')
        if v is None and len(args) > pos:
            v = args[pos]
        fixed_false = isinstance(v, ast.Constant) and v.value is False
        if not fixed_false and v is not None:
            # `sort_keys if <switch> else False`: the caller's choice is honoured - fine when every yaml.dump site of the package
            # passes sort_keys explicitly from a parameter that defaults to False (PyYAML's own default is True)
            arms = [v.body, v.orelse] if isinstance(v, ast.IfExp) else [v]
            own_param = 'sort_keys' in f.fi.params
            arms_ok = own_param and all((isinstance(a_, ast.Constant) and a_.value is False) or norm(a_) == 'sort_keys' for a_ in arms)
            sites_ok = True
            n_sites = 0
            for fi2, c2 in S.yaml_calls(P, 'dump') + S.yaml_calls(P, 'dump_all'):
                n_sites += 1
                kv = kwarg(c2, 'sort_keys')
                a2 = fi2.node.args
                dflt = {}
                pos2 = a2.posonlyargs + a2.args
                for p_, d_ in zip(pos2[len(pos2) - len(a2.defaults):], a2.defaults):
                    dflt[p_.arg] = d_
                for p_, d_ in zip(a2.kwonlyargs, a2.kw_defaults):
                    if d_ is not None:
                        dflt[p_.arg] = d_
                if not (isinstance(kv, ast.Name) and kv.id in dflt and isinstance(dflt[kv.id], ast.Constant) and dflt[kv.id].value is False):
                    sites_ok = False
            fixed_false = arms_ok and sites_ok and n_sites > 0
        r.check(fixed_false, 'SafeDumper.__init__(.., sort_keys=False) (position %d)' % idx,
                f.key('sort_keys'), f.loc(c), 'sort_keys is %s: mapping keys are re-sorted and attribute order is lost'
                % (norm(v) if v is not None else 'left to the default (True)'))
    # no sorting in the dump path
    W = world(P)
    for fi in call_closure(W, REPRESENTER_ROOTS):
        for n in walk_function(fi.node):
            if isinstance(n, ast.Call) and (call_name(n) in ('sorted',) or (isinstance(n.func, ast.Attribute) and n.func.attr in ('sort', 'reverse'))):
                r.fail('%s:%s' % (fi.key, norm(n.func)), fi.loc(n), '%s in the dump path re-orders data' % norm(n.func))
            if isinstance(n, ast.Call) and call_name(n) in ('set', 'frozenset') and n.args:
                r.fail('%s:set-of-attributes' % fi.key, fi.loc(n), 'a set is built from %s in the dump path: order is lost' % norm(n.args[0]))
    r.ok('no sorted()/.sort()/set(..) in the %d functions of the dump path' % len(call_closure(W, REPRESENTER_ROOTS)))
    # Representer.__call__: the attribute mapping
    g = fn(P, 'yatiml.representers:Representer.__call__')
    data = g.fi.params[2]
    rm = [c for c in g.calls('represent_mapping') if g.live(c)]
    if not rm:
        r.fail(g.key('no-represent-mapping'), g.loc(), 'Representer.__call__ does not represent a mapping')
    for c in rm:
        a = c.args[1] if len(c.args) > 1 else None
        srcs = [norm(x) for x in S._flow_sources(g, a)] if a is not None else []
        od = [x for x in S._flow_sources(g, a) if isinstance(x, ast.Call) and call_name(x) == 'OrderedDict'] if a is not None else []
        custom = any(x == '%s._yatiml_attributes()' % data for x in srcs)
        # whatever _yatiml_attributes() returns is what is dumped; only None (no dict at all) is refused - an empty dict is a value
        from ..facts import reaching_defs as _rd
        from ..guards import canon_atom as _ca
        for rs in g.raises():
            mine = []
            for a_, p_ in g.guards(rs):
                for nm in {x.id for x in ast.walk(a_) if isinstance(x, ast.Name)}:
                    ds = _rd(g, rs, nm)
                    if any(isinstance(d, ast.Assign) and isinstance(d.value, ast.Call) and call_name(d.value) == '_yatiml_attributes' for d in ds):
                        t_, pol_ = _ca(a_, p_)
                        mine.append((t_.replace(nm, '<attributes>'), pol_))
                if '_yatiml_attributes()' in norm(a_):
                    t_, pol_ = _ca(a_, p_)
                    mine.append((t_.replace('%s._yatiml_attributes()' % data, '<attributes>'), pol_))
            if mine:
                r.check(set(mine) == {('<attributes> is None', True)}, 'the result of _yatiml_attributes() is refused exactly when it is None',
                        g.key('attributes-none-test'), g.loc(rs), 'Representer.__call__ refuses the result of _yatiml_attributes() under %s: e.g. an '
                        'empty dict, which should be dumped as {}' % sorted(set(mine)))
        # E11b: what the mapping holds on the path without _yatiml_attributes(), whatever the spelling (pair list + OrderedDict,
        # insert loop + update, ...): the parameters of __init__ (minus self, minus _yatiml_extra) with their attribute values, in
        # order, then - when the class takes _yatiml_extra - the entries of that mapping
        from ..dictflow import OrderedFlow, cond_truth, K as _K
        e11 = False
        if isinstance(a, ast.Name):
            F = OrderedFlow(g.fi.node, g.alpha)
            v_ = F.env.get(a.id)
            if v_ is not None and a.id not in F.bad and v_.kind == 'OrderedDict' and len(v_.parts) == 2:
                A_, B_ = sorted(v_.parts, key=lambda p_: p_.seq)
                names_src = 'inspect.getfullargspec(%s.__init__).args[1:]' % data
                no_custom = ("hasattr(%s, '_yatiml_attributes')" % data, False)
                okA = (not A_.whole and A_.source == names_src and A_.key == _K and A_.value == 'getattr(%s, %s)' % (data, _K)
                       and cond_truth(A_.cond, '_yatiml_extra', {}) is False and cond_truth(A_.cond, 'some_name', {}) is True
                       and cond_truth(A_.cond, 'self', {}) is True and A_.when == (no_custom,))
                okB = (B_.whole and B_.source == '%s._yatiml_extra' % data
                       and B_.when == (no_custom, ("'_yatiml_extra' in %s" % names_src, True)))
                e11 = okA and okB and not any(F.bad.get(x) for x in F.env)
        if e11 and custom:
            r.ok('the mapping is %s._yatiml_attributes() or an OrderedDict of the attribute pairs (E11b)' % data)
            r.ok('attribute pairs = (name, getattr(%s, name)) for the parameters of __init__ after self, minus _yatiml_extra, in order (E11b)' % data)
            r.ok('extras (%s._yatiml_extra entries) come after the parameters, when the class takes _yatiml_extra (E11b)' % data)
            continue
        r.check(custom and bool(od), 'the mapping is %s._yatiml_attributes() or an OrderedDict of the attribute pairs' % data,
                g.key('mapping-source'), g.loc(c), 'the represented mapping is %s' % srcs[:3])
        for o in od:
            lst = o.args[0] if o.args else None
            comps = [x for x in S._flow_sources(g, lst) if isinstance(x, ast.ListComp)] if lst is not None else []
            ok = False
            why = 'the attribute list is not a comprehension over the constructor parameters'
            for cp in comps:
                gen = cp.generators[0]
                it = g.copies.xnorm(gen.iter)
                names_ok = it in ('list(inspect.getfullargspec(%s.__init__).args[1:])' % data,
                                  'inspect.getfullargspec(%s.__init__).args[1:]' % data)
                nv = norm(gen.target)
                elt_ok = isinstance(cp.elt, ast.Tuple) and len(cp.elt.elts) == 2 and norm(cp.elt.elts[0]) == nv \
                    and norm(cp.elt.elts[1]) == 'getattr(%s, %s)' % (data, nv)
                ifs = [norm(x) for x in gen.ifs]
                if_ok = ifs == ["%s != '_yatiml_extra'" % nv]
                if not names_ok:
                    why = 'attribute names come from %s, not from the __init__ signature (minus self) of the object' % it
                elif not elt_ok:
                    why = 'attribute pairs are %s, not (name, getattr(%s, name))' % (norm(cp.elt), data)
                elif not if_ok:
                    why = 'attributes are filtered by %s (only _yatiml_extra may be left out)' % ifs
                else:
                    ok = True
            r.check(ok, 'attribute pairs = [(name, getattr(%s, name)) for name in getfullargspec(%s.__init__).args[1:] if name != '
                    '"_yatiml_extra"]' % (data, data), g.key('attribute-pairs'), g.loc(o), why)
            # extras appended after, under the guard that the class takes _yatiml_extra
            ext = [n for n in g.walk() if isinstance(n, ast.Call) and isinstance(n.func, ast.Attribute) and n.func.attr == 'extend'
                   and lst is not None and norm(n.func.value) == norm(lst)]
            okx = any(n.args and norm(n.args[0]) == '%s._yatiml_extra.items()' % data
                      and any("'_yatiml_extra' in" in t and not t.startswith('not ') for t in g.guard_texts(n))
                      and g.nid(o) in g.cfg.reachable(g.nid(n)) and g.nid(n) not in g.cfg.reachable(g.nid(o))
                      and not enclosing_loops(n, g.node) for n in ext)
            # an OrderedDict built on the path where the class takes no _yatiml_extra has nothing to append
            no_extra_path = any("'_yatiml_extra' in" in t and t.startswith('not ') for t in g.guard_texts(o)) and len(od) > 1
            okx = okx or (no_extra_path and len(ext) == 1)
            r.check(okx and len(ext) == 1, 'extras (%s._yatiml_extra.items()) are appended after the parameters' % data,
                    g.key('extras-appended'), g.loc(o), 'extra attributes are not appended (once, in order) after the constructor '
                    'parameters')
    r.done()


def r06_3_purity(ctx, rid='R06.3'):
    P = ctx.P
    r = ctx.rule(rid, 'dumping writes nothing reachable from the dumped object, and nothing into objects that outlive the call',
                 floor=4)
    W = world(P)
    fis = call_closure(W, REPRESENTER_ROOTS)
    n = 0
    for ev in direct_writes(W, fis):
        cls = ev.fi.cls.name if ev.fi.cls is not None else None
        bad = None
        for root in ev.roots:
            if root.startswith('param:') and root.split(':')[1].split('.')[0] in ('data', 'path', 'obj', 'class_', 'cls'):
                bad = 'the dumped object / its class (%s)' % root
            elif root.startswith('self') and cls in LONG_LIVED and ev.fi.name != '__init__':
                bad = 'a field of the representer, which is shared by all dumps of this function (%s)' % root
            elif root.startswith(('global:', 'class:', 'closure:')):
                bad = 'shared state (%s)' % root
        if bad:
            r.fail(_ev_key(ev), ev.fi.loc(ev.node), '%s (%s) writes %s' % (norm(ev.node)[:60], ev.how, bad))
        else:
            n += 1
    r.ok('%d functions reachable from the representers; %d direct writes, all to per-call objects (Dumper instance fields, '
         'fresh nodes)' % (len(fis), n))
    for fi in fis:
        r.ok('analysed %s' % fi.key) if fi.key.startswith('yatiml.representers') else None
    # determinism: no set iteration / id / hash / time / random
    for fi in fis:
        for c in walk_function(fi.node):
            if isinstance(c, ast.Call) and call_name(c) in ('id', 'hash', 'time', 'random', 'uuid4', 'getrandbits', 'now', 'today'):
                r.fail('%s:nondeterministic:%s' % (fi.key, call_name(c)), fi.loc(c), '%s() in the dump path' % call_name(c))
    r.done()


def dispatch_list(P: Program, key: str) -> List[Tuple[str, str]]:
    """decision list of add_to_loader / add_to_dumper: [(guard text or 'else', registered callable class)]"""
    f = fn(P, key)
    out = []
    for name in ('add_constructor', 'add_representer'):
        for c in f.calls(name):
            if not f.live(c) or len(c.args) != 2:
                continue
            loop = [l for l in enclosing_loops(c, f.node) if isinstance(l, ast.For)]
            lv = norm(loop[0].target) if loop else None
            inner = sorted(G.canon_atom(b.ast, b.pol) for b in f.cfg.guard_nodes(f.nid(c))
                           if loop and any(x is loop[0] for x in S._ancestors_list(b.ast)))
            ctor = c.args[1]
            if isinstance(ctor, ast.Name):
                # the callable was chosen earlier and is passed through a local: one arm per definition that reaches the call
                from ..facts import reaching_defs
                for d in reaching_defs(f, c, ctor.id):
                    v = d.value
                    g2 = sorted(G.canon_atom(b.ast, b.pol) for b in f.cfg.guard_nodes(f.nid(d))
                                if loop and any(x is loop[0] for x in S._ancestors_list(b.ast)))
                    cn = v.func.id if isinstance(v, ast.Call) and isinstance(v.func, ast.Name) else norm(v)
                    ok2 = isinstance(v, ast.Call) and len(v.args) == 1 and norm(v.args[0]) == lv
                    out.append((tuple(sorted(set(inner) | set(g2))), cn, ok2, c, lv))
                continue
            cname = ctor.func.id if isinstance(ctor, ast.Call) and isinstance(ctor.func, ast.Name) else norm(ctor)
            arg_ok = isinstance(ctor, ast.Call) and len(ctor.args) == 1 and norm(ctor.args[0]) == lv
            out.append((tuple(inner), cname, arg_ok, c, lv))
    out.sort(key=lambda x: x[3].lineno)
    return out


def r05_2_dispatch(ctx, rid='R05.2'):
    P = ctx.P
    r = ctx.rule(rid, 'add_to_loader and add_to_dumper are the same decision list (enum, then string-like, then class) and pair '
                      'up constructor and representer kinds', floor=4)
    lo = dispatch_list(P, 'yatiml.loader:add_to_loader')
    du = dispatch_list(P, 'yatiml.dumper:add_to_dumper')
    pairs = {'EnumConstructor': 'EnumRepresenter', 'UserStringConstructor': 'UserStringRepresenter', 'Constructor': 'Representer'}
    r.check(len(lo) == 3 and len(du) == 3, '3 arms on each side', 'yatiml:add_to_*:arms', 'yatiml/loader.py',
            'add_to_loader has %d arms, add_to_dumper %d' % (len(lo), len(du)))
    for side, lst, kinds in (('loader', lo, ['EnumConstructor', 'UserStringConstructor', 'Constructor']),
                             ('dumper', du, ['EnumRepresenter', 'UserStringRepresenter', 'Representer'])):
        by_kind = {cname: (guards, arg_ok, c, lv) for guards, cname, arg_ok, c, lv in lst}
        for i, kind in enumerate(kinds):
            if kind not in by_kind:
                r.fail('yatiml.%s:add_to_%s:arm%d' % (side, side, i), 'yatiml/%s.py' % side, 'add_to_%s never registers a %s' % (side, kind))
                continue
            guards, arg_ok, c, lv = by_kind[kind]
            e, sl = 'issubclass(%s, enum.Enum)' % lv, 'is_string_like(%s)' % lv
            exp = sorted([[(e, True)], [(e, False), (sl, True)], [(e, False), (sl, False)]][i])
            ok = list(guards) == exp and arg_ok
            r.check(ok, 'add_to_%s arm %d: %s -> %s(%s)' % (side, i, exp, kind, lv),
                    'yatiml.%s:add_to_%s:arm%d' % (side, side, i), 'yatiml/%s.py:%d' % (side, c.lineno),
                    'add_to_%s registers %s under %s; expected under %s (enum before string-like before class on both '
                    'sides: a class that is both, e.g. class C(str, Enum), must get matching constructor and representer)'
                    % (side, kind, list(guards), exp))
    lo = sorted(lo, key=lambda x: x[0])
    du = sorted(du, key=lambda x: x[0])
    for (g1, c1, _, _, _), (g2, c2, _, _, _) in zip(lo, du):
        r.check(pairs.get(c1) == c2, '%s <-> %s' % (c1, c2), 'yatiml:add_to_*:pair:%s' % c1, 'yatiml/dumper.py',
                'constructor %s is paired with representer %s' % (c1, c2))
    r.done()


# =====================================================================================================
# C11
# =====================================================================================================

EXEMPT_CALLTIME_WRITES = {
    # the stored loader is used only for resolve() within the same call; every loader that can share this Constructor is an
    # instance of one UserLoader class with identical per-instance resolver tables (R11.3), so a racing overwrite cannot
    # change any result
    'yatiml.constructors:Constructor.__call__:self.__loader': 'loader handle used within the same call only',
}


def r11_1_calltime_writes(ctx, rid='R11.1', modules=None, floor=5):
    """modules: restrict the report to constructs of these yatiml modules (C07 only speaks about the dump side)"""
    P = ctx.P
    keep = (lambda modname: True) if modules is None else (lambda modname: modname in modules)
    r = ctx.rule(rid, 'no call-time write to state that outlives the call (module globals, class attributes, fields of '
                          'objects created at factory time, class-level mutable defaults)', floor=floor)
    W = world(P)
    fis = call_time_functions(P)
    n_ok = 0
    for ev in direct_writes(W, fis):
        cls = ev.fi.cls.name if ev.fi.cls is not None else None
        k = _ev_key(ev)
        bad = None
        if not keep(ev.fi.module.name):
            continue
        for root in ev.roots:
            if root.startswith(('global:', 'class:')):
                bad = 'module/class level state %s' % root
            elif root.startswith('closure:'):
                # a local of the enclosing function.  It outlives a call only if the nested function does: when the enclosing function
                # merely *calls* its helper (the name appears nowhere but as the callee, recursion included) the variable is as
                # per-call as any other local of the enclosing call
                par = ev.fi.parent
                escapes = True
                if par is not None and ev.fi.cls is None:
                    nm = ev.fi.node.name
                    callees = {id(c.func) for c in walk_function(par.node, nested=True) if isinstance(c, ast.Call)} if False else None
                    refs = [n for n in ast.walk(par.node) if isinstance(n, ast.Name) and n.id == nm and isinstance(n.ctx, ast.Load)]
                    called = {id(c.func) for c in ast.walk(par.node) if isinstance(c, ast.Call) and isinstance(c.func, ast.Name)}
                    escapes = not refs or any(id(n) not in called for n in refs)
                if escapes:
                    bad = 'a closure variable of the factory (%s)' % root
            elif root.startswith('self') and cls in LONG_LIVED and ev.fi.name != '__init__':
                bad = 'field %s of a %s, which is created once per load/dump function and shared by all its calls' % (root, cls)
        if bad and k in EXEMPT_CALLTIME_WRITES:
            r.ok('exempt: %s (%s)' % (k, EXEMPT_CALLTIME_WRITES[k]))
        elif bad:
            r.fail(k, ev.fi.loc(ev.node), '%s writes %s' % (norm(ev.node)[:60], bad))
        else:
            n_ok += 1
    r.ok('%d call-time functions, %d direct writes to per-call objects' % (len(fis), n_ok))
    # class-level mutable defaults that are mutated in place through self
    for m in P.yatiml_modules():
        if not keep(m.name):
            continue
        for c in m.classes.values():
            for name, v in c.class_attrs.items():
                mutable = isinstance(v, (ast.List, ast.Dict, ast.Set, ast.ListComp, ast.DictComp, ast.SetComp)) or (
                    isinstance(v, ast.Call) and call_name(v) in ('list', 'dict', 'set', 'OrderedDict', 'defaultdict', 'deque'))
                if not mutable:
                    continue
                init = c.methods.get('__init__')
                shadowed = init is not None and any(
                    isinstance(n, ast.Assign) and any(norm(t) == 'self.%s' % name for t in n.targets)
                    for n in init.node.body)
                mutated = []
                for fi in P.yatiml_functions():
                    for n in walk_function(fi.node):
                        if isinstance(n, ast.Call) and isinstance(n.func, ast.Attribute) and n.func.attr in MUTATORS \
                                and isinstance(n.func.value, ast.Attribute) and n.func.value.attr == name:
                            mutated.append((fi, n))
                        if isinstance(n, ast.Subscript) and isinstance(n.ctx, (ast.Store, ast.Del)) \
                                and isinstance(n.value, ast.Attribute) and n.value.attr == name:
                            mutated.append((fi, n))
                if mutated and not shadowed:
                    fi, n = mutated[0]
                    r.fail('%s:class-level-mutable:%s' % (c.key, name), fi.loc(n),
                           '%s.%s is a mutable class attribute (%s) that is mutated in place (%s): the state is shared by every '
                           'instance, across calls, functions and threads' % (c.qual, name, norm(v), norm(n)[:50]))
                else:
                    r.ok('%s.%s: mutable class attribute, %s' % (c.qual, name, 'never mutated in place' if not mutated else 'shadowed per instance in __init__'))
    n_fobj = 0
    # the function objects themselves (LoadFunction, DumpsJsonFunction, ..): one object per load/dump function, shared by all its
    # calls and threads.  A field that __init__ fills with a freshly built mutable object (a buffer, a set, a dict) and that __call__
    # then uses is state between calls - whatever the cleanup looks like on the normal path, an exception or a second thread finds it
    # half-used.  Fields that hold the generated loader/dumper class (a name, not a construction) are what these objects are for.
    for m in P.yatiml_modules():
        if not keep(m.name):
            continue
        for c in m.classes.values():
            call_m, init_m = c.methods.get('__call__'), c.methods.get('__init__')
            if call_m is None or init_m is None or not c.name.endswith('Function'):
                continue
            built = {}
            for n in walk_function(init_m.node):
                if isinstance(n, ast.Assign) and len(n.targets) == 1 and isinstance(n.targets[0], ast.Attribute) \
                        and norm(n.targets[0].value) == init_m.params[0] and isinstance(
                            n.value, (ast.Call, ast.List, ast.Dict, ast.Set, ast.ListComp, ast.DictComp, ast.SetComp)):
                    built[n.targets[0].attr] = n
            used = {}
            for n in walk_function(call_m.node):
                if isinstance(n, ast.Attribute) and norm(n.value) == call_m.params[0] and n.attr in built:
                    used.setdefault(n.attr, n)
            for fld, n in sorted(used.items()):
                r.fail('%s:function-object-state:%s' % (c.key, fld), call_m.loc(n),
                       '%s.__init__ builds %s once (%s) and __call__ uses it on every call: the object is shared by all calls and threads '
                       'of this load/dump function - after a call that fails half-way (or during a concurrent one) the next call finds '
                       'what the last one left in it' % (c.qual, 'self.' + fld, norm(built[fld].value)[:40]))
            if not used:
                r.ok('%s: __call__ uses no object that __init__ built (only the generated class)' % c.qual)
            n_fobj += 1
    if modules is None and n_fobj < 3:
        # the pinned tree has six function-object classes (LoadFunction, DumpFunction, DumpsFunction, DumpJsonFunction,
        # DumpsJsonFunction, ..); finding fewer than half of them means the clause no longer sees what it is about
        raise AnalysisError('%s: only %d load/dump function-object classes (class *Function with __init__ and __call__) were found' % (rid, n_fobj))
    # fields mutated in place must be initialised per instance
    for ckey in ('yatiml.dumper:Dumper', 'yatiml.loader:Loader'):
        c = P.cls(ckey)
        if not keep(c.module.name):
            continue
        init = c.methods.get('__init__')
        inst = set()
        if init is not None:
            for n in walk_function(init.node):
                if isinstance(n, ast.Assign):
                    for t in n.targets:
                        if isinstance(t, ast.Attribute) and norm(t.value) == 'self':
                            inst.add(t.attr)
        for mname, mi in c.methods.items():
            for n in walk_function(mi.node):
                fld = None
                if isinstance(n, ast.Call) and isinstance(n.func, ast.Attribute) and n.func.attr in MUTATORS \
                        and isinstance(n.func.value, ast.Attribute) and norm(n.func.value.value) == 'self':
                    fld = n.func.value.attr
                elif isinstance(n, ast.Subscript) and isinstance(n.ctx, (ast.Store, ast.Del)) and isinstance(n.value, ast.Attribute) \
                        and norm(n.value.value) == 'self':
                    fld = n.value.attr
                if fld is not None:
                    r.check(fld in inst, '%s.%s: self.%s is initialised per instance in __init__' % (c.name, mname, fld),
                            '%s:instance-state:%s' % (c.key, fld), mi.loc(n),
                            'self.%s is updated in place in %s.%s but is not initialised in __init__: the object that is updated '
                            'is a class attribute shared by every instance' % (fld, c.name, mname))
    r.done()


def r11_2_registries(ctx):
    P = ctx.P
    r = ctx.rule('R11.2', 'the class registries belong to the generated subclass: immutable class-level defaults (None) and '
                          'every item store through a class object is preceded by `if C.X is None: C.X = dict()`', floor=5)
    lo = P.cls('yatiml.loader:Loader')
    for name in ('_registered_classes', '_additional_classes'):
        v = lo.class_attrs.get(name)
        r.check(isinstance(v, ast.Constant) and v.value is None, 'Loader.%s = None at class level' % name,
                'yatiml.loader:Loader:%s:default' % name, 'yatiml/loader.py',
                'Loader.%s has the class-level default %s: every load function would share (and register into) one table'
                % (name, norm(v) if v is not None else 'missing'))
    n = 0
    for fi in P.module('yatiml.loader').functions.values():
        f = None
        for node in walk_function(fi.node):
            tgt = None
            if isinstance(node, ast.Subscript) and isinstance(node.ctx, (ast.Store, ast.Del)) and isinstance(node.value, ast.Attribute) \
                    and node.value.attr in ('_registered_classes', '_additional_classes'):
                tgt = node.value
            elif isinstance(node, ast.Call) and isinstance(node.func, ast.Attribute) and node.func.attr in MUTATORS \
                    and isinstance(node.func.value, ast.Attribute) and node.func.value.attr in ('_registered_classes', '_additional_classes'):
                tgt = node.func.value
            if tgt is None:
                continue
            n += 1
            f = f or fn_of(fi)
            C, X = norm(tgt.value), tgt.attr
            inits = [a for a in f.walk() if isinstance(a, ast.Assign) and any(norm(t) == '%s.%s' % (C, X) for t in a.targets)
                     and norm(a.value) in ('dict()', '{}', 'OrderedDict()') and f.has_guard(a, '%s.%s is None' % (C, X), True, expand=False)]
            # every path to the store passes the initialisation or the "is not None" side of its test
            notnone = S.branch_nodes(f, lambda atoms, C=C, X=X: S.atom_is(atoms, '%s.%s is None' % (C, X), False))
            ok = bool(inits) and f.cfg.must_pass(f.cfg.entry, f.nid(node), {f.nid(a) for a in inits} | notnone)
            r.check(ok, '%s: store into %s.%s is preceded by `if %s.%s is None: %s.%s = dict()`' % (fi.qual, C, X, C, X, C, X),
                    '%s:registry-store:%s.%s' % (fi.key, C, X), fi.loc(node),
                    'a class is registered into %s.%s without first giving %s its own dict: the table of a base class (shared with '
                    'other load functions) would be written' % (C, X, C))
    if n == 0:
        r.fail('yatiml.loader:no-registry-stores', 'yatiml/loader.py', 'nothing is ever registered')
    # the recogniser receives the instance's (= generated class's) registries
    li = fn(P, 'yatiml.loader:Loader.__init__')
    rc = [c for c in li.walk() if isinstance(c, ast.Call) and call_name(c) == 'Recognizer']
    r.check(any([norm(a) for a in c.args] == ['self._registered_classes', 'self._additional_classes'] for c in rc),
            'Recognizer(self._registered_classes, self._additional_classes)', li.key('recognizer-registries'), li.loc(),
            'the recogniser is not given this loader class\'s registries')
    r.done()


PYYAML_TABLES = {'yaml_constructors', 'yaml_multi_constructors', 'yaml_representers', 'yaml_multi_representers',
                 'yaml_implicit_resolvers', 'yaml_path_resolvers'}


def r11_3_pyyaml_tables(ctx, rid='R11.3'):
    P = ctx.P
    r = ctx.rule(rid, 'PyYAML\'s class-level tables are never mutated in place; registrations go through '
                          'add_constructor/add_representer on yatiml-defined classes (copy-on-first-write, checked in PyYAML\'s '
                          'source); the resolver patch builds a fresh table with fresh lists', floor=6)
    for fi in P.yatiml_functions():
        fe = None
        for n in walk_function(fi.node):
            tab = None
            if isinstance(n, ast.Subscript) and isinstance(n.ctx, (ast.Store, ast.Del)) and isinstance(n.value, ast.Attribute) \
                    and n.value.attr in PYYAML_TABLES:
                tab = n.value.attr
            elif isinstance(n, ast.Call) and isinstance(n.func, ast.Attribute) and n.func.attr in MUTATORS \
                    and isinstance(n.func.value, ast.Attribute) and n.func.value.attr in PYYAML_TABLES:
                tab = n.func.value.attr
            elif isinstance(n, ast.Attribute) and isinstance(n.ctx, (ast.Store, ast.Del)) and n.attr in PYYAML_TABLES:
                # assignment of the whole attribute: only on an instance (self), never on a class object
                recv = norm(n.value)
                r.check(recv == 'self', '%s: %s.%s is assigned on the instance' % (fi.qual, recv, n.attr),
                        '%s:table-assign:%s.%s' % (fi.key, recv, n.attr), fi.loc(n),
                        '%s.%s is assigned on %s: a class-level PyYAML table is replaced' % (recv, n.attr, recv))
                continue
            if tab is not None:
                r.fail('%s:in-place:%s' % (fi.key, tab), fi.loc(n), '%s is mutated in place (%s): this is the table object that '
                       'yaml.SafeLoader / yaml.SafeDumper and every other load/dump function use' % (tab, norm(n)[:60]))
    # aliases of bucket lists: decided by partial evaluation (identity of table objects before/after)
    from ..resolver_lang import resolver_model
    M = resolver_model(P)
    r.check(not M.shared_table_mutated and not M.dump_mutated_shared, 'partial evaluation of Loader.__init__/Dumper.__init__ over '
            'PyYAML\'s table leaves the class-level table and its bucket lists unchanged', 'yatiml.loader:Loader.__init__:'
            'class-level-resolver-table', 'yatiml/loader.py', 'the resolver patch writes into the table (or a bucket list) shared with '
            'yaml.SafeLoader/SafeDumper: yaml.safe_load and yaml.safe_dump change behaviour after the first yatiml load')
    shared_lists = [k for k in M.T_load if k in M.T0 and M.T_load[k] is M.T0[k]]
    r.check(not shared_lists and not M.load_aliases_class_table, 'the instance table and all its bucket lists are fresh objects',
            'yatiml.loader:Loader.__init__:resolver-table-aliasing', 'yatiml/loader.py',
            'the per-instance resolver table shares %s with the class-level table' % ('itself' if M.load_aliases_class_table else 'bucket lists %s' % shared_lists[:5]))
    # PyYAML copy-on-first-write
    for key, fact in (('yaml.constructor:BaseConstructor.add_constructor', "if not 'yaml_constructors' in cls.__dict__"),
                      ('yaml.representer:BaseRepresenter.add_representer', "if not 'yaml_representers' in cls.__dict__")):
        src = ast.unparse(P.func(key).node)
        r.check(fact in src and '.copy()' in src, '%s copies the inherited table on first write' % key.split(':')[1], key + ':cow',
                'site-packages/yaml', 'PyYAML\'s %s no longer copies on first write' % key)
    # registration receivers
    n_reg = 0
    for fi in P.yatiml_functions():
        for n in walk_function(fi.node):
            if isinstance(n, ast.Call) and isinstance(n.func, ast.Attribute) and n.func.attr in (
                    'add_constructor', 'add_representer', 'add_multi_representer', 'add_multi_constructor'):
                n_reg += 1
                recv = n.func.value
                rc = P.resolve_expr(fi.module, recv, fi)
                ok = (isinstance(rc, ClassInfo) and rc.module.name.startswith('yatiml') and rc.parent_func is fi) \
                    or (isinstance(recv, ast.Name) and recv.id in fi.params)
                r.check(ok, '%s: %s.%s on a class created by this factory / handed in' % (fi.qual, norm(recv), n.func.attr),
                        '%s:registration-receiver:%s' % (fi.key, norm(recv)), fi.loc(n),
                        '%s.%s(..) registers on %s, which is not a class created by this factory call' % (norm(recv), n.func.attr, norm(recv)))
    for m in P.yatiml_modules():
        for st in m.tree.body:
            if isinstance(st, ast.Expr) and isinstance(st.value, ast.Call) and isinstance(st.value.func, ast.Attribute) \
                    and st.value.func.attr in ('add_constructor', 'add_representer', 'add_implicit_resolver'):
                recv = norm(st.value.func.value)
                rc = P.resolve_expr(m, st.value.func.value, None)
                ok = isinstance(rc, ClassInfo) and rc.module.name.startswith('yatiml')
                r.check(ok, 'module level: %s.%s (a class defined in yatiml)' % (recv, st.value.func.attr),
                        '%s:module-registration:%s' % (m.name, recv), '%s:%d' % (m.path, st.lineno),
                        'module-level registration on %s changes a PyYAML class for the whole process' % recv)
    r.done()


def r11_4_fresh_class(ctx):
    P = ctx.P
    r = ctx.rule('R11.4', 'every factory call creates a fresh loader/dumper class and caches no instance', floor=5)
    for mod, name, cname, base in [('yatiml.loader', 'load_function', 'UserLoader', 'yatiml.loader:Loader')] + \
            [('yatiml.dumper', n, 'UserDumper', 'yatiml.dumper:Dumper') for n in DUMP_FACTORIES]:
        fi = P.func('%s:%s' % (mod, name))
        cl = [c for c in fi.module.classes.values() if c.parent_func is fi and c.name == cname]
        top = [st for st in fi.node.body if isinstance(st, ast.ClassDef) and st.name == cname]
        r.check(len(cl) == 1 and len(top) == 1 and P.is_subclass(cl[0], base), '%s defines its own %s(%s) in its body' % (name, cname, base.split(':')[1]),
                '%s:%s:fresh-class' % (mod, name), fi.loc(), '%s does not create a fresh %s subclass per call' % (name, cname))
        # what the returned callable holds is the class, not an instance
        for n in walk_function(fi.node):
            if isinstance(n, ast.Return) and isinstance(n.value, ast.Call):
                args = [norm(a) for a in n.value.args]
                r.check(args == [cname], '%s returns %s(%s): it holds the class' % (name, norm(n.value.func), cname),
                        '%s:%s:returns' % (mod, name), fi.loc(n), '%s returns %s' % (name, norm(n.value)))
    # no loader/dumper instance is created or kept by yatiml itself
    for fi in P.yatiml_functions():
        for n in walk_function(fi.node):
            if isinstance(n, ast.Call) and isinstance(n.func, (ast.Name, ast.Attribute)):
                rc = P.resolve_expr(fi.module, n.func, fi)
                if isinstance(rc, ClassInfo) and (P.is_subclass(rc, 'yatiml.loader:Loader') or P.is_subclass(rc, 'yatiml.dumper:Dumper')):
                    r.fail('%s:instantiates:%s' % (fi.key, rc.name), fi.loc(n), '%s instantiates %s itself: an instance could be '
                           'reused across calls' % (fi.qual, rc.name))
            if isinstance(n, ast.Call) and isinstance(n.func, ast.Attribute) and norm(n.func) in ('self.loader', 'self.dumper'):
                r.fail('%s:instantiates-field' % fi.key, fi.loc(n), '%s instantiates its loader/dumper class itself' % fi.qual)
    src = ast.unparse(P.func('yaml:load').node)
    r.check('loader = Loader(stream)' in src and 'loader.dispose()' in src, 'yaml.load instantiates one Loader per call and disposes it',
            'yaml:load:per-call-instance', 'site-packages/yaml/__init__.py', 'yaml.load no longer creates a loader per call')
    src = ast.unparse(P.func('yaml:dump_all').node)
    r.check('dumper = Dumper(stream' in src and 'dumper.dispose()' in src, 'yaml.dump_all instantiates one Dumper per call',
            'yaml:dump_all:per-call-instance', 'site-packages/yaml/__init__.py', 'yaml.dump_all no longer creates a dumper per call')
    r.done()


def r11_6_user_classes(ctx):
    P = ctx.P
    r = ctx.rule('R11.6', 'user classes and their attributes are never written (no store / setattr / in-place mutation rooted '
                          'at a class object handed in by the user)', floor=2)
    W = world(P)
    n = 0
    names = {'class_', 'cls', 'classes', 'result', 'args', 'expected_type', 'type_', 'recognized_type', 'typ', 'loader_cls_user'}
    for fi in P.yatiml_functions():
        fe = W.fns.get(fi.key)
        if fe is None:
            continue
        for ev in fe.events:
            if ev.how == 'call':
                continue
            n += 1
            for root in ev.roots:
                head = root.split(':')[1].split('.')[0] if root.startswith('param:') else None
                if (head in names) or root.startswith('self.class_'):
                    if isinstance(ev.node, ast.Attribute) and norm(ev.node) == 'self.class_':
                        continue    # the constructor/representer object's own field being initialised
                    if ev.how == 'augmented assignment' and 'fresh' in ev.roots:
                        continue
                    r.fail(_ev_key(ev), fi.loc(ev.node), '%s (%s) writes an object reachable from a user class (%s): the user\'s '
                           'class or a dict/list it owns (e.g. _yatiml_defaults) is modified' % (norm(ev.node)[:60], ev.how, root))
                    break
    r.ok('%d write events in the package examined; none is rooted at a user class' % n)
    r.ok('control: roots considered user classes: parameters named %s and self.class_' % sorted(names))
    r.done()


PYYAML_ALIAS_STATE = {'represented_objects', 'alias_key', 'object_keeper', 'anchors', 'serialized_nodes', 'last_anchor_id'}


def r06_7_alias_bookkeeping(ctx, rid='R06.7'):
    """yatiml leaves PyYAML's alias bookkeeping alone"""
    P = ctx.P
    r = ctx.rule(rid, 'yatiml never writes PyYAML\'s alias bookkeeping (represented_objects, alias_key, object_keeper, anchors, '
                      'serialized_nodes): which node an object is an alias of is decided by PyYAML\'s own represent_data', floor=1)
    n = 0
    for m in P.yatiml_modules():
        for x in ast.walk(m.tree):
            tgt = None
            if isinstance(x, (ast.Attribute,)) and isinstance(x.ctx, (ast.Store, ast.Del)) and x.attr in PYYAML_ALIAS_STATE:
                tgt = x
            elif isinstance(x, ast.Subscript) and isinstance(x.ctx, (ast.Store, ast.Del)) and isinstance(x.value, ast.Attribute) \
                    and x.value.attr in PYYAML_ALIAS_STATE:
                tgt = x
            elif isinstance(x, ast.Call) and isinstance(x.func, ast.Attribute) and x.func.attr in MUTATORS \
                    and isinstance(x.func.value, ast.Attribute) and x.func.value.attr in PYYAML_ALIAS_STATE:
                tgt = x
            if tgt is not None and isinstance(tgt, ast.Subscript) and isinstance(tgt.ctx, ast.Store) and tgt.value.attr == 'represented_objects' \
                    and isinstance(tgt.slice, ast.Call) and isinstance(tgt.slice.func, ast.Name) and tgt.slice.func.id == 'id' \
                    and len(tgt.slice.args) == 1 and isinstance(tgt.slice.args[0], ast.Name) and tgt.slice.args[0].id in ('data', 'path'):
                # the one legitimate write (R06.16): the node that a sweeten hook put in the place of the represented one is filed
                # for the object itself - keyed by id(<the object>), never by alias_key
                r.ok('%s: represented_objects[id(%s)] re-filed after sweetening' % (m.name, tgt.slice.args[0].id))
                continue
            if tgt is not None:
                r.fail('%s:alias-bookkeeping:%s' % (m.name, norm(tgt)[:60]), '%s:%d' % (m.path, tgt.lineno),
                       '%s writes PyYAML\'s alias bookkeeping: alias_key is overwritten by every nested represent_data call, so a node '
                       'registered after the children were represented is filed under the id of the last child - a later reference to '
                       'that child is emitted as an alias of the whole parent' % norm(tgt)[:60])
            n += 1
    # positive control: the matcher recognises the idiom in PyYAML's own source
    ctrl = 0
    for x in ast.walk(P.module('yaml.representer').tree):
        if isinstance(x, ast.Subscript) and isinstance(x.ctx, ast.Store) and isinstance(x.value, ast.Attribute) \
                and x.value.attr in PYYAML_ALIAS_STATE:
            ctrl += 1
    if ctrl == 0:
        raise AnalysisError('positive control failed: no write to represented_objects found in yaml/representer.py')
    r.ok('no write to %s in yatiml (%d nodes scanned; control: %d such writes in yaml/representer.py)' % (sorted(PYYAML_ALIAS_STATE), n, ctrl))
    r.done()


def r06_16_replaced_node_filed(ctx, rid='R06.16'):
    """PyYAML files the node of an object under id(object) while it represents it (represent_mapping / represent_scalar), and hands
    that node out again for every further reference to the same object.  A _yatiml_sweeten that *replaces* the node (set_value,
    make_mapping) leaves the filed node behind: the second reference to the object is written from the unsweetened node."""
    P = ctx.P
    r = ctx.rule(rid, 'a node that a sweeten hook put in the place of the represented node is what later references to the same '
                      'object get (it is filed under id(object) in represented_objects)', floor=3)
    for key in ('yatiml.representers:Representer.__call__', 'yatiml.representers:EnumRepresenter.__call__',
                'yatiml.representers:UserStringRepresenter.__call__'):
        f = fn(P, key)
        obj = f.fi.params[2] if len(f.fi.params) > 2 else 'data'
        back = [n for n in f.walk() if isinstance(n, ast.Assign) and isinstance(n.value, ast.Attribute) and n.value.attr == 'yaml_node' and f.live(n)]
        direct = [x for x in f.returns() if isinstance(x.value, ast.Attribute) and x.value.attr == 'yaml_node']
        if not back and not direct:
            r.ok('%s: the represented node cannot be replaced (no wrapper.yaml_node is read back)' % f.fi.qual)
            continue
        filed = [n for n in f.walk() if isinstance(n, ast.Assign) and len(n.targets) == 1 and isinstance(n.targets[0], ast.Subscript)
                 and isinstance(n.targets[0].value, ast.Attribute) and n.targets[0].value.attr == 'represented_objects'
                 and norm(n.targets[0].slice) == 'id(%s)' % obj and f.live(n)]
        ok = bool(filed) and all(any(f.cfg.dominates(f.nid(b), f.nid(x)) for x in filed) for b in back)
        r.check(ok, '%s: the node read back from the wrapper is filed under id(%s)' % (f.fi.qual, obj), f.key('replaced-node-not-filed'),
                f.loc(back[0] if back else direct[0]),
                '%s returns the node that the hook may have put in the place of the represented one, but PyYAML\'s represented_objects still '
                'holds the node from before: a second reference to the same object (Addr(p, p), [p, p]) is written from the old node, '
                'unsweetened, instead of as an alias of the first' % f.fi.qual)
    r.done()


def r06_17_hook_sees_shared_children(ctx, rid='R06.17'):
    """PyYAML hands out *one* node object for every reference to one Python object (BaseRepresenter.represent_data answers from
    represented_objects).  The mapping node that Representer.__call__ wraps for _yatiml_sweeten therefore holds, as its values, node
    objects that other references to the same attribute objects hold too.  A hook that edits below its own node (the documented
    index_attribute_to_map / seq_attribute_to_map on an attribute) edits those shared nodes: the other reference loses the data."""
    P = ctx.P
    r = ctx.rule(rid, 'the node a _yatiml_sweeten hook is free to edit shares no child node with another reference to the same object '
                      '(children are copied before the hook runs, or are not the filed nodes)', floor=1)
    rd = P.func('yaml.representer:BaseRepresenter.represent_data')
    src = ast.unparse(rd.node)
    if 'self.represented_objects[self.alias_key]' not in src:
        raise AnalysisError('BaseRepresenter.represent_data no longer answers a repeated object from represented_objects (model changed)')
    f = fn(P, 'yatiml.representers:Representer.__call__')
    closure = [f]
    if P.has_func('yatiml.representers:Representer.__sweeten'):
        closure.append(fn(P, 'yatiml.representers:Representer.__sweeten'))
    hooks = [c for g in closure for c in g.calls('_yatiml_sweeten') if g.live(c)]
    if not hooks:
        raise AnalysisError('anchor missing: the _yatiml_sweeten call of Representer')
    built = [c for c in f.walk() if isinstance(c, ast.Call) and call_name(c) == 'represent_mapping' and f.live(c)]
    if not built:
        raise AnalysisError('anchor missing: the represent_mapping call of Representer.__call__')
    copies = [c for g in closure for c in g.walk() if isinstance(c, ast.Call) and call_name(c) in ('deepcopy', 'copy_node', '_copy_node')
              and g.live(c)]
    r.check(bool(copies), 'Representer.__call__: the children of the node handed to the hook are copies', f.key('hook-sees-shared-children'),
            f.loc(built[0]), 'Representer.__call__ wraps the node that represent_mapping built and hands it to _yatiml_sweeten; its value nodes '
            'are the very objects PyYAML keeps in represented_objects for the attribute objects. A hook that edits an attribute in place '
            '(node.index_attribute_to_map(..) removing the key attribute) edits every other reference to that object too: '
            'dumps(Company(boss=m, employees={"Mary": m})) writes `boss: &id001 {role: Director}` - read by a plain YAML parser boss has lost its '
            'name')
    r.done()


def r12_6_options_forwarded(ctx, rid='R12.6'):
    """the Dumper does not look at the sink and hands PyYAML's emitter options on unchanged"""
    P = ctx.P
    r = ctx.rule(rid, 'Dumper.__init__ forwards the stream and every emitter option it is given to SafeDumper.__init__ unchanged '
                      '(only sort_keys is replaced, by False) and does not inspect the stream', floor=10)
    f = fn(P, 'yatiml.dumper:Dumper.__init__')
    base = P.func('yaml.dumper:SafeDumper.__init__')
    bparams = base.params
    calls = [c for c in f.walk() if isinstance(c, ast.Call) and norm(c.func).endswith('__init__')
             and ('SafeDumper' in norm(c.func) or 'super()' in norm(c.func))]
    if len(calls) != 1:
        raise AnalysisError('anchor missing: the SafeDumper.__init__ call in Dumper.__init__')
    c = calls[0]
    args = list(c.args)
    off = 1 if args and norm(args[0]) == f.fi.params[0] and 'SafeDumper' in norm(c.func) else 0
    own = f.fi.params
    stores = {x.id for x in f.walk() if isinstance(x, ast.Name) and isinstance(x.ctx, (ast.Store, ast.Del))}
    for i, bp in enumerate(bparams[1:]):
        a = args[i + off] if i + off < len(args) else G.kwarg(c, bp)
        if bp == 'sort_keys':
            continue
        ok = isinstance(a, ast.Name) and a.id == bp and bp in own and bp not in stores
        r.check(ok, 'option %s is forwarded unchanged' % bp, f.key('forwarded:%s' % bp), f.loc(c),
                'Dumper.__init__ passes %s for PyYAML\'s %s (or re-binds it first): the same dump comes out differently depending on '
                'something other than the options given, e.g. on the kind of sink' % (norm(a) if a is not None else 'nothing', bp))
    stream = own[1] if len(own) > 1 else 'stream'
    reads = [x for x in f.walk() if isinstance(x, ast.Attribute) and isinstance(x.value, ast.Name) and x.value.id == stream] + \
            [x for x in f.walk() if isinstance(x, ast.Call) and call_name(x) in ('getattr', 'hasattr', 'isinstance', 'type') and x.args
             and norm(x.args[0]) == stream]
    r.check(not reads, 'the stream is handed on without being inspected', f.key('stream-inspected'), f.loc(reads[0]) if reads else f.loc(),
            'Dumper.__init__ inspects the sink (%s): the text written depends on the kind of sink' % (norm(reads[0])[:50] if reads else ''))
    r.done()
