"""C08 - bad input is reported only as RecognitionError or a YAML error: exception-escape discipline of the load path."""
from . import shared as S
from . import errors as E
from . import helpers_rules as H
from . import alias_rules as A

META = {
    'claim_added': 'Also decided: node texts are hashed only for ScalarNodes (I7), format strings are literals (I10), table lookups are not guarded by membership in another table (I1b), converting handlers cannot fail themselves, recogniser exits return pairs, whatever resolves to bool/float (and, as known findings, int/timestamp) is in the domain of the PyYAML constructor that runs. Round 3: every call of a value (a parameter or local holding a user class or callable) on the load side sits in a converting `except Exception`; the cycle check dominates every other walk over the composed tree (R08.13). Round 6: R08.16 - every receiver of .format() on the load side is program text; membership tests in sets/dicts hash node values only for ScalarNodes; a bare re-raise lets out exactly what the protected statements let out; every raise site is judged. Round 6 (E14): caches on the code this property is about are invisible - no value that lives in a memo cell (dict / lazily filled attribute / lru_cache) is modified by the code it is handed to, the key of a cell contains every input its value depends on, no mutable parameter default is modified or handed out; given that, the program is analysed as if every lookup missed. Round 11: R08.18 - the key test of __strip_extra_attributes rejects exactly the keys that are not str-tagged scalars; the exempt indexing idiom of __type_check_attributes and the key texts of R08.5 rest on it. Round 12: built-in scalars are accepted on their exact tag only (R01.5 runs here: an int spelling accepted for float reaches construct_yaml_float(\'0x1F\')); R08.19 - str methods on key texts only for scalar keys (known findings F33a-b).',
    'level': 'other',
    'technique': 'static: interprocedural escape sets (explicit raises minus enclosing handlers, through name-resolved callees, '
                 'dead code pruned by the CFG), converting-handler check at every user-code call site, closed table of implicit '
                 'raisers with their discharging guard idioms (membership, cardinality over {0,1,>=2}, has_attribute, handler), '
                 'Node typestate from the docstrings, completeness of the cycle pre-check',
    'claim': 'Decides the exception-escape discipline of the load path: every explicit raise that can leave a load entry point '
             'is RecognitionError/YAMLError or a named model-error raise; user __init__, string-like constructors, _yatiml_recognize '
             'and _yatiml_savorize run under handlers that catch their contract class and leave only via RecognitionError/REJECT; '
             'keyed lookups, constant indexes into filtered lists, list.remove, e.args[0] and next(iter()) are discharged by '
             'dominating guards or handlers; Node methods that presuppose a mapping are called only on known mappings; the cycle '
             'pre-check is a complete recursion with per-call sets. The sites that are NOT discharged on the pinned tree are '
             'demonstrated defects and listed as known findings (duplicate key -> SeasoningError, complex key -> TypeError, '
             'explicitly tagged scalars -> PyYAML constructor errors, a savorize that replaces the node by a scalar -> ValueError, '
             'get_value on 0x1F -> ValueError). Not decided: MemoryError/interpreter errors, arbitrary failures inside user hooks '
             'beyond their contract, PyYAML\'s scanner/parser (only: their explicit raises are YAMLError subclasses).',
    'note': 'Exemptions (model errors, by name with reason) are listed in sa/rules/errors.py MODEL_ERRORS.',
    'explanation': 'Static escape analysis; see claim.',
    'assumptions': ['user hooks honour their documented exception contract (savorize: SeasoningError; recognize: RecognitionError)'],
}


def run(ctx):
    E.r08_1_explicit(ctx)
    E.r08_2_user_code(ctx)
    E.r08_3_implicit(ctx)
    E.r08_4_explicit_core_tags(ctx)
    E.r08_5_key_texts(ctx)
    H.r15_1_typestate(ctx, 'R08.6', scope='load')
    S.r01_2_gate(ctx)
    A.r18_1_cycles(ctx, 'R08.9')
    H.r14_9_get_value_text(ctx, 'R08.7', dump_side=False)
    H.r14_10_get_value_typestate(ctx, 'R08.8')
    S.r17_4_no_silent_reject(ctx, 'R08.11')
    from . import c09 as C9
    C9.o3_resolve_vs_construct(ctx, 'R08.10')
    C9.o3b_pyyaml_scalars(ctx, 'R08.12')
    from . import round3 as R3
    R3.r01_10_tree_untouched(ctx, 'R08.13')
    R3.r08_14_verdict_is_a_set(ctx, 'R08.14')
    from . import helpers_rules as H_
    H_.r16_2_kind_first(ctx, 'R08.15')
    E.r08_16_format_templates(ctx)
    E.r08_17_resolver_end_anchor(ctx)
    # round 11: the exempt idiom `[kn for kn, _ in node.value if kn.value == key][0]` of __type_check_attributes (I2) and the key
    # texts of R08.5 are safe only because every key of a class mapping is a str-tagged scalar by then (constructed key == key text;
    # a key `2:` constructs to 2 and matches no key text: IndexError; `!!int x:` reaches int('x'): ValueError)
    R3.r04_10_key_test_table(ctx, 'R08.18')
    R3.r08_19_key_texts_of_scalar_keys_only(ctx)
    # round 12: a scalar reaches PyYAML's constructor for tag T only if it was *resolved* as T - an int spelling accepted where a float
    # is declared is retagged float, and construct_yaml_float raises ValueError on 0x1F / 0b101 (R08.10 only speaks for texts the
    # float pattern admits)
    S.r01_5_scalar(ctx)
    from . import memo_rules as M
    M.memo_sound(ctx, 'R08.M')
