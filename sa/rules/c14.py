"""C14 - yatiml.Node accessors behave like an ordered map and a typed scalar (structural clauses)."""
from . import shared as S
from . import helpers_rules as H
from . import roundtrip as R

META = {
    'claim_added': "Also decided: is_scalar() without a type is True for every ScalarNode; set_value retags every core-tagged node and installs a fresh node; built nodes carry the plain tag of their kind; is_empty/seq_items read the whole list; int/float text is read by PyYAML's constructors and float text written by its representer. Round 3: the loader constructs core scalars with the SafeConstructor methods get_value uses (R14.12); set_value / set_attribute store the value they are given, independent of the old node (R14.13); attribute lookup compares key texts with the parameter itself (R14.14); the bool arm of get_value reads through PyYAML's table of boolean spellings. Round 6 (E14): caches on the code this property is about are invisible - no value that lives in a memo cell (dict / lazily filled attribute / lru_cache) is modified by the code it is handed to, the key of a cell contains every input its value depends on, no mutable parameter default is modified or handed out; given that, the program is analysed as if every lookup missed. Round 11: set_value(None) is not spelt str(None) (text:None); R14.17 - the key-renaming helpers overwrite key nodes in place, which leaks into another mapping that shares the key through an anchor (known findings F32a-c).",
    'level': 'other',
    'technique': 'static: table agreement (scalar_type_to_tag vs the tag arms of get_value / set_attribute / set_value / is_scalar), '
                 'isinstance-chain order, write-effect summaries of the accessors, position discipline of the pair-list operations '
                 'under the found/absent guards, must-pass-through of the node replacement in set_value, type guards around '
                 'conversions in the default-matching helper',
    'claim': 'Decides a minority of C14, the part visible as code shape: the four scalar accessors agree with one tag table (so '
             'set_value(v); is_scalar(type(v)); get_value() are type-consistent), bool before int, YAML 1.2 true-words; '
             'set_attribute stores at the found index and appends otherwise, remove pops the found index, rename rewrites only the '
             'key text, __attr_index returns the first match, readers write nothing; every exit of set_value has installed the '
             'new node; remove_attributes_with_default_values keeps pairs in order and its matches() helper cannot raise on a '
             'default of another type, compares ints as ints and floats as floats, and has the right bool polarity; '
             'defaulted_attributes agrees with class_subobjects and applies every override; internal get_attribute calls are '
             'guarded by has_attribute. NOT decided: equivalence of arbitrary operation sequences with an ordered dict, and '
             'get_value() equalling what a load constructs for every spelling (value-level).',
    'note': 'Known findings: Node.get_value() uses int()/float() on node text and fails on YAML spellings PyYAML accepts '
            '(0x1F, 1_000, .inf) - F15.',
    'explanation': 'Static decision of structural clauses of the Node accessors; see claim.',
    'assumptions': [],
}


def run(ctx):
    H.r14_1_scalar_table(ctx)
    H.r14_3_positions(ctx)
    H.r14_4_matches_total(ctx)
    R.r05_7_defaults(ctx, 'R14.8')
    H.r14_6_get_attribute_guarded(ctx)
    H.r14_9_get_value_text(ctx)
    H.r14_11_built_nodes(ctx)
    from . import round3 as R3
    R3.r14_12_same_constructors(ctx)
    R3.r14_13_value_as_given(ctx)
    R3.r14_14_exact_key_match(ctx, 'R14.14')
    R3.r14_16_rename_keeps_keys_distinct(ctx)
    R3.r14_17_key_nodes_not_written_in_place(ctx)
    from . import memo_rules as M
    M.memo_sound(ctx, 'R14.M')
