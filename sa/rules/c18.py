"""C18 - anchors and aliases are transparent (structural necessary conditions)."""
from . import shared as S
from . import helpers_rules as H
from . import alias_rules as A

META = {
    'claim_added': "Also decided: the cycle pre-check removes the node from the ancestor set on exit, exits early only for scalars/done nodes and visits keys; set_value installs a fresh node on every path; yatiml does not override PyYAML's composer; processing keeps no per-node cache. Round 3: the composed tree is not rewritten before the cycle check and recognition (R18.8); the closed list of node writes of __process_node (R18.9); __process_node writing the node object it was given is reported (R18.10, known finding F19). Round 6 (E14): caches on the code this property is about are invisible - no value that lives in a memo cell (dict / lazily filled attribute / lru_cache) is modified by the code it is handed to, the key of a cell contains every input its value depends on, no mutable parameter default is modified or handed out; given that, the program is analysed as if every lookup missed.",
    'level': 'other',
    'technique': 'static: dominance and completeness (structural recursion over items, keys and values) of the acyclicity '
                 'pre-check; write-effect closure of recognition; agreement of the tag table written by processing with the accept '
                 'guards of the recognisers; node-object placement in the transforms',
    'claim': 'PyYAML composes an alias as the very same Node object, so transparency needs (1) termination on cyclic graphs, (2) '
             'recognition that does not write, (3) processing that can meet its own output. Decided: a complete acyclicity check '
             'with per-call sets dominates processing and raises RecognitionError; the call closure of Recognizer.recognize writes '
             'nothing but fresh wrappers; for each kind, the tag __type_to_tag writes is compared with what the recogniser of that '
             'kind accepts (holds for scalars, sequences, mappings and mapping classes; fails for enum, string-like and Path -> '
             'known finding F9); set_value replaces rather than rewrites scalar nodes; processing keeps no per-node state; '
             'transforms never place one node twice. Not decided: equality with the expanded document in general; idempotence of '
             'user savorize hooks.',
    'note': 'Known finding F9: [&c red, *c] as List[Color] is rejected while the expanded document loads (same for string-like '
            'classes and Path).',
    'explanation': 'Static decision of necessary structural conditions of alias transparency; see claim.',
    'assumptions': ['PyYAML composes an alias as the same Node object (read from composer.py)'],
}


def run(ctx):
    A.r18_1_cycles(ctx)
    H.r16_1_purity(ctx, 'R18.2', roots=['yatiml.recognizer:Recognizer.recognize'], what='recognition')
    A.r18_3_written_vs_accepted(ctx)
    A.r18_4_replace_not_mutate(ctx)
    H.r15_4_no_node_twice(ctx, 'R18.5')
    H.r18_6_set_value_copies(ctx)
    from . import c09 as C9
    r = ctx.rule('R18.7', 'aliases are composed by PyYAML itself (the alias is the anchored node object; a node that contains itself is '
                          'a cycle the pre-check sees): yatiml does not override the composer', floor=1)
    n_over = C9.overrides_are_delegations(ctx, r, ctx.P.cls('yatiml.loader:Loader'),
                                          ('compose_node', 'compose_document', 'compose_scalar_node', 'compose_sequence_node',
                                           'compose_mapping_node', 'get_single_data', 'construct_document'),
                                          'aliases are no longer the anchored node itself (PyYAML registers an anchor before its children are '
                                          'composed: copying at an alias copies the half-built ancestor, so `&a [1, *a]` loads as [1, [1]] '
                                          'instead of being rejected)')
    if n_over == 0:
        r.ok('no yatiml class in Loader\'s MRO overrides a compose_* method')
    r.done()
    src = __import__('ast').unparse(ctx.P.func('yaml.composer:Composer.compose_node').node)
    if 'return self.anchors[anchor]' not in src:
        from ..model import AnalysisError
        raise AnalysisError('Composer.compose_node no longer returns the anchored node object for an alias')
    from . import round3 as R3
    R3.r01_10_tree_untouched(ctx, 'R18.8')
    R3.r18_9_process_node_writes(ctx)
    R3.r18_10_reference_owned_node(ctx)
    from . import shared as S_
    S_.r01_3_recursion(ctx)
    # a node reached through an alias is seasoned a second time: the transforms must find nothing left to do (kind and presence
    # are looked at before anything is written)
    H.r15_2_do_nothing_exits(ctx, 'R18.11', guards_only=True)
    from . import memo_rules as M
    M.memo_sound(ctx, 'R18.M')
