"""Rules over yatiml/helpers.py (Node / UnknownNode): C14, C15, C16 and parts of C05/C08."""
import ast
from typing import Dict, List, Optional, Set, Tuple

from ..model import AnalysisError, Program, walk_function, parent
from .. import guards as G
from ..guards import norm, call_name, const_str, isinstance_atom, known_instance, tag_equalities, card_truth, name_subject
from ..facts import Fn, CORE, MUTATORS, assigned_from, enclosing_loops, whole_collection_loop, enclosing_stmt, reaching_defs
from ..cfg import conj_atoms
from . import shared as S
from .shared import fn

NODE = 'yatiml.helpers:Node.'
UNK = 'yatiml.helpers:UnknownNode.'
TRUE_WORDS = {'true', 'True', 'TRUE'}
FALSE_WORDS = {'false', 'False', 'FALSE'}


def _reaching_texts(f: Fn, e: ast.AST) -> Set[str]:
    """texts of the definitions of local `e` that reach its use (the expression itself when it is not a local name)"""
    if isinstance(e, ast.Name):
        from ..facts import reaching_defs
        ds = reaching_defs(f, e, e.id)
        if ds:
            return {norm(d.value) for d in ds}
    return {norm(e)}


def _tag_arms(f: Fn, subject: str) -> List[Tuple[str, ast.AST]]:
    """(tag literal, statement) for every statement guarded by `<subject> == '<tag>'`"""
    out = []
    for n in f.walk():
        if isinstance(n, (ast.Return, ast.Assign, ast.Expr, ast.Raise)):
            a, _ = tag_equalities(f.guards(n), subject, f.copies)
            if a and len(a) == 1:
                out.append((ast.literal_eval(next(iter(a))) if next(iter(a)).startswith("'") else next(iter(a)), n))
    return out


# =====================================================================================================
# C14
# =====================================================================================================

def r14_1_scalar_table(ctx, rid='R14.1'):
    P = ctx.P
    r = ctx.rule(rid, 'one scalar table: get_value, set_value, set_attribute and is_scalar agree with scalar_type_to_tag',
                 floor=12)
    table = S.scalar_table(P)
    missing = [k for k in ('str', 'int', 'float', 'bool', 'None') if k not in table]
    r.check(not missing, 'scalar_type_to_tag has entries for str, int, float, bool and None', 'yatiml.util:scalar_type_to_tag:node-scalar-types',
            'yatiml/util.py', 'scalar_type_to_tag has no entry for %s, which the Node helpers document as scalar types '
            '(has_attribute_type(attr, None), is_scalar(None), set_value(None) look it up)' % missing)
    want = {k: table.get(k, CORE + {'None': 'null'}.get(k, k)) for k in ('str', 'int', 'float', 'bool', 'None')}
    # get_value: arms by tag
    g = fn(P, NODE + 'get_value')
    arms = {}
    for ret in g.returns():
        a, _ = tag_equalities(g.guards(ret), 'self.yaml_node.tag', g.copies)
        if a and len(a) == 1:
            arms[ast.literal_eval(next(iter(a)))] = ret
    def _uncast(v):
        while v.startswith('cast(') and ', ' in v:
            v = v.split(', ', 1)[1][:-1]
        return v
    conv = {want['str']: lambda v: v in ('str(self.yaml_node.value)', 'self.yaml_node.value'),
            want['int']: lambda v: v == 'int(self.yaml_node.value)' or v.endswith('.construct_yaml_int(self.yaml_node)'),
            want['float']: lambda v: v == 'float(self.yaml_node.value)' or v.endswith('.construct_yaml_float(self.yaml_node)'),
            # the bool arm reads the text through PyYAML's own table of boolean spellings (so that an explicitly tagged
            # `!!bool yes` gives what a load constructs), or through construct_yaml_bool
            want['bool']: lambda v: ('.bool_values' in v and 'self.yaml_node.value' in v and '.lower()' in v)
            or v.endswith('.construct_yaml_bool(self.yaml_node)'),
            want['None']: lambda v: v == 'None'}
    for typ, tag in want.items():
        ret = arms.get(tag)
        ok = ret is not None and ret.value is not None and (conv[tag](_uncast(norm(ret.value)))
                                                            or conv[tag](_uncast(g.alpha.text(ret.value))))
        r.check(ok, 'get_value: tag %s -> %s' % (tag[len(CORE):], norm(ret.value) if ret is not None and ret.value is not None else None),
                g.key('arm:%s' % tag[len(CORE):]), g.loc(ret) if ret is not None else g.loc(),
                'get_value has no (correct) arm for tag %s (%s): is_scalar(%s) is True for such a node but get_value does not '
                'return a %s' % (tag, norm(ret.value) if ret is not None and ret.value is not None else 'missing', typ, typ))
    extra = set(arms) - set(want.values())
    r.check(not extra, 'get_value has arms exactly for the five scalar tags', g.key('extra-arms'), g.loc(),
            'get_value has arms for %s' % sorted(extra))
    r.check(not g.falls_off_end(), 'get_value raises for any other tag', g.key('fallthrough'), g.loc(), 'get_value can return None for '
            'a node that is not a null')
    # the fallback of the table lookup (a text that is no boolean spelling at all) is False
    bret = arms.get(want['bool'])
    if bret is not None and bret.value is not None:
        v_ = bret.value
        while isinstance(v_, ast.Call) and call_name(v_) in ('cast', 'bool') and v_.args:
            v_ = v_.args[-1]
        if isinstance(v_, ast.Call) and call_name(v_) == 'get':
            r.check(len(v_.args) == 2 and isinstance(v_.args[1], ast.Constant) and v_.args[1].value is False,
                    'get_value: a bool node whose text is no boolean spelling reads as False', g.key('bool-fallback'), g.loc(bret),
                    'get_value answers %s for a bool-tagged node whose text PyYAML does not know' % (norm(v_.args[1]) if len(v_.args) > 1 else None))
    # bool words
    if bret is not None and isinstance(bret.value, ast.Compare) and isinstance(bret.value.comparators[0], (ast.List, ast.Tuple, ast.Set)):
        words = {const_str(x) for x in bret.value.comparators[0].elts}
        r.check(words == TRUE_WORDS and isinstance(bret.value.ops[0], ast.In), 'get_value maps exactly %s to True' % sorted(TRUE_WORDS),
                g.key('true-words'), g.loc(bret), 'get_value treats %s as true (YAML 1.2 true-words are %s)' % (sorted(words), sorted(TRUE_WORDS)))
    # set_attribute: isinstance chain
    s = fn(P, NODE + 'set_attribute')
    val = s.fi.params[2]
    made = {}
    order = []
    for n in s.walk():
        if isinstance(n, ast.Call) and norm(n.func) in ('yaml.ScalarNode', 'ScalarNode') and n.args:
            tag = const_str(n.args[0])
            gs = s.guards(n)
            pos = [isinstance_atom(x) for x, p in gs if p and isinstance_atom(x) and isinstance_atom(x)[0] == val]
            none = any(norm(x) == '%s is None' % val and p for x, p in gs)
            if pos:
                made[sorted(pos[-1][1])[0]] = (tag, n)
                order.append(sorted(pos[-1][1])[0])
            elif none:
                made['None'] = (tag, n)
    for typ in ('str', 'bool', 'int', 'float', 'None'):
        tg = made.get(typ, (None, None))[0]
        r.check(tg == want[typ], 'set_attribute: %s value -> node tagged %s' % (typ, want[typ][len(CORE):]), s.key('arm:%s' % typ), s.loc(),
                'set_attribute builds a %s-tagged node for a %s value (scalar_type_to_tag says %s)' % (tg, typ, want[typ]))
    r.check('bool' in order and 'int' in order and order.index('bool') < order.index('int'), 'isinstance(bool) is tested before '
            'isinstance(int) (bool is a subclass of int)', s.key('bool-before-int'), s.loc(),
            'set_attribute tests int before bool: True would be written as an int node')
    # the text written for each type
    for typ, (tag, n) in made.items():
        txt = norm(s.copies.expand(n.args[1])) if len(n.args) > 1 else None
        exp = {'str': val, 'int': 'str(%s)' % val, 'float': '<SafeRepresenter>.represent_float(%s).value' % val, 'None': "''",
               'bool': "'true' if %s else 'false'" % val}[typ]
        ok = txt == exp
        if typ == 'float':
            # str(1e20) == '1e+20' and str(inf) == 'inf' are not YAML floats: PyYAML then writes an explicit !!float tag
            ok = len(n.args) > 1 and _pyyaml_float_text(s, s.copies.expand(n.args[1]), val)
        if typ == 'bool' and not ok:
            # loop/branch-local assignment: look at value_str definitions
            rhs = [norm(x) for x in assigned_from(s, norm(n.args[1]))] if isinstance(n.args[1], ast.Name) else []
            ok = exp in rhs
        if typ == 'None' and txt in ("'null'", "''"):
            ok = True
        r.check(ok, 'set_attribute: %s text = %s' % (typ, exp), s.key('text:%s' % typ), s.loc(n),
                'set_attribute writes %s as the text of a %s value (expected %s)' % (txt, typ, exp))
    # set_value
    v = fn(P, NODE + 'set_value')
    vp = v.fi.params[1]
    news = [n for n in v.walk() if isinstance(n, ast.Call) and norm(n.func) in ('yaml.ScalarNode', 'ScalarNode')]
    tagsrc = set()
    for n in news:
        for x in S._flow_sources(v, n.args[0]):
            tagsrc.add(norm(x))
    r.check('scalar_type_to_tag[type(%s)]' % vp in tagsrc, 'set_value takes the tag from scalar_type_to_tag[type(value)]',
            v.key('tag-source'), v.loc(), 'set_value does not tag the new node with scalar_type_to_tag[type(value)] (sources: %s)' % sorted(tagsrc))
    for n in news:
        if not isinstance(n.args[0], ast.Name):
            continue
        for d in reaching_defs(v, n, n.args[0].id):
            if norm(d.value) == 'scalar_type_to_tag[type(%s)]' % vp:
                gs = set()
                for g, p in v.guards(d):
                    if p and isinstance(g, ast.Call) and isinstance(g.func, ast.Attribute) and g.func.attr == 'startswith' \
                            and len(g.args) == 1 and const_str(g.args[0]) == CORE \
                            and _reaching_texts(v, g.func.value) == {'self.yaml_node.tag'}:
                        continue
                    gs.add(G.canon_atom(g, p))
                r.check(not gs, 'set_value retags every node carrying a core-schema '
                        'tag (any tag:yaml.org,2002: tag)', v.key('retag-condition'), v.loc(d), 'set_value takes the new tag from '
                        'scalar_type_to_tag only under %s: a node with another core tag (!!binary, the `=`/`<<` value/merge tags, '
                        '!!set ...) keeps it, and is_scalar(type(v)) is False after set_value(v)' % sorted(gs))
    stores = [n for n in v.walk() if isinstance(n, ast.Assign) and any(norm(t) == 'self.yaml_node' for t in n.targets)]
    okstore = bool(stores) and all(any(isinstance(x, ast.Call) and x in news for x in S._flow_sources(v, n.value)) for n in stores)
    marks = {v.nid(n) for n in stores}
    allpaths = all(v.cfg.must_pass(v.cfg.entry, rn, marks) for rn in v.cfg.returns())
    r.check(okstore and allpaths, 'every exit of set_value has replaced self.yaml_node by the new ScalarNode', v.key('replaces-node'), v.loc(),
            'set_value can return without installing a node with the new tag and text (e.g. when the text is unchanged the tag '
            'of the old node stays): set_value(v); is_scalar(type(v)) / get_value() == v no longer hold')
    btxt = [norm(x) for n in news if len(n.args) > 1 for x in S._flow_sources(v, n.args[1])]
    r.check("'true' if %s else 'false'" % vp in btxt and 'str(%s)' % vp in btxt, 'set_value text: true/false for bool, str(value) otherwise',
            v.key('text'), v.loc(), 'set_value writes %s' % btxt)
    fl = [d for n in news if len(n.args) > 1 and isinstance(n.args[1], ast.Name) for d in reaching_defs(v, n, n.args[1].id)
          if _pyyaml_float_text(v, d.value, vp)]
    r.check(bool(fl) and all(any(isinstance_atom(g) and isinstance_atom(g)[0] == vp and p and isinstance_atom(g)[1] <= {'float'}
                                 for g, p in v.guards(d)) for d in fl),
            'set_value text: a float is spelt by PyYAML\'s represent_float', v.key('text:float'), v.loc(),
            'set_value writes str(value) for a float: 1e+20, inf and nan are not YAML floats, and the dump then carries an explicit '
            '!!float tag')
    # None: str(None) == 'None' does not resolve to null, so the dump carries an explicit `!!null 'None'` (F30, fixed by f824033).
    # Every definition of the text that is `str(value)` must be out of reach of a None value: guarded by `value is None` held false,
    # or by a positive isinstance() on types that exclude NoneType.
    def _excludes_none(gs) -> bool:
        for g, p in gs:
            if G.canon_atom(g, p) == ('%s is None' % vp, False):
                return True
            ia = isinstance_atom(g)
            if ia and ia[0] == vp and p and 'NoneType' not in ia[1]:
                return True
        return False

    def _text_defs(e: ast.AST, at: ast.AST, extra, depth=0):
        """(expression, guards) pairs that can be the text `e` read at `at` - through local names and conditional expressions"""
        if isinstance(e, ast.IfExp):
            return _text_defs(e.body, at, extra + [(e.test, True)], depth) + _text_defs(e.orelse, at, extra + [(e.test, False)], depth)
        if isinstance(e, ast.Name) and depth < 4:
            out = []
            for d in reaching_defs(v, at, e.id):
                out += _text_defs(d.value, d, extra + list(v.guards(d)), depth + 1)
            if out:
                return out
        return [(e, extra + list(v.guards(at)))]

    nonesites = []
    seen_texts = 0
    for n in news:
        if len(n.args) > 1:
            for e, gs in _text_defs(n.args[1], n, []):
                if norm(e) == 'str(%s)' % vp or (isinstance(e, ast.Constant) and e.value in ('null', '~', '', 'Null', 'NULL')):
                    seen_texts += 1
                if norm(e) == 'str(%s)' % vp and not _excludes_none(gs):
                    nonesites.append(n)
    if not seen_texts:
        # neither the str() fallback nor a null spelling is among the texts the rule can see: it would pass without having looked
        raise AnalysisError('anchor missing: the text that Node.set_value writes for None / through str(value)')
    r.check(not nonesites, "set_value text: None is not spelt str(None) (a null scalar's text resolves to null: 'null', '~' or '')",
            v.key('text:None'), v.loc(nonesites[0]) if nonesites else v.loc(),
            "set_value(None) writes the text 'None' under the null tag: PyYAML's serializer does not resolve 'None' to null, and the dump "
            "carries an explicit tag (`!!null 'None'`)")
    bn = [n for n in v.walk() if isinstance(n, ast.Assign) and norm(n.value) == "'true' if %s else 'false'" % vp]
    r.check(bool(bn) and all(v.has_guard(n, 'isinstance(%s, bool)' % vp, True, expand=False) for n in bn), 'the bool text is chosen '
            'under isinstance(value, bool)', v.key('bool-guard'), v.loc(), 'set_value\'s bool spelling is not selected by isinstance(value, bool)')
    # is_scalar
    i = fn(P, NODE + 'is_scalar')
    tp = i.fi.params[1]
    rets = [x for x in i.returns() if x.value is not None and 'scalar_type_to_tag[%s]' % tp in norm(x.value)]
    ok = bool(rets) and all(known_instance(i.guards(x), 'self.yaml_node', {'ScalarNode'}) for x in rets) \
        and all('self.yaml_node.tag' in norm(x.value) for x in rets)
    r.check(ok, 'is_scalar(typ) compares the node tag with scalar_type_to_tag[typ] under isinstance(ScalarNode)', i.key('typed'), i.loc(),
            'is_scalar(typ) does not compare the tag of a ScalarNode with scalar_type_to_tag[typ]')
    trues = [x for x in i.returns() if isinstance(x.value, ast.Constant) and x.value.value is True]
    r.check(all(known_instance(i.guards(x), 'self.yaml_node', {'ScalarNode'}) for x in trues), 'is_scalar() is True only for a ScalarNode',
            i.key('untyped'), i.loc(), 'is_scalar() can be True for a node that is not a ScalarNode')
    # without a type every ScalarNode is a scalar, whatever its tag (is_scalar/is_mapping/is_sequence partition the nodes)
    anyr = [x for x in i.returns() if ('%s is _Any' % tp, True) in {G.canon_atom(g, p) for g, p in i.guards(x)}
            and known_instance(i.guards(x), 'self.yaml_node', {'ScalarNode'})]
    r.check(bool(anyr) and all(isinstance(x.value, ast.Constant) and x.value.value is True for x in anyr),
            'is_scalar() without a type answers True for every ScalarNode', i.key('untyped-any-scalar'), i.loc(anyr[0]) if anyr else i.loc(),
            'is_scalar() without a type answers `%s` for a ScalarNode: a scalar with a custom or rarer core tag (!!binary, !Class) '
            'is neither scalar, mapping nor sequence, and require_scalar() rejects it' % (norm(anyr[0].value) if anyr and anyr[0].value is not None else 'nothing'))
    r.done()


def r17_7_set_value_marks(ctx, rid='R17.7'):
    P = ctx.P
    r = ctx.rule(rid, 'a node replaced by Node.set_value keeps the position of the node it replaces (constructor errors for enums and '
                      'string-likes cite node.start_mark after savorize)', floor=2)
    v = fn(P, NODE + 'set_value')
    news = [n for n in v.walk() if isinstance(n, ast.Call) and norm(n.func) in ('yaml.ScalarNode', 'ScalarNode')]
    if not news:
        raise AnalysisError('anchor missing: ScalarNode construction in Node.set_value')
    for n in news:
        for i, m in ((2, 'start_mark'), (3, 'end_mark')):
            arg = n.args[i] if len(n.args) > i else G.kwarg(n, m)
            got = _reaching_texts(v, arg) if arg is not None else {'<default None>'}
            r.check(got == {'self.yaml_node.%s' % m}, 'set_value: new node\'s %s = self.yaml_node.%s' % (m, m), v.key('mark:%s' % m),
                    v.loc(n), 'the node installed by set_value gets %s as its %s instead of the replaced node\'s: an error about this '
                    'value is reported at a position that is not the value\'s (or not in the document at all)' % (sorted(got), m))
    r.done()


def r18_6_set_value_copies(ctx, rid='R18.6'):
    P = ctx.P
    r = ctx.rule(rid, 'Node.set_value never edits the wrapped node in place: on every path it installs a fresh ScalarNode (an anchored '
                      'scalar is one node object for all its aliases; the class tag must land on the copy)', floor=1)
    v = fn(P, NODE + 'set_value')
    news = [n for n in v.walk() if isinstance(n, ast.Call) and norm(n.func) in ('yaml.ScalarNode', 'ScalarNode')]
    stores = [n for n in v.walk() if isinstance(n, ast.Assign) and any(norm(t) == 'self.yaml_node' for t in n.targets)]
    okstore = bool(stores) and all(any(isinstance(x, ast.Call) and x in news for x in S._flow_sources(v, n.value)) for n in stores)
    marks = {v.nid(n) for n in stores}
    allpaths = all(v.cfg.must_pass(v.cfg.entry, rn, marks) for rn in v.cfg.returns())
    r.check(okstore and allpaths, 'every exit of set_value has replaced self.yaml_node by a new ScalarNode', v.key('replaces-node'), v.loc(),
            'set_value can return without installing a new node: the shared node of an anchored scalar is then retagged in place by '
            'the loader and its other references are no longer recognised')
    inplace = [n for n in v.walk() if isinstance(n, (ast.Attribute,)) and isinstance(n.ctx, ast.Store) and norm(n.value) == 'self.yaml_node']
    r.check(not inplace, 'no attribute of the wrapped node is assigned', v.key('in-place-write'), v.loc(inplace[0]) if inplace else v.loc(),
            'set_value writes %s in place' % (norm(inplace[0]) if inplace else ''))
    r.done()


NODE_TAG_OF_CLASS = {'MappingNode': {CORE + 'map'}, 'SequenceNode': {CORE + 'seq'},
                     'ScalarNode': {CORE + t for t in ('str', 'int', 'float', 'bool', 'null')}}


def r14_11_built_nodes(ctx, rid='R14.11'):
    """nodes that Node/the transforms build carry the plain core tag of their kind (what the recogniser and PyYAML expect)"""
    P = ctx.P
    r = ctx.rule(rid, 'every node built in helpers.py carries the plain core tag of its kind (MappingNode: map, SequenceNode: seq, '
                      'ScalarNode: a core scalar tag, scalar_type_to_tag[..] or the tag of the node it replaces); is_empty and seq_items '
                      'read the whole value list', floor=10)
    m = P.module('yatiml.helpers')
    for fi in m.functions.values():
        f = None
        for c in walk_function(fi.node):
            if isinstance(c, ast.Call) and norm(c.func) in ('yaml.MappingNode', 'yaml.SequenceNode', 'yaml.ScalarNode',
                                                           'MappingNode', 'SequenceNode', 'ScalarNode'):
                f = f or S.fn_of(fi)
                if not f.live(c):
                    continue
                cls_ = norm(c.func).split('.')[-1]
                tag = c.args[0] if c.args else G.kwarg(c, 'tag')
                srcs = _reaching_texts(f, tag) if tag is not None else {'<missing>'}
                ok = True
                for s_ in srcs:
                    try:
                        lit = ast.literal_eval(s_)
                    except Exception:
                        lit = None
                    if isinstance(lit, str):
                        ok = ok and lit in NODE_TAG_OF_CLASS[cls_]
                    else:
                        ok = ok and cls_ == 'ScalarNode' and (s_.startswith('scalar_type_to_tag[') or s_.endswith('yaml_node.tag'))
                r.check(ok, '%s: %s(%s, ..)' % (fi.qual, cls_, sorted(srcs)), '%s:built-node-tag:%s' % (fi.key, cls_), fi.loc(c),
                        '%s builds a %s tagged %s: the loader/recogniser (plain seq/map tag test, exact scalar tags) and a plain YAML '
                        'parser do not take it for a %s' % (fi.qual, cls_, sorted(srcs), cls_))
    e = fn(P, NODE + 'is_empty')
    rets = e.returns()
    r.check(len(rets) == 1 and rets[0].value is not None and G.canon_atom(rets[0].value) == ('self.yaml_node.value', False),
            'is_empty() == (len(self.yaml_node.value) == 0)', e.key('emptiness'), e.loc(),
            'is_empty does not answer whether the value list is empty (%s)' % (norm(rets[0].value) if rets and rets[0].value is not None else None))
    q = fn(P, NODE + 'seq_items')
    rets = q.returns()
    okq = len(rets) == 1 and rets[0].value is not None and q.alpha.text(rets[0].value) in (
        'list(map(Node, self.yaml_node.value))', '[Node(<each:self.yaml_node.value>) for <each:self.yaml_node.value> in self.yaml_node.value]')
    if not okq and len(rets) == 1 and isinstance(rets[0].value, ast.ListComp):
        lc = rets[0].value
        okq = len(lc.generators) == 1 and not lc.generators[0].ifs and norm(lc.generators[0].iter) == 'self.yaml_node.value' \
            and norm(lc.elt) == 'Node(%s)' % norm(lc.generators[0].target)
    r.check(okq, 'seq_items wraps every item, in order', q.key('all-items'), q.loc(), 'seq_items does not return a Node for every item in order')
    r.done()


def _const_value(f, e):
    """(True, value) when e is a literal or a module-level constant bound to one"""
    if isinstance(e, ast.Name) and e.id in f.fi.module.constants and e.id not in f.fi.params:
        e = f.fi.module.constants[e.id]
    try:
        return True, ast.literal_eval(e)
    except Exception:
        return False, None


def _absent_answers(ai):
    """what Node.__attr_index answers when no key equals the attribute: the values it can return that were not bound / returned
    under a key match (None for falling off the end).  None if one of them is not a constant."""
    from ..facts import reaching_defs
    attr = ai.fi.params[1]
    out = set()

    def matched(n):
        return any(p and isinstance(g, ast.Compare) and attr in [norm(g.left)] + [norm(c) for c in g.comparators]
                   and isinstance(g.ops[0], ast.Eq) for g, p in ai.guards(n))
    for ret in ai.returns():
        v = ret.value
        if v is None:
            out.add(None)
            continue
        exprs = []
        if isinstance(v, ast.Name) and v.id not in ai.fi.params and v.id not in ai.fi.module.constants:
            for d in reaching_defs(ai, ret, v.id):
                if isinstance(d, ast.Assign) and len(d.targets) == 1 and isinstance(d.targets[0], ast.Name):
                    exprs.append((d.value, matched(d)))
                elif not matched(d):
                    return None
        else:
            exprs.append((v, matched(ret)))
        for e, m in exprs:
            if m:
                continue
            ok, val = _const_value(ai, e)
            if not ok:
                return None
            out.add(val)
    if ai.falls_off_end():
        out.add(None)
    return out


def _presence(f, node, iv: str, sentinel):
    """'found' / 'absent' when the guards of `node` decide whether the index variable `iv` holds a real index or the answer
    `sentinel` of __attr_index; None when they leave it open.  Each guard atom comparing iv with a constant is evaluated for
    iv = sentinel and for iv = a real index (0, 1, 7)."""
    import operator
    OPS = {ast.Eq: operator.eq, ast.NotEq: operator.ne, ast.Is: operator.eq, ast.IsNot: operator.ne, ast.Lt: operator.lt,
           ast.LtE: operator.le, ast.Gt: operator.gt, ast.GtE: operator.ge}
    verdict = None
    for g, pol in f.guards(node):
        if not (isinstance(g, ast.Compare) and len(g.ops) == 1 and type(g.ops[0]) in OPS):
            continue
        l, r_ = g.left, g.comparators[0]
        if isinstance(l, ast.Name) and l.id == iv:
            ok, c = _const_value(f, r_)
            cmp_ = lambda x: OPS[type(g.ops[0])](x, c)
        elif isinstance(r_, ast.Name) and r_.id == iv:
            ok, c = _const_value(f, l)
            cmp_ = lambda x: OPS[type(g.ops[0])](c, x)
        else:
            continue
        if not ok:
            continue
        try:
            at_sentinel = cmp_(sentinel) == pol
            at_index = [cmp_(i) == pol for i in (0, 1, 7)]
        except TypeError:
            continue
        if not at_sentinel and all(at_index):
            verdict = 'found'
        elif at_sentinel and not any(at_index):
            verdict = 'absent'
    return verdict


def r14_3_positions(ctx):
    P = ctx.P
    r = ctx.rule('R14.3', 'position discipline of the mapping accessors: set on an existing key stores at the found index, a new '
                          'key is appended, remove pops the found index, rename only rewrites the key text, __attr_index finds the '
                          'first match; the readers write nothing', floor=8)
    ai = fn(P, NODE + '__attr_index')
    answers = _absent_answers(ai)
    r.check(answers is not None and len(answers) == 1 and not isinstance(next(iter(answers)), bool)
            and (next(iter(answers)) is None or (isinstance(next(iter(answers)), int) and next(iter(answers)) < 0)),
            '__attr_index answers one value that is not an index when the key is absent: %s' % (sorted(map(repr, answers)) if answers else '?'),
            ai.key('absent-answer'), ai.loc(), '__attr_index has no single "absent" answer that cannot be an index (%s)'
            % (sorted(map(repr, answers)) if answers is not None else 'not a constant'))
    sentinel = next(iter(answers)) if answers and len(answers) == 1 else None
    s = fn(P, NODE + 'set_attribute')
    idx_calls = [c for c in s.calls('__attr_index')]
    iv = None
    for c in idx_calls:
        st = enclosing_stmt(c)
        if isinstance(st, ast.Assign) and isinstance(st.targets[0], ast.Name):
            iv = st.targets[0].id
    if iv is None:
        r.fail(s.key('no-index-lookup'), s.loc(), 'set_attribute does not look the attribute up with __attr_index')
    else:
        for n in s.walk():
            tgt = None
            kind = None
            if isinstance(n, ast.Subscript) and isinstance(n.ctx, ast.Store) and norm(n.value) == 'self.yaml_node.value':
                tgt, kind = n, 'store[%s]' % norm(n.slice)
            elif isinstance(n, ast.Call) and isinstance(n.func, ast.Attribute) and norm(n.func.value) == 'self.yaml_node.value' \
                    and n.func.attr in MUTATORS:
                tgt, kind = n, n.func.attr
            elif isinstance(n, ast.Assign) and any(norm(t) == 'self.yaml_node.value' for t in n.targets):
                tgt, kind = n, 'rebuild'
            if tgt is None:
                continue
            pres = _presence(s, tgt, iv, sentinel)
            found, absent = pres == 'found', pres == 'absent'
            if found:
                r.check(kind == 'store[%s]' % iv, 'existing key: item store at the found index', s.key('found:%s' % kind), s.loc(tgt),
                        'set_attribute on an existing key does %s: the key does not keep its position' % kind)
            elif absent:
                r.check(kind == 'append', 'new key: append at the end', s.key('absent:%s' % kind), s.loc(tgt),
                        'set_attribute on a new key does %s instead of appending' % kind)
            else:
                r.fail(s.key('unguarded:%s' % kind), s.loc(tgt), 'set_attribute changes the pair list (%s) without knowing whether the '
                       'key exists' % kind)
        # the stored pair keeps the key node
        st = [n for n in s.walk() if isinstance(n, ast.Assign) and isinstance(n.targets[0], ast.Subscript)
              and norm(n.targets[0].value) == 'self.yaml_node.value']
        r.check(all(isinstance(n.value, ast.Tuple) and len(n.value.elts) == 2
                    and _reaching_texts(s, n.value.elts[0]) == {'self.yaml_node.value[%s][0]' % iv} for n in st) and bool(st),
                'the existing key node is kept', s.key('keeps-key-node'), s.loc(), 'set_attribute replaces the key node of an existing key')
    rm = fn(P, NODE + 'remove_attribute')
    muts = [n for n in rm.walk() if isinstance(n, ast.Call) and isinstance(n.func, ast.Attribute) and n.func.attr in MUTATORS
            and 'yaml_node.value' in norm(n.func.value)]
    ivs = [enclosing_stmt(c).targets[0].id for c in rm.calls('__attr_index') if isinstance(enclosing_stmt(c), ast.Assign)]
    ok = len(muts) == 1 and muts[0].func.attr == 'pop' and ivs and [norm(a) for a in muts[0].args] == [ivs[0]] \
        and _presence(rm, muts[0], ivs[0], sentinel) == 'found' and not enclosing_loops(muts[0], rm.node)
    r.check(ok, 'remove_attribute: one pop(found index) under "found"', rm.key('pop'), rm.loc(),
            'remove_attribute does not remove exactly the found pair (%s)' % [norm(m) for m in muts])
    rn = fn(P, NODE + 'rename_attribute')
    writes = []
    for n in rn.walk():
        if isinstance(n, (ast.Attribute, ast.Subscript)) and isinstance(n.ctx, (ast.Store, ast.Del)):
            writes.append(norm(n))
        if isinstance(n, ast.Call) and isinstance(n.func, ast.Attribute) and (n.func.attr in MUTATORS or n.func.attr in (
                'set_attribute', 'remove_attribute', 'make_mapping', 'set_value')):
            writes.append(norm(n.func))
    kv = None
    for l in [n for n in rn.walk() if isinstance(n, ast.For)]:
        if norm(l.iter) == 'self.yaml_node.value' and isinstance(l.target, ast.Tuple):
            kv = norm(l.target.elts[0])
    # index form: the key node at the index __attr_index found for the attribute
    ivs_rn = [enclosing_stmt(c).targets[0].id for c in rn.calls('__attr_index')
              if isinstance(enclosing_stmt(c), ast.Assign) and isinstance(enclosing_stmt(c).targets[0], ast.Name)
              and [norm(a) for a in c.args] == [rn.fi.params[1]]]
    if kv is None and ivs_rn:
        stores = [n for n in rn.walk() if isinstance(n, ast.Assign) and len(n.targets) == 1 and isinstance(n.targets[0], ast.Attribute)]
        want = 'self.yaml_node.value[%s][0].value' % ivs_rn[0]
        def target_texts(t):
            return {'%s.%s' % (b, t.attr) for b in _reaching_texts(rn, t.value)}
        ok_ix = (len(writes) == 1 and len(stores) == 1 and target_texts(stores[0].targets[0]) == {want}
                 and norm(stores[0].value) == rn.fi.params[2] and _presence(rn, stores[0], ivs_rn[0], sentinel) == 'found'
                 and not enclosing_loops(stores[0], rn.node))
        r.check(ok_ix, 'rename_attribute writes only the text of the key node at the found index, to new_name', rn.key('writes'), rn.loc(),
                'rename_attribute writes %s: renaming must keep the pair in place (only the text of the found key changes, to the new name)'
                % writes)
    else:
        r.check(kv is not None and writes == ['%s.value' % kv], 'rename_attribute writes only the key node\'s text (%s.value)' % kv,
                rn.key('writes'), rn.loc(), 'rename_attribute writes %s: renaming must keep the pair in place (only the key text changes)' % writes)
    if kv is not None:
        st = [n for n in rn.walk() if isinstance(n, ast.Assign) and norm(n.targets[0]) == '%s.value' % kv]
        r.check(all(rn.has_guard(n, '%s.value == %s' % (kv, rn.fi.params[1]), True, expand=False) and norm(n.value) == rn.fi.params[2]
                    for n in st), 'only the matching key is renamed, to new_name', rn.key('which-key'), rn.loc(),
                'rename_attribute renames a key that does not match / to something else')
    rets = ai.returns()
    loops = [n for n in ai.walk() if isinstance(n, ast.For)]
    first = False
    for l in loops:
        if norm(l.iter) == 'enumerate(self.yaml_node.value)':
            # leaves the loop at the first match (break or return inside the match branch)
            exits = [n for st in l.body for n in ast.walk(st) if isinstance(n, (ast.Break, ast.Return))]
            first = bool(exits) and all(any('== %s' % ai.fi.params[1] in t for t in ai.guard_texts(x)) for x in exits)
    r.check(first, '__attr_index stops at the first key equal to the attribute', ai.key('first-match'), ai.loc(),
            '__attr_index does not return the first matching index (with a repeated key, set/remove would hit another occurrence '
            'than has/get)')
    # readers are write-free
    from ..effects import world
    W = world(P)
    for name in ('has_attribute', 'get_attribute', 'has_attribute_type', 'is_scalar', 'is_mapping', 'is_sequence', 'get_value',
                 'is_empty', 'seq_items', '__attr_index'):
        fi = P.func(NODE + name)
        summ = {x for x in W.summary(fi) if x != 'fresh'}
        r.check(not summ, '%s writes nothing' % name, fi.key + ':pure', fi.loc(), '%s writes %s' % (name, sorted(summ)))
    r.done()


def _esc_sites(f: Fn) -> List[Tuple[ast.AST, str]]:
    """conversion calls int()/float() on node text or on an Any-typed value that are not under a handler"""
    out = []
    for n in f.walk():
        if isinstance(n, ast.Call) and isinstance(n.func, ast.Name) and n.func.id in ('int', 'float') and n.args:
            if not f.cfg.enclosing_handlers(n):
                out.append((n, n.func.id))
    return out


def _strip_bool(v):
    while isinstance(v, ast.Call) and isinstance(v.func, ast.Name) and v.func.id in ('bool', 'cast') and v.args:
        v = v.args[-1]
    return v


def _matches_oracle(vn: str, df: str, tag: str, cell: str):
    """decides the atoms of matches(value_node, default) for one cell: the node's tag is `tag`; the default is None ('none'),
    True, False, an int, a float or something else ('other': a str, a list, an object)"""
    def is_tag_expr(e):
        e = _strip_bool(e)
        if isinstance(e, ast.Call) and isinstance(e.func, ast.Name) and e.func.id == 'str' and len(e.args) == 1:
            e = e.args[0]
        return norm(e) == '%s.tag' % vn

    def o(e):
        if isinstance(e, ast.Name) and e.id == df:
            # the default itself as a condition: None and False are false, True is true; a number or anything else may be either
            return {'none': False, 'true': True, 'false': False}.get(cell)
        if isinstance(e, ast.Compare) and len(e.ops) == 1:
            l, op, rr = e.left, e.ops[0], e.comparators[0]
            if isinstance(op, (ast.Eq, ast.NotEq)):
                for a, b in ((l, rr), (rr, l)):
                    if is_tag_expr(a) and isinstance(b, ast.Constant) and isinstance(b.value, str):
                        return (b.value == tag) == isinstance(op, ast.Eq)
            if isinstance(op, (ast.In, ast.NotIn)) and is_tag_expr(l) and isinstance(rr, (ast.Tuple, ast.List, ast.Set)) \
                    and all(isinstance(x, ast.Constant) for x in rr.elts):
                return (tag in [x.value for x in rr.elts]) == isinstance(op, ast.In)
            if isinstance(op, (ast.Is, ast.IsNot)) and norm(l) == df and isinstance(rr, ast.Constant) and (
                    rr.value is None or isinstance(rr.value, bool)):
                val = {'none': None, 'true': True, 'false': False}.get(cell, Ellipsis)
                return (val is rr.value) == isinstance(op, ast.Is)
        ia = isinstance_atom(e)
        if ia and ia[0] == df:
            types = ia[1]
            if cell in ('none', 'other'):
                return False if types <= {'int', 'float', 'bool', 'complex'} else None
            if cell == 'int':
                return True if 'int' in types else (False if types <= {'float', 'bool', 'complex', 'str'} else None)
            if cell == 'float':
                return True if 'float' in types else (False if types <= {'int', 'bool', 'complex', 'str'} else None)
            if cell in ('true', 'false'):
                return True if types & {'int', 'bool'} else (False if types <= {'float', 'complex', 'str'} else None)
        return None
    return o


def _r14_4_table(r, f: Fn, vn: str, df: str):
    """decision table of matches(): node tag x kind of default -> answer, independent of how the branches are arranged"""
    from ..dtable import Evaluator, Unsupported
    CELLS = ('none', 'true', 'false', 'int', 'float', 'other')
    TRUE_W, FALSE_W = {'true', 'yes', 'y', 'on'}, {'false', 'no', 'n', 'off'}

    def table(tag):
        out = {}
        for cell in CELLS:
            ev = Evaluator(_matches_oracle(vn, df, CORE + tag, cell))
            out[cell] = (ev, ev.run(f.node))
        return out

    def answers(ev, ocs):
        """set of three-valued answers, None = depends on something the cell does not fix"""
        res = set()
        for oc in ocs:
            if oc.kind == 'return' and oc.value is not None:
                res.add(ev.truth(_strip_bool(oc.value)))
            elif oc.kind == 'raise':
                res.add('raise')
            else:
                res.add(False)
        return res
    try:
        tabs = {t: table(t) for t in ('null', 'int', 'float', 'bool', 'str')}
    except Unsupported as e:
        r.fail(f.key('shape'), f.loc(), 'matches() is no longer a loop-free decision (%s): its answers cannot be tabulated' % e)
        return
    # null: matches exactly the default None
    got = {c: answers(*tabs['null'][c]) for c in CELLS}
    r.check(got['none'] == {True} and all(got[c] == {False} for c in CELLS if c != 'none'),
            'a null node matches only the default None', f.key('null-arm'), f.loc(),
            'a null value is considered equal to the default in the cells %s (expected: only for the default None)' % {
                c: sorted(map(str, v)) for c, v in got.items()})
    # int / float: the value PyYAML constructs for the node is compared with the default itself (a default that is not a number
    # compares unequal; an explicit `isinstance(default, (int, float))` guard answering False for those is the same thing)
    for t in ('int', 'float'):
        ok = True
        shown = ''
        cellname = ''
        for c in CELLS:
            ev, ocs = tabs[t][c]
            for oc in ocs:
                v = _strip_bool(oc.value) if oc.kind == 'return' and oc.value is not None else None
                good = isinstance(v, ast.Compare) and len(v.ops) == 1 and isinstance(v.ops[0], ast.Eq) and {
                    norm(v.left), norm(v.comparators[0])} == {'_yaml_constructor.construct_yaml_%s(%s)' % (t, vn), df}
                if not good and c in ('none', 'other') and isinstance(v, ast.Constant) and v.value is False:
                    good = True
                if not good:
                    ok = False
                    shown, cellname = (norm(v) if v is not None else oc.kind), c
        r.check(ok, '%s node: PyYAML\'s construct_yaml_%s(node) == default (or False outright for a default that is no number)' % (t, t),
                f.key('arm:%s' % t), f.loc(),
                'for %s nodes matches() answers `%s` (default: %s) instead of comparing the value PyYAML constructs for the node with the '
                'default: such values are compared as raw text / through the wrong conversion / match a default they differ from'
                % (t, shown, cellname))
    # bool: default True -> true spellings, default False -> false spellings, anything else never matches
    got = {c: answers(*tabs['bool'][c]) for c in CELLS}
    r.check(all(got[c] == {False} for c in ('none', 'int', 'float', 'other')), 'a bool node never matches a default that is neither True nor False',
            f.key('bool-other-default'), f.loc(), 'a bool node is considered equal to a default that is neither True nor False '
            '(answers %s): e.g. an Optional[bool] = None attribute holding a bool is dropped from the dump and comes back as None'
            % {c: sorted(map(str, got[c])) for c in ('none', 'int', 'float', 'other')})
    for cell, want, other, key in (('true', TRUE_W, FALSE_W, 'bool-true-arm'), ('false', FALSE_W, TRUE_W, 'bool-false-arm')):
        ev, ocs = tabs['bool'][cell]
        ok = bool(ocs)
        words = set()
        for oc in ocs:
            v = _strip_bool(oc.value) if oc.kind == 'return' and oc.value is not None else None
            if v is None or isinstance(v, ast.Constant):
                ok = False
                continue
            w = {const_str(x) for x in ast.walk(v) if isinstance(x, ast.Constant) and isinstance(x.value, str)}
            words |= w
            texts = {norm(x) for x in ast.walk(v) if isinstance(x, ast.Attribute)}
            if not (w and w <= want and '%s.value' % vn in texts):
                ok = False
            # the words are lower case: the node text must be folded before it is compared (YAML writes True / TRUE / Yes as well)
            folded = any(isinstance(x, ast.Call) and isinstance(x.func, ast.Attribute) and x.func.attr in ('lower', 'casefold')
                         and '%s.value' % vn in norm(x.func.value) for x in ast.walk(v))
            if not folded:
                ok = False
        r.check(ok, 'default %s matches only %s-spellings %s' % (cell.capitalize(), cell, sorted(words)), f.key(key), f.loc(),
                'under `default is %s` the node text is compared with %s: a %s value would be dropped from the dump and come back '
                'as %s' % (cell.capitalize(), sorted(words), 'False' if cell == 'true' else 'True', cell.capitalize()))
    # every other tag: text == default, unconverted
    okr = True
    shown = ''
    for c in CELLS:
        ev, ocs = tabs['str'][c]
        for oc in ocs:
            v = _strip_bool(oc.value) if oc.kind == 'return' and oc.value is not None else None
            shown = norm(v) if v is not None else oc.kind
            if not (isinstance(v, ast.Compare) and len(v.ops) == 1 and isinstance(v.ops[0], ast.Eq)
                    and {norm(v.left), norm(v.comparators[0])} == {'%s.value' % vn, df}):
                okr = False
    r.check(okr, 'every other node: text == default, unconverted', f.key('text-arm'), f.loc(),
            'for str (and other) nodes matches() answers `%s` instead of comparing the node text with the default itself: a string '
            'attribute whose text merely spells a non-string default (\'None\', \'0\', \'True\') is dropped from the dump and comes '
            'back as that default' % shown)


def _r14_4_filter(ctx, r, f: Fn):
    """the filter: keep the pair unless (name in defaults and matches(value, defaults[name])) - as a comprehension or as an
    accumulating loop"""
    from ..dtable import Evaluator, text_oracle
    P = ctx.P
    outer = fn(P, NODE + 'remove_attributes_with_default_values')
    mname = f.node.name
    D = 'defaulted_attributes(%s)' % outer.fi.params[1]
    K, V = '<each:self.yaml_node.value>[0]', '<each:self.yaml_node.value>[1]'
    A, B = '%s.value in %s' % (K, D), '%s(%s, %s[%s.value])' % (mname, V, D, K)
    cands = []          # (element, keep-condition) of every way the pair list is rebuilt
    for n in outer.walk():
        if isinstance(n, ast.Assign) and any(norm(t) == 'self.yaml_node.value' for t in n.targets):
            v = n.value
            if isinstance(v, ast.ListComp) and len(v.generators) == 1 and norm(v.generators[0].iter) == 'self.yaml_node.value':
                g = v.generators[0]
                cond = g.ifs[0] if len(g.ifs) == 1 else ast.BoolOp(ast.And(), list(g.ifs)) if g.ifs else ast.Constant(True)
                cands.append((v.elt, cond))
            elif isinstance(v, ast.Name):
                acc = v.id
                for lo in outer.walk():
                    if not (isinstance(lo, ast.For) and norm(lo.iter) == 'self.yaml_node.value' and whole_collection_loop(lo)):
                        continue
                    body = [st for st in lo.body if not (isinstance(st, ast.Assign) and len(st.targets) == 1
                                                         and isinstance(st.targets[0], ast.Name))]
                    if len(body) == 1 and isinstance(body[0], ast.If) and not body[0].orelse and len(body[0].body) == 1:
                        a = body[0].body[0]
                        if isinstance(a, ast.Expr) and isinstance(a.value, ast.Call) and norm(a.value.func) == '%s.append' % acc \
                                and len(a.value.args) == 1:
                            cands.append((a.value.args[0], body[0].test))
    ok = False
    for elt, cond in cands:
        if outer.alpha.text(elt) != '(%s, %s)' % (K, V):
            continue
        c = outer.alpha.rewrite(cond)
        good = True
        for a in (False, True):
            for b in (False, True):
                ev = Evaluator(text_oracle({A: a, B: b}))
                if ev.truth(c) is not (not (a and b)):
                    good = False
        ok = ok or good
    r.check(ok, 'pairs are kept, in order, unless the key is defaulted and matches(value, default)', outer.key('filter'), outer.loc(),
            'remove_attributes_with_default_values does not keep exactly the pairs whose value differs from the default')


def r14_4_matches_total(ctx, rid='R14.4'):
    P = ctx.P
    r = ctx.rule(rid, 'remove_attributes_with_default_values cannot fail on a value that differs from the default: conversions of '
                      'the default are type-guarded, numeric node text is compared by its own kind', floor=4)
    key = NODE + 'remove_attributes_with_default_values.matches'
    if not P.has_func(key):
        raise AnalysisError('anchor missing: %s' % key)
    f = fn(P, key)
    vn, df = f.fi.params[0], f.fi.params[1]
    for n, kind in _esc_sites(f):
        arg = norm(n.args[0])
        if df in {x.id for x in ast.walk(n.args[0]) if isinstance(x, ast.Name)}:
            ok = any(isinstance_atom(g) and isinstance_atom(g)[0] == df and p and isinstance_atom(g)[1] <= {'int', 'float', 'bool'}
                     for g, p in f.guards(n))
            r.check(ok, '%s(%s) only under isinstance(%s, (int, float))' % (kind, arg, df), f.key('convert-default:%s' % kind), f.loc(n),
                    '%s(%s) is applied to an arbitrary default (None, a str, a list): a non-default value makes sweetening raise '
                    'TypeError/ValueError' % (kind, arg))
        else:
            # conversion of the node text: must be the conversion of the arm's own tag
            a, _ = tag_equalities(f.guards(n), '%s.tag' % vn, f.copies)
            want = {repr(CORE + 'int'): 'int', repr(CORE + 'float'): 'float'}
            ok = a is not None and len(a) == 1 and want.get(next(iter(a))) == kind
            r.check(ok, '%s(%s) in the %s arm' % (kind, arg, kind), f.key('convert-text:%s' % kind), f.loc(n),
                    'the text of a node tagged %s is converted with %s(): an int is compared through float (2**60+1 == 2**60) or '
                    'a float text through int' % (sorted(a) if a else '?', kind))
    _r14_4_table(r, f, vn, df)
    _r14_4_filter(ctx, r, f)
    r.done()


def r15_4_no_node_twice(ctx, rid='R15.4'):
    P = ctx.P
    r = ctx.rule(rid, 'a seasoning transform never inserts one node object at two positions of the tree (a shared node is '
                      'retagged once per reference)', floor=1)
    f = fn(P, NODE + 'map_attribute_to_index')
    loops = [n for n in f.walk() if isinstance(n, ast.For) and 'yaml_node.value' in norm(n.iter) and isinstance(n.target, ast.Tuple)]
    if not loops:
        raise AnalysisError('anchor missing: pair loop in map_attribute_to_index')
    lo = loops[0]
    kv = norm(lo.target.elts[0])
    uses = []
    for n in ast.walk(lo):
        if isinstance(n, ast.Call) and isinstance(n.func, ast.Attribute) and n.func.attr == 'append' and n.args \
                and isinstance(n.args[0], ast.Tuple):
            for x in n.args[0].elts:
                if norm(x) == kv:
                    uses.append(n)
    # placements that can both happen in one pass of the loop (alternatives in different arms count once)
    twice = False
    for a in uses:
        for b in uses:
            if a is not b:
                an, bn = f.nid(a), f.nid(b)
                hdr = f.nid(lo.iter)
                if an is not None and bn is not None and bn in f.cfg.reachable(an, avoid={hdr} if hdr is not None else set()):
                    twice = True
        if sum(1 for x in a.args[0].elts if norm(x) == kv) > 1:
            twice = True
    r.check(not twice, 'the key node itself is placed once per entry (as the outer key); the inner key attribute is a copy '
            '(%d direct placements, never two on one path)' % len(uses), f.key('key-node-placed-twice'), f.loc(lo),
            'map_attribute_to_index places the same key node object both as the outer key and as the value of the key attribute: '
            'when the key attribute is a string-like/enum/Path class the shared node is retagged by the first reference and '
            'rejected at the second')
    cp = [n for n in ast.walk(lo) if isinstance(n, ast.Call) and call_name(n) in ('copy', 'deepcopy', 'ScalarNode') and
          any(norm(a) == kv or kv + '.' in norm(a) for a in n.args)]
    r.check(bool(cp), 'the inner key attribute value is a copy of / a new node built from the key node', f.key('key-copy'), f.loc(lo),
            'map_attribute_to_index does not copy the key node for the key attribute')
    r.done()


TRANSFORMS = ('seq_attribute_to_map', 'map_attribute_to_seq', 'index_attribute_to_map', 'map_attribute_to_index')


def r14_6_get_attribute_guarded(ctx, rid='R14.6', transforms=False):
    P = ctx.P
    r = ctx.rule(rid, 'absent keys are reported, not crashed on: every internal X.get_attribute(k) is dominated by '
                      'X.has_attribute(k) on the same receiver and name, or lies in a handler for SeasoningError', floor=3)
    n = 0
    for fi in P.yatiml_functions():
        f = None
        if (fi.name in TRANSFORMS) != transforms:
            continue
        for c in walk_function(fi.node):
            if isinstance(c, ast.Call) and isinstance(c.func, ast.Attribute) and c.func.attr == 'get_attribute' and c.args:
                f = f or S.fn_of(fi)
                if not f.live(c):
                    continue
                n += 1
                recv, name = norm(c.func.value), norm(c.args[0])
                ok = f.has_guard(c, '%s.has_attribute(%s)' % (recv, name), True, expand=False)
                if not ok and S.handler_for(f, c, {'SeasoningError', 'Exception', 'RuntimeError'}) is not None:
                    ok = True
                if not ok:
                    # `if not X.has_attribute(k): return/raise` earlier on every path
                    neg = S.branch_nodes(f, lambda a: S.atom_is(a, '%s.has_attribute(%s)' % (recv, name), True))
                    ok = bool(neg) and f.cfg.must_pass(f.cfg.entry, f.nid(c), neg)
                r.check(ok, '%s: %s.get_attribute(%s) under has_attribute' % (fi.qual, recv, name),
                        '%s:unguarded-get_attribute:%s.get_attribute(%s)' % (fi.key, f.alpha.text(c.func.value), name), fi.loc(c),
                        '%s.get_attribute(%s) is reached without %s.has_attribute(%s): a missing (or repeated) key raises '
                        'SeasoningError out of %s' % (recv, name, recv, name, fi.qual))
    r.done()


YAML_INT_FLOAT_NOTE = 'PyYAML accepts 0x1F, 0b1, 0o17/017, 1_000, 1:30 as int and .inf/.nan as float; int()/float() do not'


def _pyyaml_float_text(f: Fn, e: ast.AST, val: str) -> bool:
    """`e` is <SafeRepresenter instance>.represent_float(<val>).value (possibly wrapped in str(), which is the identity on it)"""
    while isinstance(e, ast.Call) and isinstance(e.func, ast.Name) and e.func.id in ('str', 'cast') and e.args and not e.keywords:
        e = e.args[-1]
    if not (isinstance(e, ast.Attribute) and e.attr == 'value' and isinstance(e.value, ast.Call) and isinstance(e.value.func, ast.Attribute)
            and e.value.func.attr == 'represent_float' and len(e.value.args) == 1 and norm(e.value.args[0]) == val):
        return False
    recv = e.value.func.value
    src = f.fi.module.constants.get(recv.id) if isinstance(recv, ast.Name) else recv
    return src is not None and norm(src).endswith('SafeRepresenter()')


def _pyyaml_scalar_call(P: Program, f: Fn, e: ast.AST, kind: str, node_text: str) -> bool:
    """`e` (through typing.cast) is <SafeConstructor instance>.construct_yaml_<kind>(<node>)"""
    while isinstance(e, ast.Call) and isinstance(e.func, ast.Name) and e.func.id in ('cast', 'bool') and e.args:
        e = e.args[-1]
    if not (isinstance(e, ast.Call) and isinstance(e.func, ast.Attribute) and e.func.attr == 'construct_yaml_%s' % kind
            and len(e.args) == 1 and norm(e.args[0]) == node_text):
        return False
    recv = e.func.value
    src = f.fi.module.constants.get(recv.id) if isinstance(recv, ast.Name) else recv
    return src is not None and norm(src).endswith('SafeConstructor()')


def r14_9_get_value_text(ctx, rid='R14.9', dump_side=True):
    P = ctx.P
    r = ctx.rule(rid, 'get_value() returns what a load would construct: the text of int and float nodes is converted by PyYAML\'s own '
                      'construct_yaml_int / construct_yaml_float, not by Python\'s int()/float() (YAML spells 0x1F, 1:30, 017, .inf)',
                 floor=2)
    g = fn(P, NODE + 'get_value')
    for kind in ('int', 'float'):
        rets = [x for x in g.returns() if tag_equalities(g.guards(x), 'self.yaml_node.tag', g.copies)[0] == {repr(CORE + kind)}]
        for x in rets:
            r.check(x.value is not None and _pyyaml_scalar_call(P, g, x.value, kind, 'self.yaml_node'),
                    'get_value: %s nodes are read by SafeConstructor.construct_yaml_%s' % (kind, kind), g.key('bare-%s-on-node-text' % kind),
                    g.loc(x), 'get_value converts the text of a %s node with %s: %s' % (kind, norm(x.value)[:60] if x.value is not None else None,
                                                                                  YAML_INT_FLOAT_NOTE))
        if not rets:
            r.fail(g.key('bare-%s-on-node-text' % kind), g.loc(), 'get_value has no arm for %s nodes' % kind)
    if dump_side:
        m = fn(P, NODE + 'remove_attributes_with_default_values.matches')
        vn = m.fi.params[0]
        for kind in ('int', 'float'):
            rets = [x for x in m.returns() if tag_equalities(m.guards(x), '%s.tag' % vn, m.copies)[0] == {repr(CORE + kind)}
                    and not (isinstance(x.value, ast.Constant))]
            for x in rets:
                v = x.value
                while isinstance(v, ast.Call) and isinstance(v.func, ast.Name) and v.func.id == 'bool' and v.args:
                    v = v.args[0]
                conv_ = [c for c in ast.walk(v) if isinstance(c, ast.Call) and (
                    (isinstance(c.func, ast.Name) and c.func.id in ('int', 'float')) or
                    (isinstance(c.func, ast.Attribute) and c.func.attr.startswith('construct_yaml_')))] if v is not None else []
                r.check(bool(conv_) and all(_pyyaml_scalar_call(P, m, c, kind, vn) for c in conv_),
                        'matches(): %s nodes are read by SafeConstructor.construct_yaml_%s' % (kind, kind), m.key('bare-%s-on-node-text' % kind),
                        m.loc(x), 'matches() converts the text of a %s node with %s: a float attribute holding inf/nan is represented as '
                        '.inf/.nan and float(".inf") raises ValueError while sweetening; 017 is octal' % (kind, norm(v)[:60] if v is not None else None))
    r.done()


# =====================================================================================================
# C15
# =====================================================================================================

WRITE_METHODS = {'set_attribute', 'remove_attribute', 'make_mapping', 'set_value', 'rename_attribute',
                 'remove_attributes_with_default_values', 'unders_to_dashes_in_keys', 'dashes_to_unders_in_keys'} | set(TRANSFORMS)


def node_writes(f: Fn) -> List[ast.AST]:
    """statements/calls of f that modify a yaml node reachable from self (stores into .value/.yaml_node/.tag/marks,
    mutators on .value lists, calls of writing Node methods) - fresh local lists are not node writes"""
    out = []
    fresh = set()
    for n in f.walk():
        if isinstance(n, ast.Assign) and len(n.targets) == 1 and isinstance(n.targets[0], ast.Name) \
                and (norm(n.value) in ('list()', '[]', 'set()', 'dict()') or isinstance(n.value, (ast.List, ast.ListComp))):
            fresh.add(n.targets[0].id)
    for n in f.walk():
        if isinstance(n, ast.Attribute) and isinstance(n.ctx, (ast.Store, ast.Del)) and n.attr in (
                'value', 'yaml_node', 'tag', 'start_mark', 'end_mark', 'flow_style', 'style'):
            out.append(n)
        elif isinstance(n, ast.Subscript) and isinstance(n.ctx, (ast.Store, ast.Del)) and '.value' in norm(n.value):
            out.append(n)
        elif isinstance(n, ast.Call) and isinstance(n.func, ast.Attribute):
            if n.func.attr in MUTATORS and isinstance(n.func.value, ast.Name) and n.func.value.id in fresh:
                continue
            if n.func.attr in MUTATORS and '.value' in norm(n.func.value):
                out.append(n)
            elif n.func.attr in WRITE_METHODS:
                out.append(n)
    return out


def typestate_methods(P: Program) -> Dict[str, str]:
    """Node methods whose docstring says 'Use only if is_mapping()/is_sequence() returns True' -> required kind"""
    out = {}
    c = P.cls('yatiml.helpers:Node')
    for name, m in c.methods.items():
        d = ' '.join(m.docstring().split())
        if 'Use only if' in d:
            seg = d[d.index('Use only if'):][:120]
            kinds = []
            if 'is_mapping' in seg:
                kinds.append('mapping')
            if 'is_sequence' in seg:
                kinds.append('sequence')
            if kinds:
                out[name] = '|'.join(kinds)
    if len(out) < 6:
        raise AnalysisError('the typestate notes ("Use only if is_mapping() returns True") were not found in Node\'s docstrings')
    return out


def kind_known(f: Fn, call: ast.Call, recv: str, kind: str) -> bool:
    cls = {'mapping': 'MappingNode', 'sequence': 'SequenceNode'}
    gs = f.guards(call)
    for k in kind.split('|'):
        if any(norm(g) == '%s.is_%s()' % (recv, k) and p for g, p in gs):
            return True
        # a successful has_attribute() on the same receiver has iterated over (key, value) pairs
        if k == 'mapping' and any(isinstance(g, ast.Call) and call_name(g) == 'has_attribute' and norm(g.func.value) == recv and p
                                   for g, p in gs):
            return True
        if known_instance(gs, recv + '.yaml_node', {cls[k]}):
            return True
        # receiver is Node(x) with isinstance(x, K) known
        for rhs in assigned_from(f, recv) if recv.isidentifier() else []:
            if isinstance(rhs, ast.Call) and call_name(rhs) == 'Node' and rhs.args and known_instance(gs, norm(rhs.args[0]), {cls[k]}):
                return True
        # every definition of the receiver that reaches the call is Node(<a node built as K>) or Node(x) bound where
        # isinstance(x, K) was known, and the local is not a Node that something else could have rewrapped in between
        if recv.isidentifier():
            ds = reaching_defs(f, call, recv)
            def wraps_kind(d):
                v = d.value if isinstance(d, (ast.Assign, ast.AnnAssign)) else None
                if not (isinstance(d, ast.Assign) and len(d.targets) == 1 and isinstance(d.targets[0], ast.Name)):
                    return False
                if not (isinstance(v, ast.Call) and call_name(v) == 'Node' and len(v.args) == 1 and not v.keywords):
                    return False
                a0 = v.args[0]
                if isinstance(a0, ast.Call) and norm(a0.func) in ('yaml.%s' % cls[k], cls[k]):
                    return True
                return known_instance(f.guards(d), norm(a0), {cls[k]})
            if ds and all(wraps_kind(d) for d in ds):
                # between definition and call nothing turns the wrapper into something else: Node has no method that makes a
                # mapping a non-mapping except set_value (scalar) - not called on it
                if not any(isinstance(c, ast.Call) and isinstance(c.func, ast.Attribute) and c.func.attr == 'set_value'
                           and norm(c.func.value) == recv for c in f.walk()) \
                        and not any(isinstance(n, ast.Attribute) and isinstance(n.ctx, ast.Store) and n.attr == 'yaml_node'
                                    and norm(n.value) == recv for n in f.walk()):
                    return True
        # `if not recv.is_kind(): return` earlier on every path
        pos = S.branch_nodes(f, lambda a, k=k: S.atom_is(a, '%s.is_%s()' % (recv, k), True))
        if k == 'mapping':
            # recv.make_mapping() turns the wrapper into a mapping
            pos = pos | {f.nid(c) for c in f.calls('make_mapping') if norm(c.func.value) == recv and f.nid(c) != f.nid(call)}
        if pos and f.cfg.must_pass(f.cfg.entry, f.nid(call), pos):
            return True
    return False


def r15_1_typestate(ctx, rid='R15.1', scope='helpers'):
    P = ctx.P
    r = ctx.rule(rid, 'Node typestate (from the docstrings\' own "Use only if is_mapping()/is_sequence() returns True"): such a '
                      'method is called only on a receiver known to wrap that kind of node', floor=5)
    ts = typestate_methods(P)
    r.ok('typestate methods read from the docstrings: %s' % sorted(ts.items()))
    for fi in P.yatiml_functions():
        in_helpers = fi.module.name == 'yatiml.helpers'
        if (scope == 'helpers') != in_helpers:
            continue
        f = None
        for c in walk_function(fi.node):
            if isinstance(c, ast.Call) and isinstance(c.func, ast.Attribute) and c.func.attr in ts:
                recv = norm(c.func.value)
                if recv == 'self':
                    continue        # inside Node: the obligation is the caller's
                f = f or S.fn_of(fi)
                if not f.live(c):
                    continue
                ok = kind_known(f, c, recv, ts[c.func.attr])
                r.check(ok, '%s: %s.%s() on a known %s' % (fi.qual, recv, c.func.attr, ts[c.func.attr]),
                        '%s:typestate:%s.%s' % (fi.key, f.alpha.text(c.func.value), c.func.attr), fi.loc(c),
                        '%s.%s() is called although %s is not known to wrap a %s node: for a scalar the pair-unpacking loop raises '
                        'ValueError (iterating over characters)' % (recv, c.func.attr, recv, ts[c.func.attr]))
    r.done()


def exit_id(f: Fn, x: ast.AST) -> str:
    """stable name of an exit: its kind, exception class, and innermost guard"""
    gt = [('' if p else 'not ') + t for t, p in (f.alpha.atom(g, p) for g, p in f.guards(x))]
    what = 'return' if isinstance(x, ast.Return) else 'raise %s' % S.raise_class(x)
    return '%s@%s' % (what, gt[-1] if gt else 'entry')


def r15_10_duplicates_leave_the_node_alone(ctx, rid='R15.10'):
    """"duplicate keys raising SeasoningError only in strict mode" - and otherwise "the node is left unchanged": where a transform
    tests a key against the set of keys it has seen, the duplicate case leaves the function on both sides of `strict` (raise / silent
    return) before anything is written; it must not fall through to the construction."""
    P = ctx.P
    r = ctx.rule(rid, 'a duplicate key ends the transform before any write: raise under strict, silent return otherwise', floor=1)
    n = 0
    for name in TRANSFORMS:
        f = fn(P, NODE + name)
        params = f.fi.params
        if 'strict' not in params:
            continue
        # the sets of seen keys: locals that receive .add(<key text>) in a loop
        seen = {c.func.value.id for c in f.walk() if isinstance(c, ast.Call) and isinstance(c.func, ast.Attribute) and c.func.attr == 'add'
                and isinstance(c.func.value, ast.Name) and enclosing_loops(c, f.node)}
        tests = [b for b in f.cfg.nodes if b.kind == 'test' and any(
            isinstance(x, ast.Compare) and len(x.ops) == 1 and isinstance(x.ops[0], (ast.In, ast.NotIn)) and isinstance(x.comparators[0], ast.Name)
            and x.comparators[0].id in seen for x in ast.walk(b.ast))]
        if not seen or not tests:
            continue
        n += 1

        def dup(x):
            """is exit x taken only when a key was seen before?"""
            for g, p in f.guards(x):
                for cmp_ in [y for y in ast.walk(g) if isinstance(y, ast.Compare) and len(y.ops) == 1 and isinstance(y.ops[0], (ast.In, ast.NotIn))
                             and isinstance(y.comparators[0], ast.Name) and y.comparators[0].id in seen]:
                    t, pol = G.canon_atom(cmp_, True)
                    if any(G.canon_atom(a_, p_) == (t, True) for a_, p_ in S.conj_atoms(g, p)):
                        return True
            return False
        raises = [x for x in f.raises() if dup(x)]
        rets = [x for x in f.returns() if (x.value is None or (isinstance(x.value, ast.Constant) and x.value.value is None)) and dup(x)]
        strict_raise = [x for x in raises if any(t == 'strict' for t in f.guard_texts(x))]
        r.check(bool(strict_raise), '%s: a duplicate key raises under strict' % name, f.key('duplicate:no-strict-raise'), f.loc(),
                '%s never raises for a duplicate key in strict mode' % name)
        silent = [x for x in rets if not any(t == 'strict' for t in f.guard_texts(x))]
        r.check(bool(silent), '%s: a duplicate key without strict returns before anything is written' % name, f.key('duplicate:no-silent-return'),
                f.loc(tests[0].ast), '%s has no silent return for a duplicate key when strict is false: it goes on and builds the mapping from '
                'items with equal keys - the node is changed (and holds a duplicate key) where the documentation says it is left alone' % name)
    if not n:
        r.ok('no transform tests keys against a set of seen keys')
    r.done()


def r15_2_do_nothing_exits(ctx, rid='R15.2', guards_only: bool = False):
    """guards_only: just the clause "kind and presence are established before anything is written" (what makes a second application
    through an alias find nothing to do)"""
    P = ctx.P
    if guards_only:
        r = ctx.rule(rid, 'a transform that finds the attribute absent or already of the other kind writes nothing: every node write is '
                          'dominated by the presence test and the kind test (a second run on an aliased node is a no-op)', floor=8)
    else:
        r = ctx.rule(rid, 'transforms are all-or-nothing: no node write can be followed by a do-nothing return or a raise; raises occur '
                          'only where documented (duplicate key under strict, non-string key attribute)', floor=8)
    for name in TRANSFORMS:
        f = fn(P, NODE + name)
        ws = [(w, f.nid(w)) for w in node_writes(f)]
        ws = [(w, n) for w, n in ws if n is not None]
        exits = [x for x in f.returns() if x.value is None] + f.raises()
        for x in ([] if guards_only else exits):
            xn = f.nid(x)
            bad = [w for w, wn in ws if xn in f.cfg.reachable(wn) and wn != xn]
            kind = 'return' if isinstance(x, ast.Return) else 'raise'
            r.check(not bad, '%s: %s at %s is not preceded by a node write' % (name, kind, f.loc(x)),
                    f.key('%s-after-write:%s' % (kind, exit_id(f, x))), f.loc(x),
                    '%s: the %s at line %d can be reached after the node was already modified (%s at line %d): the node is left '
                    'half-transformed' % (name, 'silent return' if kind == 'return' else 'raise', x.lineno,
                                          norm(bad[0])[:40] if bad else '', bad[0].lineno if bad else 0))
        for x in ([] if guards_only else f.raises()):
            gt = f.guard_texts(x)
            documented = any(t == 'strict' for t in gt) or any('.is_scalar(str)' in t and t.startswith('not ') for t in gt)
            r.check(documented, '%s: raise under %s (documented)' % (name, [t for t in gt if t == 'strict' or 'is_scalar' in t]),
                    f.key('undocumented-raise:%s' % exit_id(f, x)), f.loc(x),
                    '%s raises %s where the documentation says it silently does nothing' % (name, norm(x)[:60]))
        # presence / kind guards come first
        attr = f.fi.params[1]
        firsts = [w for w, wn in ws]
        pres = S.branch_nodes(f, lambda a: S.atom_is(a, 'self.has_attribute(%s)' % attr, True))
        for w, wn in ws:
            r.check(bool(pres) and f.cfg.must_pass(f.cfg.entry, wn, pres), '%s: write %s is dominated by has_attribute(%s)'
                    % (name, norm(w)[:30], attr), f.key('write-without-presence:%s' % norm(w)[:30]), f.loc(w),
                    '%s writes the node without having checked that the attribute exists' % name)
        # ... and of the expected kind
        kind = 'is_sequence' if name.startswith('seq_') else 'is_mapping'
        want = 'self.get_attribute(%s).%s()' % (attr, kind)
        kinds = S.branch_nodes(f, lambda a: any(p and f.alpha.text(g) == want for g, p in a))
        okk = bool(kinds) and all(f.cfg.must_pass(f.cfg.entry, wn, kinds) for w, wn in ws)
        r.check(okk, '%s: every write is dominated by %s' % (name, want), f.key('write-without-kind-check'), f.loc(),
                '%s modifies the node although the attribute may not be a %s (documented: silently do nothing): a scalar or a '
                'collection of the other kind is torn apart or raises' % (name, 'sequence' if kind == 'is_sequence' else 'mapping'))
    r.done()


def r15_3_mirror(ctx):
    P = ctx.P
    r = ctx.rule('R15.3', 'unders_to_dashes_in_keys and dashes_to_unders_in_keys are mirror images over all keys', floor=2)
    shapes = {}
    for name, a, b in (('unders_to_dashes_in_keys', '_', '-'), ('dashes_to_unders_in_keys', '-', '_')):
        f = fn(P, NODE + name)
        loops = [n for n in f.walk() if isinstance(n, ast.For) and norm(n.iter) == 'self.yaml_node.value']
        ok = False
        if len(loops) == 1 and whole_collection_loop(loops[0]) and isinstance(loops[0].target, ast.Tuple):
            kv = norm(loops[0].target.elts[0])
            body = [st for st in loops[0].body]
            ok = len(body) == 1 and isinstance(body[0], ast.Assign) and norm(body[0].targets[0]) == '%s.value' % kv \
                and norm(body[0].value) == "%s.value.replace(%r, %r)" % (kv, a, b)
        r.check(ok, '%s: every key text gets replace(%r, %r)' % (name, a, b), f.key('shape'), f.loc(),
                '%s does not replace %r by %r in every key' % (name, a, b))
    r.done()


def _inloop_atoms(f: Fn, n: ast.AST, loop: ast.AST) -> Set[Tuple[str, bool]]:
    """canonical, alpha-renamed guard atoms (inside `loop`) under which `n` is evaluated"""
    out = set()
    for b in f.cfg.guard_nodes(f.nid(n)):
        if not any(x is loop for x in S._ancestors_list(b.ast)):
            continue
        if isinstance(b.ast, ast.BoolOp):
            # a compound test held as a whole (the failing side of `a and b`, the passing side of `a or b`): a condition like any other.
            # Its parts appear as atoms of their own on the side where they are all known; there the whole says nothing new.
            parts = {f.alpha.atom(v, True)[0] for v in b.ast.values}
            known = {t for t, _ in {f.alpha.atom(x.ast, x.pol) for x in f.cfg.guard_nodes(f.nid(n)) if not isinstance(x.ast, ast.BoolOp)}}
            if parts <= known:
                continue
            out.add((f.alpha.text(b.ast), b.pol))
            continue
        out.add(f.alpha.atom(b.ast, b.pol))
    return out


def _pair_loop(f: Fn) -> Optional[ast.For]:
    los = [n for n in f.walk() if isinstance(n, ast.For) and isinstance(n.target, ast.Tuple) and len(n.target.elts) == 2
           and f.alpha.text(n.iter).endswith('yaml_node.value')]
    return los[0] if los else None


def r15_5_decisions(ctx):
    P = ctx.P
    r = ctx.rule('R15.5', 'the transforms decide on exactly the documented conditions (wrap a non-mapping value only when a value '
                          'attribute is given; short form only when the value attribute is the sole remaining key)', floor=4)
    # map_attribute_to_index: wrap
    f = fn(P, NODE + 'map_attribute_to_index')
    lo = _pair_loop(f)
    if lo is None:
        raise AnalysisError('anchor missing: pair loop over the attribute mapping in map_attribute_to_index')
    kv, vv = (f.alpha.text(x) for x in lo.target.elts)
    va = f.fi.params[3]
    wraps = [n for n in ast.walk(lo) if isinstance(n, ast.Call) and norm(n.func) in ('yaml.MappingNode', 'MappingNode')]
    for w in wraps:
        at = _inloop_atoms(f, w, lo)
        exp = {('isinstance(%s, yaml.MappingNode)' % vv, False), ('%s is None' % va, False)}
        r.check(at == exp, 'map_attribute_to_index wraps exactly when the value is not a mapping and a value attribute is given',
                f.key('wrap-condition'), f.loc(w), 'map_attribute_to_index wraps a value under %s (documented: any value that is not '
                'a mapping, when value_attribute is given - lists included)' % sorted(at))
    if not wraps:
        r.fail(f.key('no-wrap'), f.loc(), 'map_attribute_to_index never wraps short-form values')
    apps = [n for n in ast.walk(lo) if isinstance(n, ast.Call) and isinstance(n.func, ast.Attribute) and n.func.attr == 'append'
            and '.value' in norm(n.func.value)]
    for a in apps:
        at = _inloop_atoms(f, a, lo)
        ok = len(at) == 1 and next(iter(at))[1] and 'isinstance(' in next(iter(at))[0] and 'MappingNode' in next(iter(at))[0]
        if not ok:
            # ... or to the mapping that was just built around a short-form value (the wrap condition, checked above)
            base = a.func.value
            while isinstance(base, ast.Attribute):
                base = base.value
            if isinstance(base, ast.Name):
                ds = reaching_defs(f, a, base.id)
                built = bool(ds) and all(isinstance(d, ast.Assign) and isinstance(d.value, ast.Call)
                                         and norm(d.value.func) in ('yaml.MappingNode', 'MappingNode') for d in ds)
                ok = built and at == {('isinstance(%s, yaml.MappingNode)' % vv, False), ('%s is None' % va, False)}
        r.check(ok, 'the key attribute is added to every mapping value', f.key('key-attribute-condition'), f.loc(a),
                'the key attribute is added under %s' % sorted(at))
    # index_attribute_to_map: short form
    f = fn(P, NODE + 'index_attribute_to_map')
    lo = _pair_loop(f)
    if lo is None:
        raise AnalysisError('anchor missing: pair loop over the attribute mapping in index_attribute_to_map')
    kv, vv = (f.alpha.text(x) for x in lo.target.elts)
    va, ka = f.fi.params[3], f.fi.params[2]
    def through(e, depth=3):
        """alpha text of e, following a local that was re-bound per branch to the one definition that reaches this use"""
        if isinstance(e, ast.Name) and depth > 0:
            ds = reaching_defs(f, e, e.id)
            if len(ds) == 1 and isinstance(ds[0], ast.Assign) and len(ds[0].targets) == 1 and isinstance(ds[0].targets[0], ast.Name):
                return through(ds[0].value, depth - 1)
        return f.alpha.text(e)
    short = [n for n in ast.walk(lo) if isinstance(n, ast.Call) and isinstance(n.func, ast.Attribute) and n.func.attr == 'append'
             and n.args and isinstance(n.args[0], ast.Tuple) and through(n.args[0].elts[1]) == '%s.value[0][1]' % vv]
    for a in short:
        at = {x for x in _inloop_atoms(f, a, lo) if 'isinstance' not in x[0]}
        exp = {('len(%s.value) == 1' % vv, True), ('%s.value[0][0].value == %s' % (vv, va), True)}
        r.check(at == exp, 'index_attribute_to_map: short form exactly when one key remains and it is the value attribute',
                f.key('short-form-condition'), f.loc(a), 'index_attribute_to_map uses the short form under %s: an entry whose only '
                'remaining key is NOT the value attribute is collapsed and cannot be expanded again' % sorted(at))
    if not short:
        r.fail(f.key('no-short-form'), f.loc(), 'index_attribute_to_map never produces the short form')
    filt = [n for n in ast.walk(lo) if isinstance(n, ast.Assign) and f.alpha.text(n.targets[0]) == '%s.value' % vv
            and isinstance(n.value, ast.ListComp)]
    okf = False
    if len(filt) == 1:
        g = filt[0].value.generators[0]
        if isinstance(g.target, ast.Tuple) and len(g.ifs) == 1 and f.alpha.text(g.iter) == '%s.value' % vv:
            okf = G.canon_atom(g.ifs[0]) == ('%s.value == %s' % (norm(g.target.elts[0]), ka), False) \
                and norm(filt[0].value.elt) in (norm(g.target), '(%s)' % norm(g.target))
    r.check(okf, 'the key attribute (and only it) is filtered out of each entry',
            f.key('key-filter'), f.loc(), 'index_attribute_to_map does not remove exactly the key attribute from each entry')
    # seq_attribute_to_map: short form
    f = fn(P, NODE + 'seq_attribute_to_map')
    ka, va = f.fi.params[2], f.fi.params[3]
    apps = [n for n in f.walk() if isinstance(n, ast.Call) and isinstance(n.func, ast.Attribute) and n.func.attr == 'append'
            and n.args and isinstance(n.args[0], ast.Tuple) and len(n.args[0].elts) == 2]
    lo2 = [l for l in S.enclosing_loops(apps[0], f.node) if isinstance(l, ast.For)][0] if apps else None
    it = f.alpha.text(lo2.target) if lo2 is not None else '?'
    shorts = [a for a in apps if f.alpha.text(a.args[0].elts[1]) == '%s.get_attribute(%s).yaml_node' % (it, va)]
    longs = [a for a in apps if f.alpha.text(a.args[0].elts[1]) == '%s.yaml_node' % it]
    for a in shorts:
        at = _inloop_atoms(f, a, lo2)
        exp = {('%s is None' % va, False), ('len(%s.yaml_node.value) == 1' % it, True)}
        r.check(at == exp, 'seq_attribute_to_map: short form exactly when a value attribute is given and it is the only other key',
                f.key('short-form-condition'), f.loc(a), 'seq_attribute_to_map uses the short form under %s' % sorted(at))
    r.check(bool(shorts) and bool(longs), 'seq_attribute_to_map has a short and a long form', f.key('forms'), f.loc(),
            'seq_attribute_to_map lost its short or long form')
    if lo2 is not None:
        through = {f.nid(a) for a in shorts + longs}
        r.check(f.cfg.must_pass(f.first_nid(lo2.body[0]), f.nid(lo2.iter), through) and whole_collection_loop(lo2),
                'every item of the sequence yields exactly one entry of the new mapping', f.key('every-item-kept'), f.loc(lo2),
                'seq_attribute_to_map can pass an item without adding it to the new mapping: items are silently dropped')
    for name in ('index_attribute_to_map', 'map_attribute_to_index', 'map_attribute_to_seq'):
        g = fn(P, NODE + name)
        lo3 = _pair_loop(g)
        if lo3 is None:
            continue
        apps3 = {g.nid(n) for n in ast.walk(lo3) if isinstance(n, ast.Call) and isinstance(n.func, ast.Attribute) and n.func.attr == 'append'
                 and not any(isinstance(x, (ast.For, ast.While, ast.ListComp)) and x is not lo3 and any(y is x for y in S._ancestors_list(n))
                             for x in ast.walk(lo3))}
        apps3 = {a for a in apps3 if a is not None}
        if not apps3:
            continue
        # appends to the *result* list: those executed on the paths of the last statement group
        skips = [x for st in lo3.body for x in ast.walk(st) if isinstance(x, (ast.Break, ast.Continue))
                 and not any(isinstance(y, (ast.For, ast.While)) and y is not lo3 and any(z is y for z in S._ancestors_list(x))
                             for y in ast.walk(lo3))]
        r.check(not skips and g.cfg.must_pass(g.first_nid(lo3.body[0]), g.nid(lo3.iter), apps3), '%s: every entry of the mapping yields an '
                'entry of the result (no break/continue; each pass appends)' % name, g.key('every-entry-visited'), g.loc(lo3),
                '%s leaves its loop over the entries early: later entries are dropped' % name)
    # map_attribute_to_seq: wrap
    f = fn(P, NODE + 'map_attribute_to_seq')
    va = f.fi.params[3]
    mk = [c for c in f.calls('make_mapping')]
    for c in mk:
        lo3 = [l for l in S.enclosing_loops(c, f.node) if isinstance(l, ast.For)][0]
        at = _inloop_atoms(f, c, lo3)
        recv = norm(c.func.value)
        recv = f.alpha.text(c.func.value)
        exp = {('%s.is_mapping()' % recv, False), ('%s is None' % va, False)}
        r.check(at == exp, 'map_attribute_to_seq wraps exactly a non-mapping value when a value attribute is given', f.key('wrap-condition'),
                f.loc(c), 'map_attribute_to_seq wraps under %s' % sorted(at))
    r.done()


# =====================================================================================================
# C16
# =====================================================================================================

def r16_1_purity(ctx, rid='R16.1', roots=None, what='require_*'):
    P = ctx.P
    from ..effects import world, call_closure, direct_writes
    W = world(P)
    r = ctx.rule(rid, '%s never modify the node: the direct writes in their call closure (through Recognizer.recognize) touch '
                      'only fresh wrapper objects' % what, floor=2)
    keys = roots or [fi.key for fi in P.yatiml_functions() if fi.key.startswith(UNK + 'require_')]
    fis = call_closure(W, keys)
    n = 0
    for ev in direct_writes(W, fis):
        if ev.fi.name == '__init__' and ev.fi.cls is not None and ev.fi.cls.name in ('Node', 'UnknownNode', 'Recognizer') \
                and all(x.startswith('self') for x in ev.roots):
            n += 1
            continue
        r.fail('%s:%s' % (ev.fi.key, norm(ev.node) if not isinstance(ev.node, ast.Call) else norm(ev.node.func)), ev.fi.loc(ev.node),
               '%s (%s) writes %s: recognition / a require_* helper modifies the node it inspects' % (norm(ev.node)[:50], ev.how, sorted(ev.roots)))
    r.ok('%d functions in the closure of %d roots; %d writes, all initialising fresh wrappers' % (len(fis), len(keys), n))
    for k in keys[:6]:
        r.ok('root %s' % k)
    r.done()


def r16_2_kind_first(ctx, rid='R16.2'):
    P = ctx.P
    r = ctx.rule(rid, 'require_attribute* call require_mapping() before the first read of the pair list', floor=3)
    for name in ('require_attribute', 'require_attribute_value', 'require_attribute_value_not'):
        f = fn(P, UNK + name)
        rm = [c for c in f.calls('require_mapping') if norm(c.func.value) == 'self' and f.live(c)]
        reads = [n for n in f.walk() if isinstance(n, ast.Attribute) and n.attr == 'value' and norm(n.value) == 'self.yaml_node']
        ok = bool(rm) and bool(reads) and all(any(f.cfg.dominates(f.nid(c), f.nid(x)) and f.nid(c) != f.nid(x) for c in rm) for x in reads)
        alt = all(known_instance(f.guards(x), 'self.yaml_node', {'MappingNode'}) for x in reads) and bool(reads)
        r.check(ok or alt, '%s: require_mapping() dominates every read of self.yaml_node.value' % name, f.key('mapping-first'), f.loc(),
                '%s reads the pair list of a node that may not be a mapping: for a scalar the pair-unpacking loop raises ValueError '
                'instead of RecognitionError' % name)
    r.done()


def wrapper_kind_tests(P: Program) -> Dict[str, str]:
    """Node's no-argument kind tests, read from the source: {'is_mapping': 'MappingNode', ..} for every method of Node whose whole body
    is `return isinstance(self.yaml_node, yaml.K)`, provided Node.__init__ does nothing to its argument but store it as self.yaml_node.
    `Node(X).is_mapping()` then *is* `isinstance(X, yaml.MappingNode)`."""
    c = P.cls('yatiml.helpers:Node')
    init = c.methods.get('__init__')
    if init is None:
        return {}
    body = [st for st in init.node.body if not (isinstance(st, ast.Expr) and isinstance(st.value, ast.Constant))]
    params = [a.arg for a in init.node.args.args]
    if not (len(params) == 2 and len(body) == 1 and isinstance(body[0], ast.Assign) and len(body[0].targets) == 1
            and norm(body[0].targets[0]) == '%s.yaml_node' % params[0] and norm(body[0].value) == params[1]):
        return {}
    out = {}
    for name, m in c.methods.items():
        if len(m.node.args.args) != 1 or m.node.args.kwonlyargs or m.node.args.vararg or m.node.args.kwarg:
            continue
        b = [st for st in m.node.body if not (isinstance(st, ast.Expr) and isinstance(st.value, ast.Constant))]
        if len(b) == 1 and isinstance(b[0], ast.Return) and b[0].value is not None:
            ia = isinstance_atom(b[0].value)
            if ia and ia[0] == '%s.yaml_node' % m.node.args.args[0].arg and len(ia[1]) == 1:
                out[name] = next(iter(ia[1]))
    return out


def unwrap_kind_test(P: Program, g: ast.AST) -> ast.AST:
    """`Node(X).is_mapping()` -> `isinstance(X, yaml.MappingNode)` (see wrapper_kind_tests); anything else unchanged"""
    if isinstance(g, ast.UnaryOp) and isinstance(g.op, ast.Not):
        inner = unwrap_kind_test(P, g.operand)
        return g if inner is g.operand else ast.copy_location(ast.UnaryOp(ast.Not(), inner), g)
    if isinstance(g, ast.Call) and not g.args and not g.keywords and isinstance(g.func, ast.Attribute) and isinstance(g.func.value, ast.Call) \
            and norm(g.func.value.func) in ('Node', 'helpers.Node', 'yatiml.helpers.Node') and len(g.func.value.args) == 1 \
            and not g.func.value.keywords:
        k = wrapper_kind_tests(P).get(g.func.attr)
        if k is not None:
            new = ast.parse('isinstance(X, yaml.%s)' % k, mode='eval').body
            new.args[0] = g.func.value.args[0]
            return ast.fix_missing_locations(ast.copy_location(new, g))
    return g


def r16_3_decisions(ctx, rid='R16.3'):
    P = ctx.P
    r = ctx.rule(rid, 'each require_* helper raises RecognitionError exactly under the documented condition', floor=12)
    # require_mapping / require_sequence
    for name, cls_ in (('require_mapping', 'MappingNode'), ('require_sequence', 'SequenceNode')):
        f = fn(P, UNK + name)
        rs = f.raises()
        ok = len(rs) == 1 and S.raise_class(rs[0]) == 'RecognitionError' and \
            {f.alpha.atom(unwrap_kind_test(P, g), p) for g, p in f.guards(rs[0])} == {('isinstance(self.yaml_node, yaml.%s)' % cls_, False)}
        r.check(ok, '%s raises RecognitionError iff the node is not a %s' % (name, cls_), f.key('decision'), f.loc(),
                '%s does not raise exactly when the node is not a %s' % (name, cls_))
    # require_scalar
    f = fn(P, UNK + 'require_scalar')
    ap = f.fi.params[1]
    W = 'Node(self.yaml_node)'
    recvs = {f.alpha.text(c.func.value) for c in f.calls('is_scalar') if isinstance(c.func, ast.Attribute)}
    r.check(recvs == {W}, 'require_scalar inspects Node(self.yaml_node)', f.key('wrapped-node'), f.loc(),
            'require_scalar does not look at this node')
    n_untyped = sum(1 for rs in f.raises() if (ap, False) in {f.alpha.atom(g, p) for g, p in f.guards(rs)})
    r.check(n_untyped >= 1 and len(f.raises()) > n_untyped, 'require_scalar can reject both without and with types',
            f.key('rejects'), f.loc(), 'require_scalar has no raise for the %s case: every node is accepted'
            % ('untyped' if n_untyped == 0 else 'typed'))
    for rs in f.raises():
        gt = {f.alpha.atom(g, p) for g, p in f.guards(rs)}
        none_given = (ap, False) in gt
        if none_given:
            r.check((('%s.is_scalar()' % W, False) in gt or ('isinstance(self.yaml_node, yaml.ScalarNode)', False) in gt)
                    and S.raise_class(rs) == 'RecognitionError', 'require_scalar(): raises iff not '
                    'node.is_scalar()', f.key('untyped'), f.loc(rs), 'require_scalar() raises under %s' % sorted(gt))
        else:
            # after a whole loop over the types in which a match returns
            loops = [n for n in f.walk() if isinstance(n, ast.For) and norm(n.iter) == ap]
            ok = False
            for lo in loops:
                tv = f.alpha.text(lo.target)
                rets = [x for st in lo.body for x in ast.walk(st) if isinstance(x, ast.Return)]
                ok = bool(rets) and all(_inloop_atoms(f, x, lo) == {('%s.is_scalar(%s)' % (W, tv), True)} for x in rets) \
                    and f.cfg.dominates(f.nid(lo.iter), f.nid(rs)) and not S.breaks_of(lo, f.node) \
                    and not S.enclosing_loops(rs, f.node)
            r.check(ok and S.raise_class(rs) == 'RecognitionError', 'require_scalar(types): returns iff node.is_scalar(t) for some t '
                    '(is_scalar checks the node kind and the tag), raises after all were tried', f.key('typed'), f.loc(rs),
                    'require_scalar(types) does not delegate the decision to Node.is_scalar(t) for each given type: e.g. a '
                    'collection carrying an explicit scalar tag would be accepted')
    # require_attribute
    f = fn(P, UNK + 'require_attribute')
    at, tp = f.fi.params[1], f.fi.params[2]
    comps = [n for n in f.walk() if isinstance(n, ast.Assign) and isinstance(n.value, ast.ListComp) and isinstance(n.targets[0], ast.Name)]
    lst = None
    for n in comps:
        g = n.value.generators[0]
        if norm(g.iter) == 'self.yaml_node.value' and isinstance(g.target, ast.Tuple) and [norm(c) for c in g.ifs] == [
                '%s.value == %s' % (norm(g.target.elts[0]), at)] and norm(n.value.elt) == norm(g.target.elts[1]):
            lst = n.targets[0].id
    r.check(lst is not None, 'require_attribute collects the values of the pairs whose key text equals the attribute (a list, no '
            'hashing of keys)', f.key('lookup'), f.loc(), 'require_attribute does not look the attribute up by a plain scan over the pairs '
            '(a dict lookup hashes key values and fails on complex keys; with a repeated key another occurrence would decide)')
    if lst is not None:
        miss = [x for x in f.raises() if f.card(x, lst) == {0}]
        r.check(len(miss) == 1 and S.raise_class(miss[0]) == 'RecognitionError', 'raises iff no pair matches', f.key('missing'), f.loc(),
                'require_attribute does not raise exactly when the attribute is missing')
        firsts = [n for n in f.walk() if isinstance(n, ast.Subscript) and norm(n.value) == lst and isinstance(n.ctx, ast.Load)]
        r.check(bool(firsts) and all(norm(n.slice) == '0' for n in firsts), 'the first matching pair decides', f.key('first-match'), f.loc(),
                'require_attribute does not use the first matching pair')
        rc = [c for c in f.calls('recognize') if f.live(c)]
        okr = False
        for c in rc:
            st = enclosing_stmt(c)
            a0 = f.copies.expand(c.args[0], 1) if c.args else None
            if isinstance(st, ast.Assign) and isinstance(st.targets[0], ast.Tuple) and a0 is not None and '%s[0]' % lst in (norm(a0), norm(c.args[0])) \
                    and norm(c.func.value) == 'self.__recognizer' and ('%s == _Any' % tp, False) in {G.canon_atom(g, p) for g, p in f.guards(c)}:
                vv = norm(st.targets[0].elts[0])
                rs = [x for x in f.raises() if f.card(x, vv) == {0}]
                others = [x for x in f.raises() if x not in rs and x not in miss]
                okr = len(rs) == 1 and S.raise_class(rs[0]) == 'RecognitionError' and not others
        r.check(okr, 'with a type: raises iff the loader\'s recogniser returns an empty verdict for the attribute node', f.key('typed'), f.loc(),
                'require_attribute(name, type) does not delegate to self.__recognizer.recognize(attribute node, type) / does not raise '
                'exactly on an empty verdict')
    # require_attribute_value / _not
    for name, neg in (('require_attribute_value', False), ('require_attribute_value_not', True)):
        f = fn(P, UNK + name)
        at, vp = f.fi.params[1], f.fi.params[2]
        loops = [n for n in f.walk() if isinstance(n, ast.For) and norm(n.iter) == 'self.yaml_node.value' and isinstance(n.target, ast.Tuple)]
        if len(loops) != 1:
            r.fail(f.key('pair-loop'), f.loc(), '%s does not scan the pairs once' % name)
            continue
        lo = loops[0]
        kn, vn = (f.alpha.text(x) for x in lo.target.elts)
        keyatoms = {("%s.tag == 'tag:yaml.org,2002:str'" % kn, True), ('%s.value == %s' % (kn, at), True)}
        W = 'Node(%s)' % vn
        ts = '%s.is_scalar(type(%s))' % (W, vp)
        gv = [c for st in lo.body for c in ast.walk(st) if isinstance(c, ast.Call) and isinstance(c.func, ast.Attribute) and c.func.attr == 'get_value']
        ok_ts = bool(gv)
        for c in gv:
            if f.alpha.text(c.func.value) != W or (ts, True) not in {f.alpha.atom(g, p) for g, p in f.guards(c)}:
                ok_ts = False
        r.check(ok_ts, '%s: get_value() only after is_scalar(type(value)) on Node(value node)' % name, f.key('typestate'), f.loc(),
                '%s compares the value without first establishing that the node is a scalar of the value\'s type: bool/int/float '
                'cross-type equality leaks in (true == 1), and get_value() raises on other tags' % name)
        inl = [x for x in f.raises() if any(y is lo for y in S._ancestors_list(x))]
        outl = [x for x in f.raises() if x not in inl]
        rets = [x for st in lo.body for x in ast.walk(st) if isinstance(x, ast.Return)]
        # the flag: the local whose falsity guards the raise after the scan
        flag = None
        if len(outl) == 1:
            fl = [t for t, p in {f.alpha.atom(g, p) for g, p in f.guards(outl[0])} if not p and t.startswith('<var:')]
            flag = fl[0] if len(fl) == 1 else None
        found_set = [n for st in lo.body for n in ast.walk(st) if isinstance(n, ast.Assign) and flag is not None
                     and f.alpha.text(n.targets[0]) == flag]
        inits = [n for n in f.walk() if isinstance(n, ast.Assign) and flag is not None and f.alpha.text(n.targets[0]) == flag
                 and n not in found_set]
        r.check(bool(found_set) and all(_inloop_atoms(f, n, lo) == keyatoms and norm(n.value) == 'True' for n in found_set)
                and len(inits) == 1 and norm(inits[0].value) == 'False' and not S.enclosing_loops(inits[0], f.node),
                '%s: found is set exactly for a str-tagged key equal to the attribute' % name, f.key('found'), f.loc(),
                '%s marks the attribute as found under another condition' % name)
        if not neg:
            exp = [keyatoms | {(ts, False)}, keyatoms | {(ts, True), ('%s.get_value() == %s' % (W, vp), False)}]
            got = [_inloop_atoms(f, x, lo) for x in inl]
            r.check(sorted(map(sorted, got)) == sorted(map(sorted, exp)) and not rets, '%s raises for a wrong type and for a '
                    'different value' % name, f.key('decision'), f.loc(), '%s raises under %s' % (name, [sorted(g) for g in got]))
        else:
            exp = [keyatoms | {(ts, True), ('%s.get_value() == %s' % (W, vp), True)}]
            got = [_inloop_atoms(f, x, lo) for x in inl]
            rgot = [_inloop_atoms(f, x, lo) for x in rets]
            r.check(sorted(map(sorted, got)) == sorted(map(sorted, exp)) and rgot == [keyatoms | {(ts, False)}],
                    '%s raises for an equal value of the same type, accepts another type' % name, f.key('decision'), f.loc(),
                    '%s raises under %s / returns under %s' % (name, [sorted(g) for g in got], [sorted(g) for g in rgot]))
        r.check(len(outl) == 1 and flag is not None and S.raise_class(outl[0]) == 'RecognitionError'
                and f.cfg.dominates(f.nid(lo.iter), f.nid(outl[0])), '%s raises after the scan iff the key was not found' % name,
                f.key('not-found'), f.loc(), '%s does not raise exactly when the key is absent' % name)
        for x in f.raises():
            r.check(S.raise_class(x) == 'RecognitionError', '%s raises RecognitionError' % name, f.key('raise-class:%s' % S.raise_class(x)),
                    f.loc(x), '%s raises %s' % (name, S.raise_class(x)))
    r.done()


def r14_10_get_value_typestate(ctx, rid='R14.10'):
    P = ctx.P
    r = ctx.rule(rid, 'X.get_value() is called only after X.is_scalar(<type>) was established on the same receiver (get_value '
                      'raises for other tags and converts text by the tag)', floor=3)
    for fi in P.yatiml_functions():
        f = None
        for c in walk_function(fi.node):
            if isinstance(c, ast.Call) and isinstance(c.func, ast.Attribute) and c.func.attr == 'get_value' and not c.args:
                recv = norm(c.func.value)
                if recv == 'self':
                    continue
                f = f or S.fn_of(fi)
                if not f.live(c):
                    continue
                pos = S.branch_nodes(f, lambda a: any(p and isinstance(g, ast.Call) and call_name(g) == 'is_scalar' and g.args
                                                      and norm(g.func.value) == recv for g, p in a))
                ok = bool(pos) and f.cfg.must_pass(f.cfg.entry, f.nid(c), pos)
                r.check(ok, '%s: %s.get_value() after %s.is_scalar(T)' % (fi.qual, recv, recv), '%s:get_value-typestate:%s' % (fi.key, f.alpha.text(c.func.value)),
                        fi.loc(c), '%s.get_value() is reached without %s.is_scalar(<type>) having been established: for an int/float/'
                        'timestamp/collection node it raises ValueError/RuntimeError instead of the documented error' % (recv, recv))
    r.done()
