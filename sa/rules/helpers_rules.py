"""Rules over yatiml/helpers.py (Node / UnknownNode): C14, C15, C16 and parts of C05/C08."""
import ast
from typing import Dict, List, Optional, Set, Tuple

from ..model import AnalysisError, Program, walk_function, parent
from ..guards import norm, call_name, const_str, isinstance_atom, known_instance, tag_equalities, card_truth, name_subject
from ..facts import Fn, CORE, MUTATORS, assigned_from, enclosing_loops, whole_collection_loop, enclosing_stmt
from ..cfg import conj_atoms
from . import shared as S
from .shared import fn

NODE = 'yatiml.helpers:Node.'
UNK = 'yatiml.helpers:UnknownNode.'
TRUE_WORDS = {'true', 'True', 'TRUE'}
FALSE_WORDS = {'false', 'False', 'FALSE'}


def _tag_arms(f: Fn, subject: str) -> List[Tuple[str, ast.AST]]:
    """(tag literal, statement) for every statement guarded by `<subject> == '<tag>'`"""
    out = []
    for n in f.walk():
        if isinstance(n, (ast.Return, ast.Assign, ast.Expr, ast.Raise)):
            a, _ = tag_equalities(f.guards(n), subject, f.copies)
            if a and len(a) == 1:
                out.append((ast.literal_eval(next(iter(a))) if next(iter(a)).startswith("'") else next(iter(a)), n))
    return out


# =====================================================================================================
# C14
# =====================================================================================================

def r14_1_scalar_table(ctx):
    P = ctx.P
    r = ctx.rule('R14.1', 'one scalar table: get_value, set_value, set_attribute and is_scalar agree with scalar_type_to_tag',
                 floor=12)
    table = S.scalar_table(P)
    want = {'str': table['str'], 'int': table['int'], 'float': table['float'], 'bool': table['bool'], 'None': table['None']}
    # get_value: arms by tag
    g = fn(P, NODE + 'get_value')
    arms = {}
    for ret in g.returns():
        a, _ = tag_equalities(g.guards(ret), 'self.yaml_node.tag', g.copies)
        if a and len(a) == 1:
            arms[ast.literal_eval(next(iter(a)))] = ret
    conv = {want['str']: lambda v: v.startswith('str(') or v == 'self.yaml_node.value', want['int']: lambda v: v.startswith('int('),
            want['float']: lambda v: v.startswith('float('), want['bool']: lambda v: ' in ' in v or '==' in v,
            want['None']: lambda v: v == 'None'}
    for typ, tag in want.items():
        ret = arms.get(tag)
        ok = ret is not None and ret.value is not None and conv[tag](norm(ret.value)) and 'self.yaml_node.value' in (norm(ret.value) + ('self.yaml_node.value' if tag == want['None'] else ''))
        r.check(ok, 'get_value: tag %s -> %s' % (tag[len(CORE):], norm(ret.value) if ret is not None and ret.value is not None else None),
                g.key('arm:%s' % tag[len(CORE):]), g.loc(ret) if ret is not None else g.loc(),
                'get_value has no (correct) arm for tag %s (%s): is_scalar(%s) is True for such a node but get_value does not '
                'return a %s' % (tag, norm(ret.value) if ret is not None and ret.value is not None else 'missing', typ, typ))
    extra = set(arms) - set(want.values())
    r.check(not extra, 'get_value has arms exactly for the five scalar tags', g.key('extra-arms'), g.loc(),
            'get_value has arms for %s' % sorted(extra))
    r.check(not g.falls_off_end(), 'get_value raises for any other tag', g.key('fallthrough'), g.loc(), 'get_value can return None for '
            'a node that is not a null')
    # bool words
    bret = arms.get(want['bool'])
    if bret is not None and isinstance(bret.value, ast.Compare) and isinstance(bret.value.comparators[0], (ast.List, ast.Tuple, ast.Set)):
        words = {const_str(x) for x in bret.value.comparators[0].elts}
        r.check(words == TRUE_WORDS and isinstance(bret.value.ops[0], ast.In), 'get_value maps exactly %s to True' % sorted(TRUE_WORDS),
                g.key('true-words'), g.loc(bret), 'get_value treats %s as true (YAML 1.2 true-words are %s)' % (sorted(words), sorted(TRUE_WORDS)))
    # set_attribute: isinstance chain
    s = fn(P, NODE + 'set_attribute')
    val = s.fi.params[2]
    made = {}
    order = []
    for n in s.walk():
        if isinstance(n, ast.Call) and norm(n.func) in ('yaml.ScalarNode', 'ScalarNode') and n.args:
            tag = const_str(n.args[0])
            gs = s.guards(n)
            pos = [isinstance_atom(x) for x, p in gs if p and isinstance_atom(x) and isinstance_atom(x)[0] == val]
            none = any(norm(x) == '%s is None' % val and p for x, p in gs)
            if pos:
                made[sorted(pos[-1][1])[0]] = (tag, n)
                order.append(sorted(pos[-1][1])[0])
            elif none:
                made['None'] = (tag, n)
    for typ in ('str', 'bool', 'int', 'float', 'None'):
        tg = made.get(typ, (None, None))[0]
        r.check(tg == want[typ], 'set_attribute: %s value -> node tagged %s' % (typ, want[typ][len(CORE):]), s.key('arm:%s' % typ), s.loc(),
                'set_attribute builds a %s-tagged node for a %s value (scalar_type_to_tag says %s)' % (tg, typ, want[typ]))
    r.check('bool' in order and 'int' in order and order.index('bool') < order.index('int'), 'isinstance(bool) is tested before '
            'isinstance(int) (bool is a subclass of int)', s.key('bool-before-int'), s.loc(),
            'set_attribute tests int before bool: True would be written as an int node')
    # the text written for each type
    for typ, (tag, n) in made.items():
        txt = norm(s.copies.expand(n.args[1])) if len(n.args) > 1 else None
        exp = {'str': val, 'int': 'str(%s)' % val, 'float': 'str(%s)' % val, 'None': "''", 'bool': "'true' if %s else 'false'" % val}[typ]
        ok = txt == exp
        if typ == 'bool' and not ok:
            # loop/branch-local assignment: look at value_str definitions
            rhs = [norm(x) for x in assigned_from(s, norm(n.args[1]))] if isinstance(n.args[1], ast.Name) else []
            ok = exp in rhs
        if typ == 'None' and txt in ("'null'", "''"):
            ok = True
        r.check(ok, 'set_attribute: %s text = %s' % (typ, exp), s.key('text:%s' % typ), s.loc(n),
                'set_attribute writes %s as the text of a %s value (expected %s)' % (txt, typ, exp))
    # set_value
    v = fn(P, NODE + 'set_value')
    vp = v.fi.params[1]
    news = [n for n in v.walk() if isinstance(n, ast.Call) and norm(n.func) in ('yaml.ScalarNode', 'ScalarNode')]
    tagsrc = set()
    for n in news:
        for x in S._flow_sources(v, n.args[0]):
            tagsrc.add(norm(x))
    r.check('scalar_type_to_tag[type(%s)]' % vp in tagsrc, 'set_value takes the tag from scalar_type_to_tag[type(value)]',
            v.key('tag-source'), v.loc(), 'set_value does not tag the new node with scalar_type_to_tag[type(value)] (sources: %s)' % sorted(tagsrc))
    stores = [n for n in v.walk() if isinstance(n, ast.Assign) and any(norm(t) == 'self.yaml_node' for t in n.targets)]
    okstore = bool(stores) and all(any(isinstance(x, ast.Call) and x in news for x in S._flow_sources(v, n.value)) for n in stores)
    marks = {v.nid(n) for n in stores}
    allpaths = all(v.cfg.must_pass(v.cfg.entry, rn, marks) for rn in v.cfg.returns())
    r.check(okstore and allpaths, 'every exit of set_value has replaced self.yaml_node by the new ScalarNode', v.key('replaces-node'), v.loc(),
            'set_value can return without installing a node with the new tag and text (e.g. when the text is unchanged the tag '
            'of the old node stays): set_value(v); is_scalar(type(v)) / get_value() == v no longer hold')
    btxt = [norm(n.value) for n in v.walk() if isinstance(n, ast.Assign) and norm(n.targets[0]) == 'value_str']
    r.check("'true' if %s else 'false'" % vp in btxt and 'str(%s)' % vp in btxt, 'set_value text: true/false for bool, str(value) otherwise',
            v.key('text'), v.loc(), 'set_value writes %s' % btxt)
    bn = [n for n in v.walk() if isinstance(n, ast.Assign) and norm(n.value) == "'true' if %s else 'false'" % vp]
    r.check(bool(bn) and all(v.has_guard(n, 'isinstance(%s, bool)' % vp, True, expand=False) for n in bn), 'the bool text is chosen '
            'under isinstance(value, bool)', v.key('bool-guard'), v.loc(), 'set_value\'s bool spelling is not selected by isinstance(value, bool)')
    # is_scalar
    i = fn(P, NODE + 'is_scalar')
    tp = i.fi.params[1]
    rets = [x for x in i.returns() if x.value is not None and 'scalar_type_to_tag[%s]' % tp in norm(x.value)]
    ok = bool(rets) and all(known_instance(i.guards(x), 'self.yaml_node', {'ScalarNode'}) for x in rets) \
        and all('self.yaml_node.tag' in norm(x.value) for x in rets)
    r.check(ok, 'is_scalar(typ) compares the node tag with scalar_type_to_tag[typ] under isinstance(ScalarNode)', i.key('typed'), i.loc(),
            'is_scalar(typ) does not compare the tag of a ScalarNode with scalar_type_to_tag[typ]')
    trues = [x for x in i.returns() if isinstance(x.value, ast.Constant) and x.value.value is True]
    r.check(all(known_instance(i.guards(x), 'self.yaml_node', {'ScalarNode'}) for x in trues), 'is_scalar() is True only for a ScalarNode',
            i.key('untyped'), i.loc(), 'is_scalar() can be True for a node that is not a ScalarNode')
    r.done()


def r14_3_positions(ctx):
    P = ctx.P
    r = ctx.rule('R14.3', 'position discipline of the mapping accessors: set on an existing key stores at the found index, a new '
                          'key is appended, remove pops the found index, rename only rewrites the key text, __attr_index finds the '
                          'first match; the readers write nothing', floor=8)
    s = fn(P, NODE + 'set_attribute')
    idx_calls = [c for c in s.calls('__attr_index')]
    iv = None
    for c in idx_calls:
        st = enclosing_stmt(c)
        if isinstance(st, ast.Assign) and isinstance(st.targets[0], ast.Name):
            iv = st.targets[0].id
    if iv is None:
        r.fail(s.key('no-index-lookup'), s.loc(), 'set_attribute does not look the attribute up with __attr_index')
    else:
        for n in s.walk():
            tgt = None
            kind = None
            if isinstance(n, ast.Subscript) and isinstance(n.ctx, ast.Store) and norm(n.value) == 'self.yaml_node.value':
                tgt, kind = n, 'store[%s]' % norm(n.slice)
            elif isinstance(n, ast.Call) and isinstance(n.func, ast.Attribute) and norm(n.func.value) == 'self.yaml_node.value' \
                    and n.func.attr in MUTATORS:
                tgt, kind = n, n.func.attr
            elif isinstance(n, ast.Assign) and any(norm(t) == 'self.yaml_node.value' for t in n.targets):
                tgt, kind = n, 'rebuild'
            if tgt is None:
                continue
            found = s.has_guard(tgt, '%s is not None' % iv, True, expand=False) or s.has_guard(tgt, '%s is None' % iv, False, expand=False)
            absent = s.has_guard(tgt, '%s is not None' % iv, False, expand=False) or s.has_guard(tgt, '%s is None' % iv, True, expand=False)
            if found:
                r.check(kind == 'store[%s]' % iv, 'existing key: item store at the found index', s.key('found:%s' % kind), s.loc(tgt),
                        'set_attribute on an existing key does %s: the key does not keep its position' % kind)
            elif absent:
                r.check(kind == 'append', 'new key: append at the end', s.key('absent:%s' % kind), s.loc(tgt),
                        'set_attribute on a new key does %s instead of appending' % kind)
            else:
                r.fail(s.key('unguarded:%s' % kind), s.loc(tgt), 'set_attribute changes the pair list (%s) without knowing whether the '
                       'key exists' % kind)
        # the stored pair keeps the key node
        st = [n for n in s.walk() if isinstance(n, ast.Assign) and isinstance(n.targets[0], ast.Subscript)
              and norm(n.targets[0].value) == 'self.yaml_node.value']
        r.check(all(isinstance(n.value, ast.Tuple) and len(n.value.elts) == 2
                    and s.copies.xnorm(n.value.elts[0]) in ('self.yaml_node.value[%s][0]' % iv, 'key_node') for n in st) and bool(st),
                'the existing key node is kept', s.key('keeps-key-node'), s.loc(), 'set_attribute replaces the key node of an existing key')
    rm = fn(P, NODE + 'remove_attribute')
    muts = [n for n in rm.walk() if isinstance(n, ast.Call) and isinstance(n.func, ast.Attribute) and n.func.attr in MUTATORS
            and 'yaml_node.value' in norm(n.func.value)]
    ivs = [enclosing_stmt(c).targets[0].id for c in rm.calls('__attr_index') if isinstance(enclosing_stmt(c), ast.Assign)]
    ok = len(muts) == 1 and muts[0].func.attr == 'pop' and ivs and [norm(a) for a in muts[0].args] == [ivs[0]] \
        and rm.has_guard(muts[0], '%s is not None' % ivs[0], True, expand=False) and not enclosing_loops(muts[0], rm.node)
    r.check(ok, 'remove_attribute: one pop(found index) under "found"', rm.key('pop'), rm.loc(),
            'remove_attribute does not remove exactly the found pair (%s)' % [norm(m) for m in muts])
    rn = fn(P, NODE + 'rename_attribute')
    writes = []
    for n in rn.walk():
        if isinstance(n, (ast.Attribute, ast.Subscript)) and isinstance(n.ctx, (ast.Store, ast.Del)):
            writes.append(norm(n))
        if isinstance(n, ast.Call) and isinstance(n.func, ast.Attribute) and (n.func.attr in MUTATORS or n.func.attr in (
                'set_attribute', 'remove_attribute', 'make_mapping', 'set_value')):
            writes.append(norm(n.func))
    kv = None
    for l in [n for n in rn.walk() if isinstance(n, ast.For)]:
        if norm(l.iter) == 'self.yaml_node.value' and isinstance(l.target, ast.Tuple):
            kv = norm(l.target.elts[0])
    r.check(kv is not None and writes == ['%s.value' % kv], 'rename_attribute writes only the key node\'s text (%s.value)' % kv,
            rn.key('writes'), rn.loc(), 'rename_attribute writes %s: renaming must keep the pair in place (only the key text changes)' % writes)
    if kv is not None:
        st = [n for n in rn.walk() if isinstance(n, ast.Assign) and norm(n.targets[0]) == '%s.value' % kv]
        r.check(all(rn.has_guard(n, '%s.value == %s' % (kv, rn.fi.params[1]), True, expand=False) and norm(n.value) == rn.fi.params[2]
                    for n in st), 'only the matching key is renamed, to new_name', rn.key('which-key'), rn.loc(),
                'rename_attribute renames a key that does not match / to something else')
    ai = fn(P, NODE + '__attr_index')
    rets = ai.returns()
    loops = [n for n in ai.walk() if isinstance(n, ast.For)]
    first = False
    for l in loops:
        if norm(l.iter) == 'enumerate(self.yaml_node.value)':
            # leaves the loop at the first match (break or return inside the match branch)
            exits = [n for st in l.body for n in ast.walk(st) if isinstance(n, (ast.Break, ast.Return))]
            first = bool(exits) and all(any('== %s' % ai.fi.params[1] in t for t in ai.guard_texts(x)) for x in exits)
    r.check(first, '__attr_index stops at the first key equal to the attribute', ai.key('first-match'), ai.loc(),
            '__attr_index does not return the first matching index (with a repeated key, set/remove would hit another occurrence '
            'than has/get)')
    # readers are write-free
    from ..effects import world
    W = world(P)
    for name in ('has_attribute', 'get_attribute', 'has_attribute_type', 'is_scalar', 'is_mapping', 'is_sequence', 'get_value',
                 'is_empty', 'seq_items', '__attr_index'):
        fi = P.func(NODE + name)
        summ = {x for x in W.summary(fi) if x != 'fresh'}
        r.check(not summ, '%s writes nothing' % name, fi.key + ':pure', fi.loc(), '%s writes %s' % (name, sorted(summ)))
    r.done()


def _esc_sites(f: Fn) -> List[Tuple[ast.AST, str]]:
    """conversion calls int()/float() on node text or on an Any-typed value that are not under a handler"""
    out = []
    for n in f.walk():
        if isinstance(n, ast.Call) and isinstance(n.func, ast.Name) and n.func.id in ('int', 'float') and n.args:
            if not f.cfg.enclosing_handlers(n):
                out.append((n, n.func.id))
    return out


def r14_4_matches_total(ctx, rid='R14.4'):
    P = ctx.P
    r = ctx.rule(rid, 'remove_attributes_with_default_values cannot fail on a value that differs from the default: conversions of '
                      'the default are type-guarded, numeric node text is compared by its own kind', floor=4)
    key = NODE + 'remove_attributes_with_default_values.matches'
    if not P.has_func(key):
        raise AnalysisError('anchor missing: %s' % key)
    f = fn(P, key)
    vn, df = f.fi.params[0], f.fi.params[1]
    for n, kind in _esc_sites(f):
        arg = norm(n.args[0])
        if df in {x.id for x in ast.walk(n.args[0]) if isinstance(x, ast.Name)}:
            ok = any(isinstance_atom(g) and isinstance_atom(g)[0] == df and p and isinstance_atom(g)[1] <= {'int', 'float', 'bool'}
                     for g, p in f.guards(n))
            r.check(ok, '%s(%s) only under isinstance(%s, (int, float))' % (kind, arg, df), f.key('convert-default:%s' % kind), f.loc(n),
                    '%s(%s) is applied to an arbitrary default (None, a str, a list): a non-default value makes sweetening raise '
                    'TypeError/ValueError' % (kind, arg))
        else:
            # conversion of the node text: must be the conversion of the arm's own tag
            a, _ = tag_equalities(f.guards(n), '%s.tag' % vn, f.copies)
            want = {repr(CORE + 'int'): 'int', repr(CORE + 'float'): 'float'}
            ok = a is not None and len(a) == 1 and want.get(next(iter(a))) == kind
            r.check(ok, '%s(%s) in the %s arm' % (kind, arg, kind), f.key('convert-text:%s' % kind), f.loc(n),
                    'the text of a node tagged %s is converted with %s(): an int is compared through float (2**60+1 == 2**60) or '
                    'a float text through int' % (sorted(a) if a else '?', kind))
    arms = {}
    for ret in f.returns():
        a, _ = tag_equalities(f.guards(ret), '%s.tag' % vn, f.copies)
        if a and len(a) == 1:
            arms.setdefault(ast.literal_eval(next(iter(a))), []).append(ret)
    for t in ('int', 'float', 'bool', 'null'):
        r.check(CORE + t in arms, 'matches() has an arm for %s nodes' % t, f.key('arm:%s' % t), f.loc(),
                'matches() has no arm for %s nodes: such values are compared as raw text with the default' % t)
    # bool polarity
    for ret in arms.get(CORE + 'bool', []):
        gt = f.guard_texts(ret)
        words = {const_str(x) for x in ast.walk(ret.value) if isinstance(x, ast.Constant) and isinstance(x.value, str)} if ret.value is not None else set()
        if '%s is False' % df in gt:
            r.check('false' in words and not (words & {'true', 'yes', 'y', 'on'}), 'default False matches only false-spellings %s' % sorted(words),
                    f.key('bool-false-arm'), f.loc(ret), 'under `default is False` the node text is compared with %s: a True value '
                    'would be dropped from the dump and come back as False' % sorted(words))
        elif '%s is True' % df in gt:
            r.check('true' in words and not (words & {'false', 'no', 'n', 'off'}), 'default True matches only true-spellings %s' % sorted(words),
                    f.key('bool-true-arm'), f.loc(ret), 'under `default is True` the node text is compared with %s: a False value '
                    'would be dropped from the dump and come back as True' % sorted(words))
    # null arm
    for ret in arms.get(CORE + 'null', []):
        r.check(ret.value is not None and norm(ret.value) == '%s is None' % df, 'a null node matches only the default None', f.key('null-arm'),
                f.loc(ret), 'a null value is considered equal to the default by %s' % (norm(ret.value) if ret.value is not None else None))
    # the filter: keep the pair unless (name in defaults and matches(value, defaults[name]))
    outer = fn(P, NODE + 'remove_attributes_with_default_values')
    st = [n for n in outer.walk() if isinstance(n, ast.Assign) and any(norm(t) == 'self.yaml_node.value' for t in n.targets)]
    ok = False
    for n in st:
        if isinstance(n.value, ast.ListComp) and len(n.value.generators) == 1 and norm(n.value.generators[0].iter) == 'self.yaml_node.value':
            g = n.value.generators[0]
            kn, vv = (norm(x) for x in g.target.elts) if isinstance(g.target, ast.Tuple) else (None, None)
            cond = [norm(x) for x in g.ifs]
            ok = norm(n.value.elt) == '(%s, %s)' % (kn, vv) and cond == [
                '%s.value not in defaults or not matches(%s, defaults[%s.value])' % (kn, vv, kn)] \
                and outer.copies.xnorm(ast.parse('defaults').body[0].value) == 'defaulted_attributes(%s)' % outer.fi.params[1]
    r.check(ok, 'pairs are kept, in order, unless the key is defaulted and matches(value, default)', outer.key('filter'), outer.loc(),
            'remove_attributes_with_default_values does not keep exactly the pairs whose value differs from the default')
    r.done()


def r15_4_no_node_twice(ctx, rid='R15.4'):
    P = ctx.P
    r = ctx.rule(rid, 'a seasoning transform never inserts one node object at two positions of the tree (a shared node is '
                      'retagged once per reference)', floor=1)
    f = fn(P, NODE + 'map_attribute_to_index')
    loops = [n for n in f.walk() if isinstance(n, ast.For) and 'yaml_node.value' in norm(n.iter) and isinstance(n.target, ast.Tuple)]
    if not loops:
        raise AnalysisError('anchor missing: pair loop in map_attribute_to_index')
    lo = loops[0]
    kv = norm(lo.target.elts[0])
    uses = []
    for n in ast.walk(lo):
        if isinstance(n, ast.Call) and isinstance(n.func, ast.Attribute) and n.func.attr == 'append' and n.args \
                and isinstance(n.args[0], ast.Tuple):
            for x in n.args[0].elts:
                if norm(x) == kv:
                    uses.append(n)
    r.check(len(uses) <= 1, 'the key node itself is placed once (as the outer key); the inner key attribute is a copy '
            '(%d direct placements)' % len(uses), f.key('key-node-placed-twice'), f.loc(lo),
            'map_attribute_to_index places the same key node object both as the outer key and as the value of the key attribute: '
            'when the key attribute is a string-like/enum/Path class the shared node is retagged by the first reference and '
            'rejected at the second')
    cp = [n for n in ast.walk(lo) if isinstance(n, ast.Call) and call_name(n) in ('copy', 'deepcopy', 'ScalarNode') and
          any(norm(a) == kv or kv + '.' in norm(a) for a in n.args)]
    r.check(bool(cp), 'the inner key attribute value is a copy of / a new node built from the key node', f.key('key-copy'), f.loc(lo),
            'map_attribute_to_index does not copy the key node for the key attribute')
    r.done()


TRANSFORMS = ('seq_attribute_to_map', 'map_attribute_to_seq', 'index_attribute_to_map', 'map_attribute_to_index')


def r14_6_get_attribute_guarded(ctx, rid='R14.6', transforms=False):
    P = ctx.P
    r = ctx.rule(rid, 'absent keys are reported, not crashed on: every internal X.get_attribute(k) is dominated by '
                      'X.has_attribute(k) on the same receiver and name, or lies in a handler for SeasoningError', floor=3)
    n = 0
    for fi in P.yatiml_functions():
        f = None
        if (fi.name in TRANSFORMS) != transforms:
            continue
        for c in walk_function(fi.node):
            if isinstance(c, ast.Call) and isinstance(c.func, ast.Attribute) and c.func.attr == 'get_attribute' and c.args:
                f = f or S.fn_of(fi)
                if not f.live(c):
                    continue
                n += 1
                recv, name = norm(c.func.value), norm(c.args[0])
                ok = f.has_guard(c, '%s.has_attribute(%s)' % (recv, name), True, expand=False)
                if not ok and S.handler_for(f, c, {'SeasoningError', 'Exception', 'RuntimeError'}) is not None:
                    ok = True
                if not ok:
                    # `if not X.has_attribute(k): return/raise` earlier on every path
                    neg = S.branch_nodes(f, lambda a: S.atom_is(a, '%s.has_attribute(%s)' % (recv, name), True))
                    ok = bool(neg) and f.cfg.must_pass(f.cfg.entry, f.nid(c), neg)
                r.check(ok, '%s: %s.get_attribute(%s) under has_attribute' % (fi.qual, recv, name),
                        '%s:unguarded-get_attribute:%s.get_attribute(%s)' % (fi.key, recv, name), fi.loc(c),
                        '%s.get_attribute(%s) is reached without %s.has_attribute(%s): a missing (or repeated) key raises '
                        'SeasoningError out of %s' % (recv, name, recv, name, fi.qual))
    r.done()


YAML_INT_FLOAT_NOTE = 'PyYAML accepts 0x1F, 0b1, 0o17/017, 1_000, 1:30 as int and .inf/.nan as float; int()/float() do not'


def r14_9_get_value_text(ctx, rid='R14.9'):
    P = ctx.P
    r = ctx.rule(rid, 'get_value() returns what a load would construct: numeric node text is not converted with bare int()/float()',
                 floor=2)
    g = fn(P, NODE + 'get_value')
    for n, kind in _esc_sites(g):
        r.fail(g.key('bare-%s-on-node-text' % kind), g.loc(n), 'get_value converts node text with %s(): %s' % (kind, YAML_INT_FLOAT_NOTE))
    m = fn(P, NODE + 'remove_attributes_with_default_values.matches')
    for n, kind in _esc_sites(m):
        if m.fi.params[1] in {x.id for x in ast.walk(n.args[0]) if isinstance(x, ast.Name)} or kind != 'float':
            continue
        r.fail(m.key('bare-%s-on-node-text' % kind), m.loc(n), 'matches() converts node text with %s(): a float attribute holding '
               'inf/nan is represented as .inf/.nan and float(".inf") raises ValueError while sweetening' % kind)
    r.done()
