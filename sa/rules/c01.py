"""C01 - a loaded value conforms to the declared type: the type gate cannot be bypassed on any path."""
from . import shared as S

META = {
    'claim_added': "Also decided: every return of get_single_node goes through __process_node (an empty document is type checked as null); what PyYAML constructed is re-checked element by element (__type_matches as a complete recursion) on every path to __init__; Node.get_attribute answers only for exactly one matching key; recognition and signature introspection write no state; requiredness is 'position in the full argument list < len(args) - len(defaults)'; abstract classes and foreign tags are rejected (R03.1/4/6). Round 3: nothing writes the composed tree before __process_node (merge-key expansion, key normalisation) and the cycle check comes first (R01.10); no constructor is registered after the user's classes (R01.9); the class arm processes every present attribute whatever its type. Round 6: R01.15 - __process_node writes the node object it was handed, per reference (known finding F19b: `&a foo: *a` as Dict[str, Path] yields a Path key). Round 6 (E14): caches on the code this property is about are invisible - no value that lives in a memo cell (dict / lazily filled attribute / lru_cache) is modified by the code it is handed to, the key of a cell contains every input its value depends on, no mutable parameter default is modified or handed out; given that, the program is analysed as if every lookup missed. Round 12: R01.16 - no function of yatiml.constructors stores into a node of the processed tree (a key renamed after __process_node hands __init__ a value nobody judged); a display stored in a memo cell makes its elements cached objects (publish-before-fill is an M1 violation).",
    'level': 'other',
    'technique': 'static: CFG dominance / must-pass-through and guard evaluation over the abstract cardinality domain on '
                 'Loader.get_single_node, __process_node, __type_to_tag, Recognizer.__recognize_*; table agreement',
    'claim': 'Decides the structural necessary conditions of C01 on every path of the code: the composed document always '
             'goes through __process_node with the document type; the recognised type is extracted only under exactly one '
             'candidate (test evaluated over {0,1,>=2}), every child of a sequence/mapping/class node is processed with the '
             'matching type and stored back, every normal exit retags the node (or strips tags under Any) so that only '
             'the type-checked constructor can run, built-in scalars are accepted on the exact tag only, and the accept '
             'guards of Path/enum/string-like/class recognisers hold. It does not decide that PyYAML\'s constructors return '
             'values of the tagged type nor what user __init__/hooks do with their arguments (value-level).',
    'note': 'Assumes PyYAML dispatches construction on node.tag (read from constructor.py) and CPython semantics of the '
            'folded platform probe hasattr(typing, "_GenericAlias").',
    'explanation': 'Static decision of necessary structural clauses (see claim); every obligation names a construct of '
                   '/repo and the rule applied; a vanished anchor or a rule matching fewer sites than confirmed by hand is '
                   'an ANALYSIS-ERROR (exit 2).',
    'assumptions': ['PyYAML selects the constructor by node.tag', 'CPython >= 3.7 (typing._GenericAlias exists)'],
}


def run(ctx):
    S.r01_1_entry(ctx)
    S.r01_2_gate(ctx)
    S.r01_3_recursion(ctx)
    S.r01_4_retag(ctx)
    S.r01_5_scalar(ctx)
    S.r02_3_admission(ctx)
    S.r02_6_extraneous(ctx)
    S.r04_9_duplicate_keys(ctx)
    S.r04_4_no_dynamic_lookup(ctx)
    S.r03_8_whole_node(ctx)
    S.r01_6_deep_recheck(ctx)
    S.r02_9_requiredness(ctx, 'R01.8')
    S.r03_1_abstract(ctx)
    S.r03_4_most_derived(ctx)
    S.r03_6_foreign_tags(ctx)
    from . import helpers_rules as H
    H.r16_1_purity(ctx, 'R01.7', roots=['yatiml.recognizer:Recognizer.recognize', 'yatiml.introspection:class_subobjects'], what='recognition and signature introspection')
    from . import round3 as R3
    R3.r01_10_tree_untouched(ctx)
    R3.r01_9_user_classes_registered_last(ctx)
    R3.r04_10_key_test_table(ctx, 'R01.11')
    S.r02_2_attrset(ctx, 'R01.12')
    R3.r01_13_extras_partition(ctx, 'R01.13')
    R3.r03_15_tag_class_direction(ctx, 'R01.14')
    # one node reached by two references of different expected types is written in place per reference (known finding F19b)
    R3.r18_10_reference_owned_node(ctx, 'R01.15')
    S.r04_5_strip_tags(ctx, 'R01.16')
    from . import round3 as R3w
    R3w.r01_16_constructors_write_no_node(ctx, 'R01.16')
    from . import memo_rules as M
    M.memo_sound(ctx, 'R01.M')
