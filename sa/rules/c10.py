"""C10 - seasoning and recognition hooks run once, own class only, bases first."""
from . import shared as S

META = {
    'claim_added': "Also decided: the sweetened node is what the enum/string-like representers return; the converting handler cannot fail itself (literal format strings, e.args guarded) and may sit at the hook call or at its caller; the registries used for 'registered ancestor' are not shared tables (R11.3). Round 3: every path through __process_node passes the recognition gate (no already-tagged shortcut); only the classes passed by the caller are registered, on the loading and on the dumping side (R10.7). Round 6: nothing returns before the loop over the bases (R10.2); R10.9 - the walk does not reach registered ancestors behind an unregistered class (known finding F23). Round 6 (E14): caches on the code this property is about are invisible - no value that lives in a memo cell (dict / lazily filled attribute / lru_cache) is modified by the code it is handed to, the key of a cell contains every input its value depends on, no mutable parameter default is modified or handed out; given that, the program is analysed as if every lookup missed.",
    'level': 'other',
    'technique': 'static: hook call sites located by attribute name; own-__dict__ guard by dominance; ancestor loop shape and '
                 'dominance over the own hook; single external caller; placement by must-pass-through; converting handler',
    'claim': 'The calling protocol is entirely a matter of code shape, and is decided on every path: each of the five hook call '
             'sites runs under "<hook>" in X.__dict__ for the class X it is called on; in Loader.__savorize and '
             'Representer.__sweeten a loop over X.__bases__ recurses under the registry guard and dominates the own hook call '
             '(ancestors first, registered only), the node returned by the ancestors is passed on; no hook call is inside a loop '
             'and the seasoning entry points have exactly one external caller outside any loop (exactly once for single-inheritance '
             'chains); savorize sits after the uniqueness gate and before any recursion into children, sweeten after '
             'represent_mapping and before the return of the sweetened node; SeasoningError around savorize becomes '
             'RecognitionError. Not decided: diamonds (the property restricts itself to single inheritance), what hooks do.',
    'note': 'Two sites of the pinned tree (EnumRepresenter, UserStringRepresenter) use hasattr and are reported as known '
            'finding F11.',
    'explanation': 'Static decision of the hook calling protocol; see claim.',
    'assumptions': ['single inheritance for "exactly once"'],
}


def run(ctx):
    S.r10_hooks(ctx)
    from . import dumpside as D
    D.r11_3_pyyaml_tables(ctx, 'R10.6')
    from . import round3 as R3
    R3.r03_10_registered_is_given(ctx, 'R10.7')
    S.r01_2_gate(ctx)
    R3.r10_8_each_class_once(ctx)
    R3.r10_9_walk_reaches_registered_ancestors(ctx)
    from . import memo_rules as M
    M.memo_sound(ctx, 'R10.M')
