"""Rules added after the third round of seeded changes (additive changes: new features, shims, fallbacks; supporting modules;
PyYAML interplay).  Same conventions as the other rule libraries: canonical forms only, positive phrasing, construct keys without
line numbers."""
import ast
from typing import List, Optional, Set

from ..guards import norm, call_name
from ..model import AnalysisError
from . import shared as S
from .shared import fn, fn_of
from . import helpers_rules as H

LOADER = 'yatiml.loader:Loader.'


def r01_10_tree_untouched(ctx, rid='R01.10'):
    """Between the composer and __process_node nothing rewrites the document: what is recognised and type-checked is what was
    composed.  (Merge-key expansion, key normalisation, de-aliasing before recognition change which documents are admitted, in
    which order keys are seen, and - done recursively before the cycle check - blow the stack on a self-referential alias.)"""
    P = ctx.P
    from ..effects import world, call_closure
    W = world(P)
    r = ctx.rule(rid, 'the composed tree reaches __process_node unmodified: get_single_node / get_node and everything they call '
                      'besides __process_node write no node, and the cycle check is the first thing that walks the tree', floor=2)
    for name in ('get_single_node', 'get_node'):
        f = fn(P, LOADER + name)
        for w in H.node_writes(f):
            r.fail(f.key('node-write:%s' % f.alpha.text(w)[:50]), f.loc(w), '%s modifies the composed document before it is recognised (%s)'
                   % (name, norm(w)[:60]))
        fe = W.fns.get(f.fi.key)
        roots = []
        for call, cands in (fe.call_sites if fe is not None else []):
            cn = call_name(call)
            if cn in ('__process_node', name):
                continue
            for c in cands:
                if c.key not in roots:
                    roots.append(c.key)
        closure = call_closure(W, roots) if roots else []
        bad = []
        for fi in closure:
            if fi.key.endswith('.__process_node') or fi.key.endswith('.' + name):
                continue
            g = fn_of(fi)
            ws = H.node_writes(g)
            for w in ws:
                bad.append((fi, g, w))
        # PyYAML methods called on the loader itself (resolved through the MRO) that rewrite nodes, e.g. flatten_mapping
        for fi in [f.fi] + [x for x in closure if not x.key.endswith('.__process_node')]:
            if fi.cls is None:
                continue
            g = fn_of(fi)
            for c in g.walk():
                if isinstance(c, ast.Call) and isinstance(c.func, ast.Attribute) and isinstance(c.func.value, ast.Name) \
                        and c.func.value.id == 'self' and g.live(c):
                    m = P.lookup_method(fi.cls, c.func.attr)
                    if m is not None and not m.module.name.startswith('yatiml'):
                        for w in H.node_writes(fn_of(m)):
                            bad.append((m, g, c))
                            break
        for fi, g, w in bad:
            r.fail('%s:%s:pre-recognition-write:%s' % (f.fi.key, fi.name, norm(w)[:40]), g.loc(w),
                   '%s calls %s before recognition, which rewrites the document tree (%s): the document that is type-checked is no '
                   'longer the document that was composed (merge keys / normalised keys are admitted, key order changes)'
                   % (name, fi.key, norm(w)[:60]))
        r.ok('%s: %d callees besides __process_node, closure of %d functions, no node writes' % (name, len(roots), len(closure)))
        # the cycle check comes first: every other call that receives the node is dominated by it
        cc = [c for c in f.calls('__check_no_cycles') if f.live(c)]
        r.check(bool(cc), '%s runs the cycle check' % name, f.key('cycle-check-present'), f.loc(),
                '%s no longer calls __check_no_cycles: a self-referential alias recurses without bound (RecursionError)' % name)
        for call, cands in (fe.call_sites if fe is not None else []):
            cn = call_name(call)
            if cn in ('__check_no_cycles', name, 'get_mark', 'cast') or not f.live(call):
                continue
            takes_node = any(isinstance(a, ast.Name) and a.id == 'node' for a in call.args)
            if not takes_node:
                continue
            ok = any(f.cfg.dominates(f.nid(c), f.nid(call)) and f.nid(c) != f.nid(call) for c in cc)
            r.check(ok, '%s: %s(node, ..) runs after the cycle check' % (name, cn), f.key('after-cycle-check:%s' % cn), f.loc(call),
                    '%s passes the composed tree to %s before __check_no_cycles has run: a recursive walk over a self-referential '
                    'alias does not terminate (RecursionError instead of RecognitionError)' % (name, cn))
    r.done()


CTOR = 'yatiml.constructors:Constructor.'


def r02_13_init_arguments(ctx, rid='R02.13'):
    """__init__ receives what the document said and nothing else: the dict built by construct_mapping is not written between its
    construction and the call of __init__ (other than being split into parameters and extras)."""
    P = ctx.P
    from ..effects import world
    from ..facts import MUTATORS
    W = world(P)
    r = ctx.rule(rid, 'the keyword arguments of __init__ are exactly the constructed attributes of the document: the mapping returned by '
                      'construct_mapping is not modified before __init__ is called (omitted optional parameters keep their Python '
                      'defaults)', floor=2)
    f = fn(P, CTOR + '__call__')
    binds = [n for n in f.walk() if isinstance(n, ast.Assign) and len(n.targets) == 1 and isinstance(n.targets[0], ast.Name)
             and isinstance(n.value, ast.Call) and call_name(n.value) == 'construct_mapping']
    if len(binds) != 1:
        raise AnalysisError('anchor missing: `mapping = loader.construct_mapping(node, deep=True)` in Constructor.__call__')
    m = binds[0].targets[0].id
    rebinds = [n for n in f.walk() if isinstance(n, (ast.Assign, ast.AugAssign, ast.AnnAssign)) and n is not binds[0]
               and any(isinstance(x, ast.Name) and x.id == m and isinstance(x.ctx, ast.Store) for x in ast.walk(n))]
    r.check(not rebinds, 'the constructed mapping is bound once', f.key('mapping-rebound'), f.loc(rebinds[0]) if rebinds else f.loc(),
            'the mapping of constructed attributes is replaced before __init__ is called')
    writes = []
    for n in f.walk():
        if isinstance(n, ast.Subscript) and isinstance(n.ctx, (ast.Store, ast.Del)) and isinstance(n.value, ast.Name) and n.value.id == m:
            writes.append(n)
        elif isinstance(n, ast.Call) and isinstance(n.func, ast.Attribute) and isinstance(n.func.value, ast.Name) \
                and n.func.value.id == m and n.func.attr in MUTATORS:
            writes.append(n)
    for w in writes:
        r.fail(f.key('mapping-write:%s' % f.alpha.text(w)[:50]), f.loc(w), 'Constructor.__call__ modifies the constructed attributes before '
               'calling __init__ (%s): __init__ receives arguments the document did not give (an omitted optional parameter no longer '
               'takes its Python default) or loses some it gave' % norm(w)[:60])
    r.ok('direct writes of %s in __call__: %d' % (m, len(writes)))
    # callees that receive the mapping must not write it either
    fe = W.fns.get(f.fi.key)
    for call, cands in (fe.call_sites if fe is not None else []):
        pos = [i for i, a in enumerate(call.args) if isinstance(a, ast.Name) and a.id == m]
        if not pos or not f.live(call):
            continue
        for c in cands:
            ce = W.fns.get(c.key)
            params = [p for p in c.params if p not in ('self', 'cls')] if c.cls is not None else list(c.params)
            for i in pos:
                if i >= len(params) or ce is None:
                    continue
                pn = params[i]
                bad = [ev for ev in ce.events if ev.how != 'call' and pn in ev.roots]
                r.check(not bad, '%s does not write the mapping it is given' % c.name, '%s:writes-mapping' % c.key,
                        c.loc(bad[0].node) if bad else c.loc(c.node), '%s modifies the mapping of constructed attributes (%s)'
                        % (c.name, norm(bad[0].node)[:60] if bad else ''))
    # what __init__ gets
    inits = [c for c in f.walk() if isinstance(c, ast.Call) and isinstance(c.func, ast.Attribute) and c.func.attr == '__init__' and f.live(c)]
    for c in inits:
        kw = [k for k in c.keywords if k.arg is None]
        ok = len(kw) == 1 and not c.args and len(c.keywords) == 1
        src = f.alpha.text(kw[0].value) if kw else ''
        ok = ok and (src == f.alpha.text(ast.Name(m, ast.Load())) or ('__split_off_extra_attributes(' in src and 'construct_mapping(' in src))
        r.check(ok, '__init__(**<constructed mapping or its split>)', f.key('init-arguments:%d' % inits.index(c)), f.loc(c),
                '__init__ is not called with exactly the constructed attributes (%s)' % norm(c)[:80])
    if not inits:
        r.fail(f.key('no-init-call'), f.loc(), 'Constructor.__call__ never calls __init__')
    r.done()


def r03_10_registered_is_given(ctx, rid='R03.10'):
    """The classes that take part in recognition / representation are the ones the caller passed, nothing is added on the way
    (ancestors, classes found in annotations, mixins that define a hook)."""
    P = ctx.P
    from ..facts import MUTATORS, reaching_defs
    r = ctx.rule(rid, 'exactly the classes passed by the caller are registered: add_to_loader / add_to_dumper iterate over their '
                      'argument as given, and load_function / dump*_function pass on their own arguments only', floor=6)
    REG = {'yatiml.loader:add_to_loader': ('add_constructor',), 'yatiml.dumper:add_to_dumper': ('add_representer', 'add_multi_representer')}
    for key, regs in REG.items():
        f = fn(P, key)
        cp = f.fi.params[1]
        sites = [c for c in f.walk() if isinstance(c, ast.Call) and call_name(c) in regs and f.live(c)]
        sites += [n for n in f.walk() if isinstance(n, ast.Subscript) and isinstance(n.ctx, ast.Store) and norm(n.value).endswith('._registered_classes')]
        if not sites:
            r.fail(f.key('no-registration'), f.loc(), '%s registers nothing' % f.fi.name)
        for s_ in sites:
            loops = [l for l in S.enclosing_loops(s_, f.node) if isinstance(l, ast.For)]
            ok = False
            why = 'not inside a loop over %s' % cp
            for l in loops:
                if isinstance(l.iter, ast.Name) and l.iter.id == cp:
                    defs = reaching_defs(f, l.iter, cp)
                    odd = [d for d in defs if not (isinstance(d, ast.Assign) and norm(d.value) == '[%s]' % cp)]
                    ok = not odd
                    why = 'the list iterated over is rebuilt before the loop (%s)' % norm(odd[0])[:60] if odd else ''
            r.check(ok, '%s: %s happens for each class of the argument as given' % (f.fi.name, norm(s_)[:40]),
                    f.key('registration-source:%s' % f.alpha.text(s_)[:40]), f.loc(s_),
                    '%s registers classes the caller did not pass: %s' % (f.fi.name, why))
        muts = [c for c in f.walk() if isinstance(c, ast.Call) and isinstance(c.func, ast.Attribute) and c.func.attr in MUTATORS
                and isinstance(c.func.value, ast.Name) and c.func.value.id == cp]
        r.check(not muts, '%s does not extend the list of classes' % f.fi.name, f.key('classes-extended'), f.loc(muts[0]) if muts else f.loc(),
                '%s adds classes of its own to the ones passed by the caller (%s): classes the user did not register take part in '
                'recognition / get their hooks run' % (f.fi.name, norm(muts[0])[:60] if muts else ''))
    FACT = [('yatiml.loader:load_function', 'add_to_loader'), ('yatiml.dumper:dump_function', 'add_to_dumper'),
            ('yatiml.dumper:dumps_function', 'add_to_dumper'), ('yatiml.dumper:dump_json_function', 'add_to_dumper'),
            ('yatiml.dumper:dumps_json_function', 'add_to_dumper')]
    for key, callee in FACT:
        f = fn(P, key)
        va = f.node.args.vararg.arg if f.node.args.vararg is not None else None
        first = f.fi.params[0] if f.fi.params else None
        calls = [c for c in f.calls(callee) if f.live(c) and len(c.args) == 2]
        if not calls or va is None:
            r.fail(f.key('no-registration'), f.loc(), '%s does not register its arguments with %s' % (f.fi.name, callee))
            continue
        for c in calls:
            a = c.args[1]
            if isinstance(a, ast.Name):
                v = a.id
                defs = reaching_defs(f, c, v)
                odd = [d for d in defs if not (isinstance(d, ast.Assign) and norm(d.value) in ('list(%s)' % va, '[*%s]' % va))]
                muts = [m for m in f.walk() if isinstance(m, ast.Call) and isinstance(m.func, ast.Attribute) and m.func.attr in MUTATORS
                        and isinstance(m.func.value, ast.Name) and m.func.value.id == v
                        and not (m.func.attr == 'append' and len(m.args) == 1 and norm(m.args[0]) == first)]
                ok = not odd and not muts
                shown = norm((odd or muts)[0])[:60] if (odd or muts) else ''
            else:
                ok = norm(a) in ('list(%s)' % va, '[*%s]' % va)
                shown = norm(a)[:60]
            r.check(ok, '%s registers list(*%s)%s' % (f.fi.name, va, ' (+ the result type)' if key.endswith('load_function') else ''),
                    f.key('registered-classes'), f.loc(c), '%s registers classes other than the ones it was given (%s): e.g. ancestors of the '
                    'given classes, so that an unregistered class is considered (and may be instantiated)' % (f.fi.name, shown))
    r.done()
